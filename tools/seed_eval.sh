#!/bin/bash
# seed_eval.sh <id> [props...] : copies the sub-agent artefacts of /tmp/seed_<id>/OUT to /verif/seeded/<id>/, applies the patch to /repo,
# runs the quick checks (default: all twenty), reverts /repo. Prints which checks fired.
id=$1; shift
props=${@:-C01 C02 C03 C04 C05 C06 C07 C08 C09 C10 C11 C12 C13 C14 C15 C16 C17 C18 C19 C20}
case $id in *-2) src=/tmp/seed2_${id%-2}/OUT;; *-3) src=/tmp/seed3_${id%-3}/OUT;; *-4) src=/tmp/seed4_${id%-4}/OUT;; *-5) src=/tmp/seed5_${id%-5}/OUT;; *) src=/tmp/seed_$id/OUT;; esac
dst=/verif/seeded/$id
mkdir -p $dst
if [ -d $src ]; then cp -r $src/. $dst/; fi
cd /repo
if ! git diff --quiet; then echo "/repo is dirty"; exit 3; fi
git apply $dst/patch.diff || { echo "patch does not apply"; exit 3; }
trap 'git -C /repo checkout -- . ' EXIT
for p in $props; do
  out=$(cd /verif && ORV_NO_EVIDENCE=1 ORV_REPORTS=/tmp/seedrep_$id ./orcheck $p --tier quick 2>&1)
  rc=$?
  if [ $rc -ne 0 ]; then
    echo "== $p exit $rc"
    echo "$out" | grep -E "^[a-z_/.0-9A-Z]+:[0-9]+:[0-9]+: C[0-9]+\.R|ANALYSIS-BROKEN" | grep -v KNOWN | cut -c1-400 | head -6
  fi
done
rm -rf /tmp/seedrep_$id
