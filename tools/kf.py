#!/usr/bin/env python3
"""kf.py fixed|known <property> <rule> <function-id> <discriminator> <commit-or-'-'> <what> [replay_input]  - appends to known_findings.json (by hand, never at check time)"""
import json, sys
p = '/verif/known_findings.json'
k = json.load(open(p))
status, prop, rule, fn, disc, commit, what = sys.argv[1:8]
e = {'status': status, 'property': prop, 'key': [rule, fn, disc], 'what': ('fixed: property=%s %s %s' % (prop, commit, what)) if status == 'fixed' else what}
if commit != '-':
    e['commit'] = commit
if len(sys.argv) > 8:
    e['replay_input'] = sys.argv[8]
k['findings'].append(e)
json.dump(k, open(p, 'w'), indent=1)
