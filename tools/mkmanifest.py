#!/usr/bin/env python3
"""Regenerates /verif/MANIFEST.json from the table below (kept in one place so it is always valid)."""
import json
import os

V = os.path.dirname(os.path.dirname(os.path.abspath(__file__)))

CLAIMED = {
    # id: (technique, level text, level note, design ref)
    'C18': ('whole-program exception-escape fix-point over the resolved call graph + abstract interpretation of lexer loops at end of input',
            'Static: every noexcept frame / destructor of the program (all 48 units, executor and parallel build) is proved free of '
            'input-dependent throwing paths; every character-reading loop of the lexer is proved to leave the loop when the input ends. '
            'Decides the "terminates the process / hangs on bad input" clauses structurally at every site; it does not decide assertion '
            'trips, general memory safety or search termination.',
            'Trusts clang 14 name/overload resolution and the source tables of throwing std functions and partial name look-ups listed in orv/cg.py.',
            'DESIGN.md 4 C18'),
}

NOT_YET = {}

NOT_APPLICABLE = {}


def main():
    props = [json.loads(l) for l in open(os.path.join(V, 'properties.jsonl'))]
    checks = []
    na = []
    for p in props:
        i = p['id']
        if i in CLAIMED:
            tech, text, note, ref = CLAIMED[i]
            checks.append({
                'property_id': i,
                'quick_cmd': './orcheck %s --tier quick' % i,
                'thorough_cmd': './orcheck %s --tier thorough' % i,
                'evidence_file': 'evidence/%s.json' % i,
                'replay_cmd_template': './orcheck replay {path}',
                'engine': 'orcheck',
                'level_claimed': {'category': 'other', 'text': text, 'design_ref': ref},
                'level_note': note,
                'technique': 'static analysis: ' + tech,
            })
        else:
            na.append({'property_id': i, 'reason': NOT_APPLICABLE.get(i) or NOT_YET.get(i) or
                       'static rule pack for this property is not implemented yet in this tree (see DESIGN.md section 4 for the planned structural clauses); not claimed'})
    m = {
        'version': 1,
        'setup_cmd': 'make -C /verif bin/orfacts',
        'hooks': {
            'guard': 'ORATIO_VERIF',
            'enable': 'no hooks: every rule analyses the unmodified sources of /repo; the guard name is reserved and unused',
            'baseline_off_cmd': '/verif/tools/run_baseline.sh',
            'source_commits': [],
            'add_only': True,
        },
        'engines': [{
            'name': 'orcheck', 'path': 'orcheck',
            'serves_properties': sorted(CLAIMED),
            'kind_free_text': 'repository-specific static analyser: clang-14 libTooling fact extractor (tools/orfacts.cc: resolved AST + CFG per function, '
                              'per build configuration, from a configure-only CMake compile database) + Python rule packs (orv/rules/Cxx.py): call-graph '
                              'fix-points, CFG dataflow, clause-schema / decision-table extraction, dual and sibling comparison. Nothing of oRatio is executed.',
        }],
        'checks': checks,
        'not_applicable': na,
        'notes': 'exit 0 held / 1 violation (VIOLATION lines, replay = reports/<id>/<n>.json) / 2 analysis broken (anchor vanished, floor not reached, unit does not parse). '
                 'Known findings: known_findings.json (never written at run time).',
    }
    with open(os.path.join(V, 'MANIFEST.json'), 'w') as fh:
        json.dump(m, fh, indent=1)
    print('claimed', len(checks), 'not claimed', len(na))


if __name__ == '__main__':
    main()
