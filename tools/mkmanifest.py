#!/usr/bin/env python3
"""Regenerates /verif/MANIFEST.json from the table below (kept in one place so it is always valid)."""
import json
import os

V = os.path.dirname(os.path.dirname(os.path.abspath(__file__)))

CLAIMED = {
    # id: (technique, level text, level note, design ref)
    'C18': ('whole-program exception-escape fix-point over the resolved call graph + abstract interpretation of lexer loops at end of input',
            'Static: every noexcept frame / destructor of the program (all 48 units, executor and parallel build) is proved free of '
            'input-dependent throwing paths; every character-reading loop of the lexer is proved to leave the loop when the input ends. '
            'Decides the "terminates the process / hangs on bad input" clauses structurally at every site; it does not decide assertion '
            'trips, general memory safety or search termination. A syntax-tree node pointer handed to an owner in the parser is re-assigned before it is handed over again (no double delete at teardown). The keyed accesses of the noexcept ov_theory::new_eq range over the intersection of the two domains (C14.R2, evaluated as C18.R4). The name / type / predicate / method look-up chains are well-founded: the core encloses itself and its overrides of the forwarding look-ups of scope / env reach no forwarding look-up (C18.R5).',
            'Trusts clang 14 name/overload resolution and the source tables of throwing std functions and partial name look-ups listed in orv/cg.py.',
            'DESIGN.md 4 C18'),
    'C08': ('undo-log typestate over stores to backtrackable state (who-may-write table, save-before-write with same key and current value, first-write-wins, overwrite-restore, push/pop pairing)',
            'Static: every store to a backtrackable location (LRA bounds, DL distances / predecessors / responsible constraints, SAT trail vectors, flaw set and costs) in every '
            'function of the program obeys the undo-log discipline on every path; pop() restores every undo map by assignment and removes one layer. Decides the structural '
            'necessary conditions of "undo restores exactly"; equality of all observables on arbitrary histories is not decided. The already-saved test looks up the key of the save; solver::pop restores the agenda exactly. The rule pack of C07 is evaluated here too (where a backjump lands is decided by the order analyze leaves the learnt clause in).',
            'Trusts the frozen table of backtrackable fields and their reviewed writers in orv/rules/C08.py.', 'DESIGN.md 4 C08'),
    'C10': ('IDL/RDL sibling comparison of normalised path sets + decision-table and explanation-walk typestate of the DL propagation code',
            'Static: the two difference-logic theories agree method by method under the type map; the assertion/negation table of propagate(lit), the overwrite of the '
            'edge->constraint map, the four explanation walks (start, end, predecessor row, polarity, own literal) and matrix growth have the shape exactness needs. '
            'Tightness of the incremental all-pairs update is not decided.',
            'Trusts the type map I<->inf_rational and the two reasoned sibling differences listed in orv/sib_dl.py / orv/rules/C10.py.', 'DESIGN.md 4 C10'),
    'C12': ('decision-table extraction of the relation builders checked against the algebraically derived table; IDL/RDL sibling comparison of the queries; sign-of-coefficient dataflow in bounds(lin)',
            'Static, exhaustive over the finite table: all 2 theories x 5 relations x arities 0/1/2 x sign cells return the distance constraint that the algebra of c*x + k ~ 0 dictates '
            '(from, to, constant sign, strictness), with the normalising division, the difference-form and integrality guards; sibling agreement of bounds/distance/equates/lb/ub; '
            'bounds(c*x) respects the sign of c. The sign conventions of distance(lin,lin)/equates are not decided (DESIGN 4 C12). The negation table of propagate(lit) (meaning of a false relation literal) is evaluated here too, and so is the whole rule pack of C10 (a relation literal left open is decided by the propagation of the DL theory).',
            'Trusts the meaning of new_distance(from,to,d) as to - from <= d (checked by C10.R2).', 'DESIGN.md 4 C12'),
    'C13': ('clause-schema extraction of the reified constructors compared with the Tseitin specification; freshness of the defined literal; decision table of the root shortcuts; cache-key dataflow',
            'Static, exhaustive over the finite specification: the set of clause schemas posted by new_eq/new_conj/new_disj/new_at_most_one (pairwise and product grid)/new_exct_one equals the '
            'Tseitin definition; the defined literal is fresh; the 9 root-value cells of new_eq; cache tag/key/lookup/store discipline; routing from core. The root-true arms of the cardinality '
            'constructs and the grid arithmetic are not decided. The product grid has a cell for every literal (columns = ceil(n / rows)). The path tables of bool_item / arith_item / var_item::new_eq (TRUE_lit only for the item itself; an operand of the same kind gets the equality the sat core / theory builds, under no further test). The rule pack of C07 (clause and watch machinery the reified literals live in) is evaluated here too.',
            'Trusts the Tseitin specification written in orv/rules/C13.py; clause order and local names are irrelevant (roles are found structurally).', 'DESIGN.md 4 C13'),
    'C14': ('clause-schema and decision-table extraction of ov_theory; who-may-call rule for the waived exactly-one with delegation check along the call path',
            'Static: new_var binds a fresh literal per value and posts the exactly-one unit clause exactly when asked; new_eq posts exactly the clauses that make the literal mean '
            '"same value" and handles identity / symmetry / disjoint domains / caching; allows/value tables; the only waiver (solver::new_enum) creates an exclusive, value-complete var_flaw. The rule pack of C13 (exactly-one / equality encodings) is evaluated here too.',
            'Rests on C13 (exactly-one) and C03.R1 (flaw expansion posts at-least-one and pairwise exclusion).', 'DESIGN.md 4 C14'),
    'C11': ('four-way sibling comparison of the LRA relation builders with their table row abstracted + direct table-cell checks + dual check of lb/ub(lin) + routing check',
            'Static, exhaustive over the 4x7 table: epsilon of the right-hand side, already-true/false tests on expression and slack, constraint kind and cache-key text of new_lt/leq/geq/gt; '
            'the four builders are otherwise the same function; new_eq = geq and leq; lb/ub(lin) select bounds by coefficient sign; new_var(lin) seeds the slack from the expression; core routes by type. '
            'The rule pack of C15 (exact lin / rational arithmetic, no zero coefficient kept, the sign printed by the sharing key to_string(lin)) is evaluated here too; full injectivity of the printed key is not decided. The rule pack of C09 is evaluated here too.',
            'Trusts the semantics of assertion(op, slack, c) established by C09.R3.', 'DESIGN.md 4 C11'),
    'C09': ('dual comparison (lb<->ub token map) of the six LRA bound routines and the two arms of check(); explanation-completeness patterns; decision table of propagate; writer table and effect patterns of pivot/update',
            'Static: upper-bound code is the exact dual of lower-bound code (so a one-sided edit is always seen); the primal explanations name every term of the row with the bound selected by the '
            'coefficient sign plus the violated bound; the epsilon table of negated assertions; tableau/watch/value writers and the arithmetic of pivot, update and pivot_and_update. '
            'Termination of the simplex and the model property on arbitrary histories are not decided. The rule pack of C11 (rows and relation builders over the same tableau) is evaluated here too.',
            'One accepted asymmetry (row::propagate_ub tests lb(v) instead of lb(c_v), benign) is listed by name in orv/rules/C09.py.', 'DESIGN.md 4 C09'),
    'C15': ('symbolic field-dependency analysis with polarity of every arithmetic operator of lin / inf_rational on every path, compared with the algebra; fresh-container .at() typestate; dual/delegation patterns of rational',
            'Static: for all 45 operator paths of smt::lin and smt::inf_rational the symbolic value of each result field equals the algebra of the operator (sign, which field a scalar goes to, scaling of every '
            'coefficient and the constant), which also forces const and compound forms to agree; no .at() on a container created empty in the same function; rational comparisons are mutual duals, '
            'subtraction/division delegate to addition/multiplication of the negated / sign-normalised reciprocal operand; normalize() canonicalises; rational a += b distinguishes exactly the cases of a + b and normalises its general case; smt::lin erases a coefficient that becomes zero on every path; to_string(lin) (the slack-sharing key) prints every term with the sign of its own coefficient. '
            'Canonical form on all values, comparisons between opposite infinities and overflow are not decided.',
            'The special-value fast paths (x*0, x/inf) are accepted when guarded by an explicit test of the scalar.', 'DESIGN.md 4 C15'),
    'C07': ('CFG path counting (exactly-one watch re-registration on every path), decision tables of new_clause / enqueue / simplify, must-pass and ordering rules over sat_core::propagate / next / check, pattern facts of analyze and record',
            'Static: a clause never loses or duplicates its watch on any path; conflicting propagation restores the unvisited watchers; learnt clauses are stored with two watches and justify their propagation; '
            'every conflict site of sat_core::propagate fails at root and learns otherwise; theories are all checked before success; next() and check() have the required shape; the root simplification table of '
            'new_clause; the classification of reason literals in analyze. The learnt clause leaves analyze with the asserting literal first and the deepest false literal second. Soundness of first-UIP learning on arbitrary trails is not decided.',
            'The structural facts are written for the MiniSat-style design the code follows; local names are resolved by role.', 'DESIGN.md 4 C07'),
    'C03': ('clause-schema extraction of the causal encoding (flaw expansion, resolvers, unification, activation), CFG typestate of the ni bracketing, traversal-sibling comparison of atom::new_eq/equates, polarity-dispatch rule',
            'Static: an active flaw forces one of its resolvers (exactly one for atom / bool / var flaws), a resolver implies its flaw; the unification resolver carries !sigma, sigma(target) and the field-complete equality, '
            'skips causally later / unified / non-equating targets and is causally linked; activation posts sigma and applies the inherited rules under the right controlling literal; every flaw is ordered strictly after its '
            'causes; activation events are dispatched on the literal, not the variable. That search finds a justification is not decided. synthetic fields are only the this / return pseudo-variables; predicate::apply_rule reaches the inherited rules unconditionally; solver::pop restores the agenda exactly; whether an atom is activated as a fact or as a goal depends on is_fact alone.',
            'Trusts C13 (new_conj), C10/C12 (IDL distances) and C14 for the literals used.', 'DESIGN.md 4 C03'),
    'C01': ('CFG reachability of solver::solve per build configuration (solution gate), must-use-result analysis of every consistency-reporting call of the program, clause-schema and who-may-write rules for asserted facts, routing tables of the exposed values',
            'Static: in every heuristic / inconsistency-checking / listener configuration (2 quick, +32 thorough) success is only reachable through the inconsistency check after the last decision and an empty agenda; no '
            'call site in the program drops a reported inconsistency (5 reasoned exceptions); facts are posted exactly as {!ni, fact}; values are read from the theory that owns them. '
            'The derived variable of a field read through an object variable keeps the hull of its candidates. The check also evaluates the rule packs of the properties it rests on '
            '(C07, C09-C17: SAT core, theories, relation literals, arithmetic, language front end), so a structural violation there is reported here too. That the model values numerically satisfy the constraints is not decided.',
            'Trusts the list of consistency-reporting functions in orv/rules/C01.py (MUST_CHECK).', 'DESIGN.md 4 C01'),
    'C02': ('control-dependence analysis of every planner-exception throw on a failed consistency call; vector-builder summary of the learnt no-good; gamma-guard clause schemas; ordering facts of conflict analysis',
            'Static: the problem is declared unsolvable / inconsistent only where a consistency call failed (8 frozen, reasoned sites); the clause learnt from a forced inconsistency choice is exactly {choice} + negated decisions; '
            'graph pruning clauses carry !gamma and gamma is renewed only when false; theory conflicts are analysed over their own literals after back-jumping to their highest level. '
            'Soundness of first-UIP analysis and of theory explanations on arbitrary histories is not decided (C07/C09/C10 decide their structural parts). Graph-exhaustion throws are only allowed while expansion is required (any_of active flaws / all_of frontier with infinite cost). The check also evaluates the rule packs of C07, C09-C17 (an encoding stronger than what was written makes solvable problems unsolvable).',
            'The frozen throw sites are named with a reason in orv/rules/C02.py.', 'DESIGN.md 4 C02'),
    'C04': ('solution-gate CFG rule + structural rules of the state-variable checker: peak test, unconditional per-pair reporting, canonical-expression check of the ordering literals, sweep sibling agreement, listener exhaustiveness',
            'Static: a plan is only reported after the timeline check that follows the last decision; the check considers exactly the active atoms, treats two overlapping atoms as a peak, reports every overlapping pair '
            '(also with no choice left), offers both orderings; the ordering literal leqs[X][Y] is end(X) <= start(Y) at all 8 stores; checker and timeline extractor sweep alike; listeners cover every parameter kind. '
            'Completeness of the to_check bookkeeping on arbitrary histories is not decided. solver::new_atom reaches every smart type among all transitive supertypes; the re-check set only grows; the atom listener also listens to sigma; every value-change notification of the theories goes to the listeners of the variable that changed.',
            'Rests on C01.R1/R2 (gate) and C11 (meaning of new_leq).', 'DESIGN.md 4 C04'),
    'C05': ('solution-gate CFG rule + structural rules of the reusable-resource checker: unconditional usage accumulation over all overlapping atoms, strict peak test against the instance capacity, MCS window, no-unification clause, synthetic constraints, ordering literals',
            'Static: usage is the sum of the amounts of all active overlapping Use atoms, compared strictly with the capacity of that instance; every minimal conflict set found is reported unconditionally; '
            'the extracted timeline accumulates the same way; Use atoms are never unified; capacity >= 0 and amount >= 0 are part of the synthetic constructor / predicate; ordering literals as in C04. '
            'Optimality of the MCS enumeration is not decided. solver::new_atom reaches every smart type among all transitive supertypes; the re-check set only grows; the atom listener also listens to sigma; every value-change notification of the theories goes to the listeners of the variable that changed.',
            'Rests on C01.R1/R2 (gate) and C11.', 'DESIGN.md 4 C05'),
    'C06': ('linear-atom normalisation of the configured INIT_STRING (LA and DL forms) against the required temporal constraints; CFG typestate of the fact arm of every smart type (set_ni / apply_rule / restore_ni); who-must-call rule for rule application',
            'Static: the temporal rule the build actually configures contains origin <= start <= end <= horizon, duration = end - start >= 0 (LA) / the DL form, and origin <= at <= horizon, for any re-ordering or superset; '
            'every path that activates an atom of a smart type or a goal applies the rule exactly once under the atom\'s sigma, inherited rules first; the synthetic predicates are Intervals. '
            'One known finding: facts on plain predicates (design decision of oRatio). Numeric satisfaction is C01/C09. solver::new_atom reaches every smart type among all transitive supertypes; predicate::apply_rule reaches the inherited rules unconditionally; whether an atom is activated as a fact or as a goal depends on is_fact alone.',
            'The required atoms are written in orv/rules/C06.py; the DL form is read from a configure-only run because that configuration does not compile at the pinned commit.', 'DESIGN.md 4 C06'),
    'C16': ('character-path (trie) extraction of lexer::next against a keyword/punctuation oracle; symbol production/consumption cross-check; FIRST sets by abstract interpretation of the parser over the 48 token kinds; CFG typestate of the current token; '
            'precedence-table extraction; routing-chain check lexeme -> symbol -> factory -> node -> core operation',
            'Static: every keyword / operator lexeme produces the symbol the language assigns to it and nothing else does; every symbol the parser consumes is produced; no dispatch point rejects a token kind that the non-terminal it serves accepts '
            '(one-token look-ahead), no non-terminal is called on a token it rejects, no token is consumed or down-cast unexamined; the precedence levels and node kinds of all 17 operators; all 41 node factories are overridden by the '
            'evaluable node of the same name; every node evaluates all operands in order with the core operation of its name. Two-token look-ahead (method declarations with primitive return type, call statements) and exactness of evaluated values beyond C15 are not decided. Block comments and string literals are scanned by the automata of the language (extracted from the CFG over character classes, compared with the reference DFA); a speculative look-ahead never raises the syntax error itself; the last hop core::<rel> -> theory constructor and the arithmetic of C15 are evaluated here too. Every digit of a numeral is kept (C16.R10, must-pass over the CFG of lexer::next under the digit class).',
            'The punctuation table is frozen from the RIDDLE grammar in orv/rules/C16.py; keyword lexemes are derived from the enumerator names.', 'DESIGN.md 4 C16'),
    'C17': ('traversal-completeness rules (breadth-first visit of all supertypes / included enums, no filter, no early exit), CFG ordering of the constructor phases, clause schemas of field access through object variables, sibling agreement of new_eq/equates',
            'Static: instances, atoms and predicates are registered with every transitive supertype; existential variables range over all instances, enum variables over declared plus included values; constructors run supertypes, initialiser list, '
            'defaults of unset fields and body in this order; a field read through an object variable is a derived variable tied to the field of every possible value, with mutually exclusive value groups; '
            'non-assignable values of a formula argument are excluded; new_eq and equates analyse the same cases. Which instance a solution picks is not decided. The per-value subtype test of formula arguments has the right direction and every written argument is stored in the atom. type::is_assignable_from is read in its work-list and in its recursive form (every supertype of the argument is tried).',
            'Rests on C14 (object variables) and C13 (disjunction) for the literals used.', 'DESIGN.md 4 C17'),
    'C19': ('path rules over the CFG of executor::tick with a product construction (conditional constant propagation of the delay flag, correlated look-ups, announcement markers); error-discipline, filter and clause-schema rules of the executor',
            'Static (BUILD_EXECUTOR=ON configuration): time advances exactly once per tick and outside the loop; in every iteration starting precedes start, ending precedes end; once an atom was delayed neither start / end nor the pulse erase is '
            'reachable and the iteration restarts only after propagate() and solve(); the due pulse is erased once, last; every failed bound assertion is analysed or reported; constants cannot be delayed; '
            'build_timelines keeps active, non-past atoms; adaptation clause {!sigma, !xi, sigma_xi}. Validity of the adapted plan (C01 on the re-solved problem) and exactly-once over a whole history are not decided. The bounds stored for re-imposition after a back-jump equal the bounds imposed when an atom is delayed, started or ended. lra_theory::set imposes both bounds; the rule pack of C15 (arithmetic of the bounds) is evaluated here too.',
            'Analysed in configuration F only (the executor is not part of the pinned build).', 'DESIGN.md 4 C19'),
    'C20': ('structural comparison of the PARALLELIZE build with the sequential build (function inventory, task body == sequential loop body modulo lock_guard), RAII lockset analysis of the task, capture / store privacy rules, CFG must-pass of join(), mutex-sizing pairing, monitor protocol of thread_pool',
            'Static (PARALLELIZE=ON configurations P_par and F against the pinned P): the only code that differs between the builds is pivot / new_var / the copy constructor and the pool; each pivot task executes exactly the statements of the sequential row update; '
            'every watch-list access of a task holds the mutex of that list; tasks own their row, copy their inputs and touch no other member; every path joins the pool before the tableau is used again; mutexes are sized with the watch lists; '
            'the pool counts tasks in the dequeuing critical section and join() waits for active == 0 && tasks.empty(). Decides race-freedom and per-row result equality structurally; schedule-independence of the iteration order of the '
            'unordered watch sets (hence of which conflict is reported first) is runtime behaviour and not decided.',
            'Trusts the C++ memory model for std::mutex / condition_variable and the reviewed table of PARALLELIZE-dependent functions in orv/rules/C20.py.', 'DESIGN.md 4 C20'),
}

NOT_YET = {}

NOT_APPLICABLE = {}


def main():
    props = [json.loads(l) for l in open(os.path.join(V, 'properties.jsonl'))]
    checks = []
    na = []
    for p in props:
        i = p['id']
        if i in CLAIMED:
            tech, text, note, ref = CLAIMED[i]
            checks.append({
                'property_id': i,
                'quick_cmd': './orcheck %s --tier quick' % i,
                'thorough_cmd': './orcheck %s --tier thorough' % i,
                'evidence_file': 'evidence/%s.json' % i,
                'replay_cmd_template': './orcheck replay {path}',
                'engine': 'orcheck',
                'level_claimed': {'category': 'other', 'text': text, 'design_ref': ref},
                'level_note': note,
                'technique': 'static analysis: ' + tech,
            })
        else:
            na.append({'property_id': i, 'reason': NOT_APPLICABLE.get(i) or NOT_YET.get(i) or
                       'static rule pack for this property is not implemented yet in this tree (see DESIGN.md section 4 for the planned structural clauses); not claimed'})
    m = {
        'version': 1,
        'setup_cmd': 'make -C /verif bin/orfacts',
        'hooks': {
            'guard': 'ORATIO_VERIF',
            'enable': 'no hooks: every rule analyses the unmodified sources of /repo; the guard name is reserved and unused',
            'baseline_off_cmd': '/verif/tools/run_baseline.sh',
            'source_commits': [],
            'add_only': True,
        },
        'engines': [{
            'name': 'orcheck', 'path': 'orcheck',
            'serves_properties': sorted(CLAIMED),
            'kind_free_text': 'repository-specific static analyser: clang-14 libTooling fact extractor (tools/orfacts.cc: resolved AST + CFG per function, '
                              'per build configuration, from a configure-only CMake compile database) + Python rule packs (orv/rules/Cxx.py): call-graph '
                              'fix-points, CFG dataflow, clause-schema / decision-table extraction, dual and sibling comparison. Nothing of oRatio is executed.',
        }],
        'checks': checks,
        'not_applicable': na,
        'notes': 'exit 0 held / 1 violation (VIOLATION lines, replay = reports/<id>/<n>.json) / 2 analysis broken (anchor vanished, floor not reached, unit does not parse). '
                 'Known findings: known_findings.json (never written at run time).',
    }
    with open(os.path.join(V, 'MANIFEST.json'), 'w') as fh:
        json.dump(m, fh, indent=1)
    print('claimed', len(checks), 'not claimed', len(na))


if __name__ == '__main__':
    main()
