#!/usr/bin/env python3
"""Regenerates the status table of DESIGN.md section 10.1 from the committed evidence files and the variant catalogue (so the numbers are the measured ones)."""
import json, os, re, sys
V = os.path.dirname(os.path.dirname(os.path.abspath(__file__)))
sys.path.insert(0, V)
from orv.variants import VARIANTS
rows = ['| id | rules evaluated by the check (own pack; `+` = packs of the properties it rests on) | rule instances on today\'s tree | catalogue variants + independent seeded changes (all reported) | findings on today\'s tree |',
        '|----|------|------|------|------|']
for i in range(1, 21):
    p = 'C%02d' % i
    e = json.load(open(os.path.join(V, 'evidence', p + '.json')))
    rules = sorted(e['coverage']['rules'])
    own = [r.split('.')[1] for r in rules if r.startswith(p + '.')]
    other = sorted({r.split('.')[0] for r in rules if not r.startswith(p + '.')})
    seeds = [d for d in sorted(os.listdir(os.path.join(V, 'seeded'))) if d.split('-')[0] == p and os.path.isdir(os.path.join(V, 'seeded', d))]
    known = len(e['coverage'].get('known_findings_matched') or [])
    rows.append('| %s | %s%s | %d | %d + %d | %s |' % (p, ' '.join(own), (' + ' + ' '.join(other)) if other else '', e['coverage']['distinct_nontrivial'], len(VARIANTS.get(p, [])), len(seeds),
                                                 ('%d known' % known) if known else 'none'))
s = open(os.path.join(V, 'DESIGN.md')).read()
a = s.index('<!-- status-table:begin -->') + len('<!-- status-table:begin -->')
b = s.index('<!-- status-table:end -->')
s = s[:a] + '\n' + '\n'.join(rows) + '\n' + s[b:]
open(os.path.join(V, 'DESIGN.md'), 'w').write(s)
print('\n'.join(rows))
