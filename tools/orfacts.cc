// orfacts: repository-specific fact extractor for the oRatio static checks.
//
// One libTooling run per translation unit.  For every function declared in a
// file below --root it writes (one JSON file per unit, into -o <dir>):
//   * identity (qualified name + canonical parameter types), class, virtual /
//     pure / const / noexcept, overridden methods, constructor initialisers;
//   * the body as a tree with implicit wrapper nodes stripped, callee / member /
//     declaration references *resolved* by the type checker;
//   * clang::CFG (setAllAlwaysAdd, no EH edges) with element -> tree-node ids;
// plus records (bases, fields) and enums (enumerators).
//
// Nothing of the analysed program is executed; this is a syntax-tree / CFG dump
// of the type-checked program.  See /verif/DESIGN.md section 2.2.
#include "clang/AST/ASTConsumer.h"
#include "clang/AST/ExprCXX.h"
#include "clang/AST/RecursiveASTVisitor.h"
#include "clang/AST/StmtCXX.h"
#include "clang/Analysis/CFG.h"
#include "clang/Frontend/CompilerInstance.h"
#include "clang/Frontend/FrontendAction.h"
#include "clang/Lex/Lexer.h"
#include "clang/Tooling/CommonOptionsParser.h"
#include "clang/Tooling/Tooling.h"
#include "llvm/Support/CommandLine.h"
#include "llvm/Support/JSON.h"
#include "llvm/Support/raw_ostream.h"
#include <map>

using namespace clang;
using namespace clang::tooling;
using llvm::json::Array;
using llvm::json::Object;
using llvm::json::Value;

static llvm::cl::OptionCategory Cat("orfacts");
static llvm::cl::opt<std::string> OutFile("o", llvm::cl::desc("output file (absolute)"), llvm::cl::cat(Cat));
static llvm::cl::opt<std::string> Root("root", llvm::cl::init("/repo/"), llvm::cl::cat(Cat));

namespace {

struct Dumper {
  ASTContext &C;
  SourceManager &SM;
  PrintingPolicy PP;
  std::map<const Stmt *, int> ids;
  int next = 0;

  explicit Dumper(ASTContext &c) : C(c), SM(c.getSourceManager()), PP(c.getLangOpts()) {
    PP.SuppressTagKeyword = true;
    PP.Bool = true;
  }

  std::string loc(SourceLocation L) {
    L = SM.getExpansionLoc(L);
    if (L.isInvalid())
      return "";
    return (SM.getFilename(L) + ":" + llvm::Twine(SM.getExpansionLineNumber(L)) + ":" +
            llvm::Twine(SM.getExpansionColumnNumber(L)))
        .str();
  }
  std::string endloc(SourceLocation L) {
    L = SM.getExpansionRange(L).getEnd();
    if (L.isInvalid())
      return "";
    L = Lexer::getLocForEndOfToken(L, 0, SM, C.getLangOpts());
    if (L.isInvalid())
      return "";
    return (llvm::Twine(SM.getSpellingLineNumber(L)) + ":" + llvm::Twine(SM.getSpellingColumnNumber(L))).str();
  }
  bool inRoot(SourceLocation L) {
    L = SM.getExpansionLoc(L);
    return L.isValid() && SM.getFilename(L).startswith(Root);
  }
  // is this location inside the expansion of the assert() macro?
  bool inAssert(SourceLocation L) {
    int guard = 0;
    while (L.isMacroID() && guard++ < 32) {
      StringRef N = Lexer::getImmediateMacroName(L, SM, C.getLangOpts());
      if (N == "assert")
        return true;
      if (SM.isMacroArgExpansion(L))
        L = SM.getImmediateExpansionRange(L).getBegin();
      else
        L = SM.getImmediateExpansionRange(L).getBegin();
    }
    return false;
  }

  std::string ty(QualType T) { return T.isNull() ? "" : T.getCanonicalType().getAsString(PP); }

  std::string fid(const FunctionDecl *F) {
    std::string s = F->getQualifiedNameAsString();
    s += "(";
    bool first = true;
    for (auto *P : F->parameters()) {
      if (!first)
        s += ",";
      first = false;
      s += ty(P->getType());
    }
    s += ")";
    if (auto *M = dyn_cast<CXXMethodDecl>(F))
      if (M->isConst())
        s += " const";
    return s;
  }

  const Expr *strip(const Expr *E) {
    while (E) {
      if (auto *X = dyn_cast<ImplicitCastExpr>(E))
        E = X->getSubExpr();
      else if (auto *X = dyn_cast<MaterializeTemporaryExpr>(E))
        E = X->getSubExpr();
      else if (auto *X = dyn_cast<CXXBindTemporaryExpr>(E))
        E = X->getSubExpr();
      else if (auto *X = dyn_cast<ExprWithCleanups>(E))
        E = X->getSubExpr();
      else if (auto *X = dyn_cast<ParenExpr>(E))
        E = X->getSubExpr();
      else if (auto *X = dyn_cast<ConstantExpr>(E))
        E = X->getSubExpr();
      else if (auto *X = dyn_cast<CXXStdInitializerListExpr>(E))
        E = X->getSubExpr();
      else
        break;
    }
    return E;
  }

  Value decl(const Decl *D) {
    Object o;
    if (auto *V = dyn_cast<VarDecl>(D)) {
      o["k"] = "VarDecl";
      o["name"] = V->getNameAsString();
      o["t"] = ty(V->getType());
      o["loc"] = loc(V->getLocation());
      o["static"] = V->isStaticLocal();
      if (V->hasInit())
        o["init"] = stmt(V->getInit());
      if (auto *DD = dyn_cast<DecompositionDecl>(V)) {
        Array b;
        for (auto *B : DD->bindings())
          b.push_back(B->getNameAsString());
        o["bindings"] = std::move(b);
      }
    } else {
      o["k"] = D->getDeclKindName();
    }
    return o;
  }

  Value stmt(const Stmt *S0) {
    if (!S0)
      return nullptr;
    const Stmt *S = S0;
    if (auto *E = dyn_cast<Expr>(S0))
      S = strip(E);
    Object o;
    int id = next++;
    ids[S] = id;
    // every stripped wrapper maps to the same id (CFG elements may name them)
    if (S != S0) {
      const Expr *E = dyn_cast<Expr>(S0);
      while (E && E != S) {
        ids[E] = id;
        const Expr *N = nullptr;
        if (auto *X = dyn_cast<ImplicitCastExpr>(E))
          N = X->getSubExpr();
        else if (auto *X = dyn_cast<MaterializeTemporaryExpr>(E))
          N = X->getSubExpr();
        else if (auto *X = dyn_cast<CXXBindTemporaryExpr>(E))
          N = X->getSubExpr();
        else if (auto *X = dyn_cast<ExprWithCleanups>(E))
          N = X->getSubExpr();
        else if (auto *X = dyn_cast<ParenExpr>(E))
          N = X->getSubExpr();
        else if (auto *X = dyn_cast<ConstantExpr>(E))
          N = X->getSubExpr();
        else if (auto *X = dyn_cast<CXXStdInitializerListExpr>(E))
          N = X->getSubExpr();
        E = N;
      }
    }
    o["id"] = id;
    o["k"] = S->getStmtClassName();
    o["loc"] = loc(S->getBeginLoc());
    o["end"] = endloc(S->getEndLoc());
    if (inAssert(S->getBeginLoc()))
      o["as"] = true;
    if (auto *E = dyn_cast<Expr>(S))
      o["t"] = ty(E->getType());
    Array ch;

    if (auto *DS = dyn_cast<DeclStmt>(S)) {
      for (auto *D : DS->decls())
        ch.push_back(decl(D));
      o["c"] = std::move(ch);
      return o;
    }
    if (auto *L = dyn_cast<LambdaExpr>(S)) {
      Array caps;
      for (auto &cp : L->captures()) {
        Object c;
        c["byref"] = cp.getCaptureKind() == LCK_ByRef;
        c["this"] = cp.capturesThis();
        if (cp.capturesVariable()) {
          c["var"] = cp.getCapturedVar()->getNameAsString();
          c["dloc"] = loc(cp.getCapturedVar()->getLocation());
        }
        caps.push_back(std::move(c));
      }
      o["captures"] = std::move(caps);
      o["capture_default"] = (int)L->getCaptureDefault();
      if (auto *CO = L->getCallOperator()) {
        Array lps;
        for (auto *P : CO->parameters()) {
          Object p;
          p["name"] = P->getNameAsString();
          p["t"] = ty(P->getType());
          p["loc"] = loc(P->getLocation());
          lps.push_back(std::move(p));
        }
        o["params"] = std::move(lps);
      }
      ch.push_back(stmt(L->getBody()));
      o["c"] = std::move(ch);
      return o;
    }
    if (auto *CE = dyn_cast<CallExpr>(S)) {
      if (auto *F = CE->getDirectCallee()) {
        o["callee"] = fid(F);
        o["callee_name"] = F->getQualifiedNameAsString();
        if (auto *M = dyn_cast<CXXMethodDecl>(F)) {
          // a call through a qualified name (base::m(..)) is bound statically: it is not dispatched
          bool qualified = false;
          if (auto *ME = dyn_cast<MemberExpr>(CE->getCallee()->IgnoreParenImpCasts()))
            qualified = ME->hasQualifier();
          o["virtual"] = M->isVirtual() && !qualified;
        }
      }
      if (auto *OC = dyn_cast<CXXOperatorCallExpr>(S))
        o["op"] = getOperatorSpelling(OC->getOperator());
    }
    if (auto *CE = dyn_cast<CXXConstructExpr>(S)) {
      o["callee"] = fid(CE->getConstructor());
      o["callee_name"] = CE->getConstructor()->getQualifiedNameAsString();
      o["list"] = CE->isListInitialization();
    }
    if (auto *NE = dyn_cast<CXXNewExpr>(S))
      o["alloc_t"] = ty(NE->getAllocatedType());
    if (auto *ME = dyn_cast<MemberExpr>(S)) {
      o["member"] = ME->getMemberDecl()->getQualifiedNameAsString();
      o["arrow"] = ME->isArrow();
      o["is_field"] = isa<FieldDecl>(ME->getMemberDecl());
      if (auto *M = dyn_cast<CXXMethodDecl>(ME->getMemberDecl()))
        o["member_fn"] = fid(M);
    }
    if (auto *DM = dyn_cast<CXXDependentScopeMemberExpr>(S)) {
      o["dep_member"] = DM->getMember().getAsString();
      o["arrow"] = DM->isArrow();
    }
    if (auto *UL = dyn_cast<UnresolvedLookupExpr>(S))
      o["dep_name"] = UL->getName().getAsString();
    if (auto *UM = dyn_cast<UnresolvedMemberExpr>(S))
      o["dep_member"] = UM->getMemberName().getAsString();
    if (auto *DR = dyn_cast<DeclRefExpr>(S)) {
      auto *D = DR->getDecl();
      o["ref"] = D->getQualifiedNameAsString();
      o["refk"] = D->getDeclKindName();
      o["dloc"] = loc(D->getLocation());
      if (auto *F = dyn_cast<FunctionDecl>(D))
        o["ref_fn"] = fid(F);
      if (auto *V = dyn_cast<VarDecl>(D))
        o["local"] = V->isLocalVarDeclOrParm();
    }
    if (auto *BO = dyn_cast<BinaryOperator>(S))
      o["op"] = BO->getOpcodeStr().str();
    if (auto *UO = dyn_cast<UnaryOperator>(S)) {
      o["op"] = UnaryOperator::getOpcodeStr(UO->getOpcode()).str();
      o["postfix"] = UO->isPostfix();
    }
    if (auto *IL = dyn_cast<IntegerLiteral>(S))
      o["val"] = (int64_t)IL->getValue().getSExtValue();
    if (auto *CL = dyn_cast<CharacterLiteral>(S))
      o["val"] = (int64_t)CL->getValue();
    if (auto *FL = dyn_cast<FloatingLiteral>(S))
      o["val"] = FL->getValueAsApproximateDouble();
    if (auto *SL = dyn_cast<StringLiteral>(S)) {
      if (SL->isAscii() || SL->isUTF8())
        o["val"] = SL->getString().str();
    }
    if (auto *BL = dyn_cast<CXXBoolLiteralExpr>(S))
      o["val"] = BL->getValue();
    if (auto *NC = dyn_cast<CXXNamedCastExpr>(S))
      o["cast_to"] = ty(NC->getTypeAsWritten());
    if (auto *CS = dyn_cast<CaseStmt>(S)) {
      Expr::EvalResult R;
      if (CS->getLHS()->EvaluateAsInt(R, C))
        o["case"] = (int64_t)R.Val.getInt().getSExtValue();
      if (auto *DR = dyn_cast<DeclRefExpr>(strip(CS->getLHS())))
        o["case_name"] = DR->getDecl()->getNameAsString();
    }
    if (auto *G = dyn_cast<GotoStmt>(S))
      o["label"] = G->getLabel()->getNameAsString();
    if (auto *L = dyn_cast<LabelStmt>(S))
      o["label"] = L->getName();
    if (auto *DA = dyn_cast<CXXDefaultArgExpr>(S)) {
      ch.push_back(stmt(DA->getExpr()));
      o["c"] = std::move(ch);
      return o;
    }

    // explicit slots for control statements
    if (auto *IS = dyn_cast<IfStmt>(S)) {
      Object sl;
      sl["init"] = stmt(IS->getInit());
      if (IS->getConditionVariableDeclStmt())
        sl["condvar"] = stmt(IS->getConditionVariableDeclStmt());
      sl["cond"] = stmt(IS->getCond());
      sl["then"] = stmt(IS->getThen());
      sl["else"] = stmt(IS->getElse());
      o["slots"] = std::move(sl);
      return o;
    }
    if (auto *FR = dyn_cast<CXXForRangeStmt>(S)) {
      Object sl;
      sl["var"] = decl(FR->getLoopVariable());
      sl["range"] = stmt(FR->getRangeInit());
      sl["body"] = stmt(FR->getBody());
      o["slots"] = std::move(sl);
      // the desugared helper statements are visible to the CFG: give them ids
      // that point at this node so CFG elements are never dangling
      for (const Stmt *H : {(const Stmt *)FR->getRangeStmt(), (const Stmt *)FR->getBeginStmt(),
                            (const Stmt *)FR->getEndStmt(), (const Stmt *)FR->getCond(), (const Stmt *)FR->getInc(),
                            (const Stmt *)FR->getLoopVarStmt()})
        if (H && !ids.count(H))
          ids[H] = id;
      return o;
    }
    if (auto *FS = dyn_cast<ForStmt>(S)) {
      Object sl;
      sl["init"] = stmt(FS->getInit());
      sl["cond"] = stmt(FS->getCond());
      sl["inc"] = stmt(FS->getInc());
      sl["body"] = stmt(FS->getBody());
      o["slots"] = std::move(sl);
      return o;
    }
    if (auto *WS = dyn_cast<WhileStmt>(S)) {
      Object sl;
      sl["cond"] = stmt(WS->getCond());
      sl["body"] = stmt(WS->getBody());
      o["slots"] = std::move(sl);
      return o;
    }
    if (auto *DS = dyn_cast<DoStmt>(S)) {
      Object sl;
      sl["body"] = stmt(DS->getBody());
      sl["cond"] = stmt(DS->getCond());
      o["slots"] = std::move(sl);
      return o;
    }
    if (auto *SS = dyn_cast<SwitchStmt>(S)) {
      Object sl;
      sl["cond"] = stmt(SS->getCond());
      sl["body"] = stmt(SS->getBody());
      o["slots"] = std::move(sl);
      return o;
    }
    if (auto *TS = dyn_cast<CXXTryStmt>(S)) {
      ch.push_back(stmt(TS->getTryBlock()));
      for (unsigned i = 0; i < TS->getNumHandlers(); ++i) {
        auto *H = TS->getHandler(i);
        Object h;
        h["k"] = "CXXCatchStmt";
        h["loc"] = loc(H->getBeginLoc());
        h["caught"] = H->getExceptionDecl() ? ty(H->getCaughtType()) : std::string("...");
        Array hc;
        hc.push_back(stmt(H->getHandlerBlock()));
        h["c"] = std::move(hc);
        ids[H] = id;
        ch.push_back(std::move(h));
      }
      o["c"] = std::move(ch);
      return o;
    }
    for (const Stmt *K : S->children())
      ch.push_back(stmt(K));
    o["c"] = std::move(ch);
    return o;
  }

  Value cfg(const FunctionDecl *F) {
    CFG::BuildOptions BO;
    BO.setAllAlwaysAdd();
    BO.AddImplicitDtors = false;
    auto G = CFG::buildCFG(F, F->getBody(), &C, BO);
    if (!G)
      return nullptr;
    Array blocks;
    for (auto *B : *G) {
      Object b;
      b["id"] = (int64_t)B->getBlockID();
      Array el;
      for (auto &E : *B) {
        if (auto SE = E.getAs<CFGStmt>()) {
          auto it = ids.find(SE->getStmt());
          if (it != ids.end())
            el.push_back(it->second);
        }
      }
      b["elems"] = std::move(el);
      Array su;
      for (auto &Sx : B->succs()) {
        if (Sx.getReachableBlock())
          su.push_back((int64_t)Sx.getReachableBlock()->getBlockID());
        else
          su.push_back(nullptr);
      }
      b["succs"] = std::move(su);
      if (auto *T = B->getTerminatorStmt()) {
        auto it = ids.find(T);
        if (it != ids.end())
          b["term"] = it->second;
        b["termk"] = T->getStmtClassName();
      }
      if (auto *L = B->getLabel()) {
        auto it = ids.find(L);
        if (it != ids.end())
          b["label"] = it->second;
      }
      if (B->hasNoReturnElement())
        b["noreturn"] = true;
      blocks.push_back(std::move(b));
    }
    Object g;
    g["entry"] = (int64_t)G->getEntry().getBlockID();
    g["exit"] = (int64_t)G->getExit().getBlockID();
    g["blocks"] = std::move(blocks);
    return g;
  }
};

struct V : RecursiveASTVisitor<V> {
  ASTContext &C;
  Dumper D;
  Array funcs, recs, enums;
  explicit V(ASTContext &c) : C(c), D(c) {}
  bool shouldVisitTemplateInstantiations() const { return false; }
  bool shouldVisitLambdaBody() const { return false; }

  bool VisitFunctionDecl(FunctionDecl *F) {
    if (!D.inRoot(F->getLocation()))
      return true;
    if (F->isDependentContext())
      return true;
    if (auto *M = dyn_cast<CXXMethodDecl>(F))
      if (M->getParent()->isLambda())
        return true;
    Object o;
    o["id"] = D.fid(F);
    o["name"] = F->getQualifiedNameAsString();
    o["loc"] = D.loc(F->getLocation());
    o["is_def"] = F->doesThisDeclarationHaveABody();
    o["implicit"] = F->isImplicit();
    o["defaulted"] = F->isDefaulted();
    o["deleted"] = F->isDeleted();
    if (auto *FPT = F->getType()->getAs<FunctionProtoType>()) {
      if (!isUnresolvedExceptionSpec(FPT->getExceptionSpecType()))
        o["noexcept"] = FPT->isNothrow();
    }
    o["ret"] = D.ty(F->getReturnType());
    Array ps;
    for (auto *P : F->parameters()) {
      Object p;
      p["name"] = P->getNameAsString();
      p["t"] = D.ty(P->getType());
      p["loc"] = D.loc(P->getLocation());
      if (P->hasDefaultArg() && !P->hasUninstantiatedDefaultArg() && !P->hasUnparsedDefaultArg()) {
        D.ids.clear();
        D.next = 0;
        p["default"] = D.stmt(P->getDefaultArg());
      }
      ps.push_back(std::move(p));
    }
    o["params"] = std::move(ps);
    if (auto *M = dyn_cast<CXXMethodDecl>(F)) {
      o["class"] = M->getParent()->getQualifiedNameAsString();
      o["virtual"] = M->isVirtual();
      o["pure"] = M->isPure();
      o["const"] = M->isConst();
      o["static"] = M->isStatic();
      Array ov;
      for (auto *O : M->overridden_methods())
        ov.push_back(D.fid(O));
      o["overrides"] = std::move(ov);
    }
    o["kind"] = isa<CXXConstructorDecl>(F) ? "ctor" : isa<CXXDestructorDecl>(F) ? "dtor" : isa<CXXConversionDecl>(F) ? "conv" : "fn";
    if (F->doesThisDeclarationHaveABody()) {
      D.ids.clear();
      D.next = 0;
      if (auto *CD = dyn_cast<CXXConstructorDecl>(F)) {
        Array inits;
        for (auto *I : CD->inits()) {
          if (!I->isWritten())
            continue;
          Object io;
          if (I->isAnyMemberInitializer())
            io["member"] = I->getAnyMember()->getNameAsString();
          else if (I->isBaseInitializer())
            io["base"] = D.ty(QualType(I->getBaseClass(), 0));
          else if (I->isDelegatingInitializer())
            io["delegating"] = true;
          io["init"] = D.stmt(I->getInit());
          inits.push_back(std::move(io));
        }
        o["inits"] = std::move(inits);
      }
      o["body"] = D.stmt(F->getBody());
      o["cfg"] = D.cfg(F);
    }
    funcs.push_back(std::move(o));
    return true;
  }

  bool VisitCXXRecordDecl(CXXRecordDecl *R) {
    if (!R->isThisDeclarationADefinition() || !D.inRoot(R->getLocation()) || R->isLambda())
      return true;
    if (R->isDependentContext())
      return true;
    Object o;
    o["name"] = R->getQualifiedNameAsString();
    o["loc"] = D.loc(R->getLocation());
    Array b;
    for (auto &B : R->bases())
      b.push_back(D.ty(B.getType()));
    o["bases"] = std::move(b);
    Array f;
    for (auto *FD : R->fields()) {
      Object fo;
      fo["name"] = FD->getNameAsString();
      fo["t"] = D.ty(FD->getType());
      fo["loc"] = D.loc(FD->getLocation());
      f.push_back(std::move(fo));
    }
    o["fields"] = std::move(f);
    Array ms;
    for (auto *M : R->methods()) {
      if (M->isImplicit())
        continue;
      ms.push_back(D.fid(M));
    }
    o["methods"] = std::move(ms);
    recs.push_back(std::move(o));
    return true;
  }

  bool VisitEnumDecl(EnumDecl *E) {
    if (!D.inRoot(E->getLocation()))
      return true;
    Object o;
    o["name"] = E->getQualifiedNameAsString();
    o["loc"] = D.loc(E->getLocation());
    Array en;
    for (auto *K : E->enumerators()) {
      Object e;
      e["name"] = K->getNameAsString();
      e["val"] = (int64_t)K->getInitVal().getSExtValue();
      en.push_back(std::move(e));
    }
    o["enumerators"] = std::move(en);
    enums.push_back(std::move(o));
    return true;
  }
};

struct Cons : ASTConsumer {
  std::string In;
  explicit Cons(StringRef f) : In(f.str()) {}
  void HandleTranslationUnit(ASTContext &C) override {
    Object top;
    top["tu"] = In;
    bool err = C.getDiagnostics().hasErrorOccurred();
    top["errors"] = err;
    V v(C);
    if (!err)
      v.TraverseDecl(C.getTranslationUnitDecl());
    top["functions"] = std::move(v.funcs);
    top["records"] = std::move(v.recs);
    top["enums"] = std::move(v.enums);
    std::error_code EC;
    llvm::raw_fd_ostream os(OutFile, EC);
    os << Value(std::move(top));
  }
};

struct Act : ASTFrontendAction {
  std::unique_ptr<ASTConsumer> CreateASTConsumer(CompilerInstance &, StringRef f) override {
    return std::make_unique<Cons>(f);
  }
};

} // namespace

int main(int argc, const char **argv) {
  auto P = CommonOptionsParser::create(argc, argv, Cat);
  if (!P) {
    llvm::errs() << P.takeError();
    return 2;
  }
  ClangTool T(P->getCompilations(), P->getSourcePathList());
  return T.run(newFrontendActionFactory<Act>().get());
}
