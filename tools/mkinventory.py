#!/usr/bin/env python3
"""Regenerates orv/inventory.json (the reviewed function inventory) from the current tree. Run only after reviewing what is new."""
import sys, json, os
V = os.path.dirname(os.path.dirname(os.path.abspath(__file__)))
sys.path.insert(0, V)
os.environ['ORV_NO_INLINE'] = '1'
from orv import facts
from orv.normalize import local_keys, opaque_tokens
opq = {}
ids = set()
locs = {}
for c in list(facts.CONFIGS):
    for f in facts.load(c).fns.values():
        if (f.d.get('loc') or '').startswith(facts.REPO.rstrip('/') + '/'):
            ids.add(f.id)
            if f.d.get('body'):
                toks = opaque_tokens(f.d['body'])
                if toks:
                    o = list(opq.get(f.id, []))
                    left = list(o)
                    for t in toks:
                        if t in left:
                            left.remove(t)
                        else:
                            o.append(t)
                    opq[f.id] = sorted(o)
                ks = local_keys(f.d['body'])
                if ks:
                    # multiset union over the configurations
                    cur = [tuple(x) for x in locs.get(f.id, [])]
                    left = list(cur)
                    for k in map(tuple, ks):
                        if k in left:
                            left.remove(k)
                        else:
                            cur.append(k)
                    locs[f.id] = sorted(cur)
p = os.path.join(V, 'orv', 'inventory.json')
old = json.load(open(p))
old['functions'] = sorted(ids)
old['locals'] = {k: [list(x) for x in locs[k]] for k in sorted(locs)}
old['opaque'] = {k: opq[k] for k in sorted(opq)}
json.dump(old, open(p, 'w'), indent=0)
print(len(ids), 'functions', sum(len(v) for v in locs.values()), 'locals')
