#!/usr/bin/env python3
"""Regenerates orv/inventory.json (the reviewed function inventory) from the current tree. Run only after reviewing what is new."""
import sys, json, os
V = os.path.dirname(os.path.dirname(os.path.abspath(__file__)))
sys.path.insert(0, V)
os.environ['ORV_NO_INLINE'] = '1'
from orv import facts
ids = set()
for c in ('F', 'P', 'P_par', 'F_seq'):
    for f in facts.load(c).fns.values():
        if (f.d.get('loc') or '').startswith(facts.REPO.rstrip('/') + '/'):
            ids.add(f.id)
p = os.path.join(V, 'orv', 'inventory.json')
old = json.load(open(p))
old['functions'] = sorted(ids)
json.dump(old, open(p, 'w'), indent=0)
print(len(ids), 'functions')
