#!/usr/bin/env python3
"""tally of a tools/benign_run.py log per batch: silent / false VIOLATION (some check exit 1) / exit 2 only / stale"""
import re, sys
cur = None
res = {}
for line in open(sys.argv[1]):
    m = re.match(r'^(\S+)/r\d+\s+(ok|ALARM|stale)', line)
    if m:
        cur = line.split()[0]
        res[cur] = 'ok' if m.group(2) == 'ok' else ('stale' if m.group(2) == 'stale' else 'exit2')
        continue
    m = re.match(r'^\s+C\d\d\((\d)\)', line)
    if m and cur and m.group(1) == '1':
        res[cur] = 'violation'
def batch(name):
    g = name.split('/')[0]
    return g[1:] if len(g) > 1 else '1'
t = {}
for k, v in res.items():
    t.setdefault(batch(k), {}).setdefault(v, []).append(k)
for b in sorted(t):
    d = t[b]
    print('batch', b, 'patches', sum(len(x) for x in d.values()), 'silent', len(d.get('ok', [])), 'violation', len(d.get('violation', [])), sorted(d.get('violation', [])),
          'exit2', len(d.get('exit2', [])), sorted(d.get('exit2', [])), 'stale', d.get('stale', []))
