#!/usr/bin/env python3
"""Robustness test of the rule packs: renames every local variable and parameter of every function defined in a .cpp of the repository
(clang-rename-14, so the edit is behaviour-preserving by construction) in a scratch git worktree, and runs the checks against it.
A check that reports a violation or 'analysis broken' there depends on a local name - a false alarm in waiting.

    tools/rename_test.py [C04 C05 ...]        (default: all properties)
"""
import json, os, subprocess, sys, tempfile, shutil, collections
sys.path.insert(0, os.path.dirname(os.path.dirname(os.path.abspath(__file__))))
from orv import facts

def main():
    props = sys.argv[1:] or ['C%02d' % i for i in range(1, 21)]
    fs = facts.load('F')
    base = tempfile.mkdtemp(prefix='orv-rename-')
    wt = os.path.join(base, 'wt')
    subprocess.run(['git', '-C', facts.REPO, 'worktree', 'add', '-q', '--detach', wt, 'HEAD'], check=True)
    try:
        per_file = collections.defaultdict(dict)
        def add(loc, name):
            if not loc or not name or name.startswith('__') or name == 'this':
                return
            path, line, col = loc.rsplit(':', 2)
            if not path.startswith(facts.REPO + '/') or not path.endswith('.cpp'):
                return
            per_file[path][(int(line), int(col))] = name
        srcs = {}
        def has_pp(f):
            # functions with #if arms: clang-rename only sees the active arm, renaming would break the other one
            loc = f.d.get('loc') or ''
            path, line, _ = loc.rsplit(':', 2)
            end = (f.body or {}).get('end') or ''
            try:
                eline = int(end.split(':')[0])
            except ValueError:
                return True
            if path not in srcs:
                srcs[path] = open(path, errors='replace').read().split('\n')
            return any(l.lstrip().startswith('#') for l in srcs[path][int(line) - 1:eline])
        for f in fs.defined():
            if not (f.d.get('loc') or '').startswith(facts.REPO + '/'):
                continue
            if f.body is None or has_pp(f):
                continue
            for p in f.get('params') or ():
                add(p.get('loc'), p.get('name'))
            for n in f.nodes():
                if n.get('k') == 'VarDecl' and n.get('name') and not n.get('static'):
                    add(n.get('loc'), n['name'])
        scratch = os.path.join(base, 'cfg')
        r = subprocess.run(['cmake', '-G', 'Ninja', '-S', wt, '-B', scratch, '-DCMAKE_EXPORT_COMPILE_COMMANDS=ON', '-DCMAKE_BUILD_TYPE=RelWithDebInfo',
                            '-DBUILD_EXECUTOR=ON', '-DPARALLELIZE=ON', '-Wno-dev'], stdout=subprocess.PIPE, stderr=subprocess.STDOUT, text=True)
        assert r.returncode == 0, r.stdout[-2000:]
        total = 0
        for path, decls in sorted(per_file.items()):
            wpath = wt + path[len(facts.REPO):]
            data = open(wpath, 'rb').read()
            lines = data.split(b'\n')
            starts = [0]
            for l in lines:
                starts.append(starts[-1] + len(l) + 1)
            y = []
            for (line, col), name in sorted(decls.items()):
                off = starts[line - 1] + col - 1
                if data[off:off + len(name)] != name.encode():
                    continue            # the location is not the name (macro expansion etc.)
                y.append('- Offset: %d\n  NewName: q_%s_z\n' % (off, name))
            if not y:
                continue
            yml = os.path.join(base, 'r.yaml')
            open(yml, 'w').write('---\n' + ''.join(y) + '...\n')
            r = subprocess.run(['clang-rename-14', '-i', '-force', '-input=' + yml, '-p', scratch, '--extra-arg=-std=gnu++17', '--extra-arg=-UNDEBUG', '--extra-arg=-Wno-everything', wpath],
                               stdout=subprocess.PIPE, stderr=subprocess.STDOUT, text=True)
            total += len(y)
            if r.returncode != 0:
                print('clang-rename failed on', path, r.stdout[-500:])
        print('renamed %d locals / parameters in %d files' % (total, len(per_file)))
        d = subprocess.run(['git', '-C', wt, 'diff', '--stat'], stdout=subprocess.PIPE, text=True).stdout.strip().split('\n')[-1]
        print(d)
        shutil.rmtree(scratch, ignore_errors=True)
        env = dict(os.environ, ORV_REPO=wt, ORV_NO_EVIDENCE='1', ORV_REPORTS=os.path.join(base, 'reports'))
        bad = 0
        for p in props:
            r = subprocess.run([os.path.join(facts.VERIF, 'orcheck'), p, '--tier', 'quick'], stdout=subprocess.PIPE, stderr=subprocess.STDOUT, text=True, env=env)
            tail = r.stdout.strip().split('\n')
            print(p, 'exit', r.returncode, '|', tail[-1][:160])
            if r.returncode != 0:
                bad += 1
                show_next = 0
                for l in tail[:-1]:
                    if 'VIOLATION' in l or 'BROKEN' in l or ': C' in l or show_next > 0:
                        print('    ', l[:260])
                        show_next = 12 if 'does not parse' in l else show_next - 1
        return 1 if bad else 0
    finally:
        subprocess.run(['git', '-C', facts.REPO, 'worktree', 'remove', '--force', wt], stdout=subprocess.DEVNULL, stderr=subprocess.DEVNULL)
        shutil.rmtree(base, ignore_errors=True)
        subprocess.run(['git', '-C', facts.REPO, 'worktree', 'prune'])

if __name__ == '__main__':
    sys.exit(main())
