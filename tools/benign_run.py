#!/usr/bin/env python3
"""Runs the checks against the behaviour-preserving refactorings kept under /verif/benign/<group>/r<k>.diff (each applied alone to a scratch worktree of /repo).
Every check must exit 0 on every one of them: anything else is a false alarm (exit 1) or an unrecognised idiom (exit 2).

    tools/benign_run.py [-j N] [--props C07,C13] [A/r1 B/r3 ...]        default: all patches, all twenty properties
"""
import os, subprocess, sys, tempfile, shutil, re
from concurrent.futures import ThreadPoolExecutor
V = os.path.dirname(os.path.dirname(os.path.abspath(__file__)))
REPO = os.environ.get('ORV_REPO', '/repo')
ALL = ['C%02d' % i for i in range(1, 21)]

def main():
    args = sys.argv[1:]
    jobs, props = 6, ALL
    if '-j' in args:
        i = args.index('-j'); jobs = int(args[i + 1]); del args[i:i + 2]
    if '--props' in args:
        i = args.index('--props'); props = args[i + 1].split(','); del args[i:i + 2]
    sel = args
    patches = []
    for g in sorted(os.listdir(os.path.join(V, 'benign'))):
        d = os.path.join(V, 'benign', g)
        if not os.path.isdir(d):
            continue
        for f in sorted(os.listdir(d)):
            if f.endswith('.diff') and (not sel or '%s/%s' % (g, f[:-5]) in sel):
                patches.append(('%s/%s' % (g, f[:-5]), os.path.join(d, f)))
    base = tempfile.mkdtemp(prefix='orv-benign-')
    wts = []
    for i in range(min(jobs, len(patches)) or 1):
        wt = os.path.join(base, 'wt%d' % i)
        subprocess.run(['git', '-C', REPO, 'worktree', 'add', '-q', '--detach', wt, 'HEAD'], check=True)
        wts.append(wt)
    chunks = [patches[i::len(wts)] for i in range(len(wts))]
    def do(i):
        out = []
        wt = wts[i]
        for name, pf in chunks[i]:
            r = subprocess.run(['git', '-C', wt, 'apply', pf], stdout=subprocess.PIPE, stderr=subprocess.STDOUT, text=True)
            if r.returncode != 0:
                out.append((name, 'stale', [r.stdout[-200:]]))
                continue
            bad = []
            env = dict(os.environ, ORV_REPO=wt, ORV_NO_EVIDENCE='1', ORV_REPORTS=os.path.join(wt, '.orv-reports'))
            for p in props:
                r = subprocess.run([os.path.join(V, 'orcheck'), p, '--tier', 'quick'], stdout=subprocess.PIPE, stderr=subprocess.STDOUT, text=True, env=env)
                if r.returncode != 0:
                    lines = [l for l in r.stdout.split('\n') if re.search(r': C\d\d\.R\w+: |ANALYSIS-BROKEN', l) and 'KNOWN' not in l]
                    bad.append('%s(%d) %s' % (p, r.returncode, (lines[0][:260] if lines else '')))
            subprocess.run(['git', '-C', wt, 'checkout', '-q', '--', '.'])
            subprocess.run(['git', '-C', wt, 'clean', '-qfd', '-e', '.cache', '-e', '.orv-reports'])
            out.append((name, 'ok' if not bad else 'ALARM', bad))
        return out
    res = []
    try:
        with ThreadPoolExecutor(max_workers=len(wts)) as ex:
            for part in ex.map(do, range(len(wts))):
                res.extend(part)
    finally:
        for wt in wts:
            subprocess.run(['git', '-C', REPO, 'worktree', 'remove', '--force', wt], stdout=subprocess.DEVNULL, stderr=subprocess.DEVNULL)
        shutil.rmtree(base, ignore_errors=True)
        subprocess.run(['git', '-C', REPO, 'worktree', 'prune'])
    nbad = 0
    for name, st, bad in sorted(res):
        print('%-6s %-6s %s' % (name, st, ''))
        for b in bad:
            print('        ' + b)
        nbad += st != 'ok'
    print('%d patches, %d with alarms' % (len(res), nbad))
    return 1 if nbad else 0

if __name__ == '__main__':
    sys.exit(main())
