#!/bin/sh
# Builds /repo as pinned (no verification guard exists: no hooks are used) and runs the pinned 82-test suite.
set -e
cmake -G Ninja -S /repo -B /repo/_build -DCMAKE_BUILD_TYPE=RelWithDebInfo >/dev/null
cmake --build /repo/_build -j16 >/dev/null
ctest --test-dir /repo/_build -j8 --timeout 900 "$@"
