#!/bin/bash
# refac_eval.sh <group letter> : behaviour-preserving refactorings produced by sub-agents (/tmp/refac_<g>/OUT/r<k>.diff) are copied to /verif/benign/<g>/,
# applied one at a time to a scratch worktree of /repo, all twenty quick checks are run against it (every one must exit 0: anything else is a false alarm).
g=$1
src=/tmp/refac_$g/OUT
dst=/verif/benign/$g
mkdir -p $dst
[ -d $src ] && cp $src/r*.diff $src/r*.txt $dst/ 2>/dev/null
wt=$(mktemp -d /tmp/refwt_${g}_XXXX)
rmdir $wt
git -C /repo worktree add -q --detach $wt HEAD || exit 3
trap 'git -C /repo worktree remove --force '$wt' 2>/dev/null; rm -rf '$wt' /tmp/refrep_'$g'; git -C /repo worktree prune' EXIT
for p in $dst/r*.diff; do
  k=$(basename $p .diff)
  if ! git -C $wt apply $p 2>/dev/null; then echo "$g/$k: does not apply"; continue; fi
  bad=""
  for prop in ${PROPS:-C01 C02 C03 C04 C05 C06 C07 C08 C09 C10 C11 C12 C13 C14 C15 C16 C17 C18 C19 C20}; do
    out=$(cd /verif && ORV_REPO=$wt ORV_NO_EVIDENCE=1 ORV_REPORTS=/tmp/refrep_$g ./orcheck $prop --tier quick 2>&1); rc=$?
    if [ $rc -ne 0 ]; then
      bad="$bad $prop($rc)"
      echo "   [$g/$k] $prop exit $rc: $(echo "$out" | grep -E ': C[0-9]+\.R|ANALYSIS-BROKEN' | grep -v KNOWN | head -2 | cut -c1-330)"
    fi
  done
  echo "$g/$k: ${bad:- all checks silent}   -- $(head -c 140 $dst/$k.txt 2>/dev/null | tr '\n' ' ')"
  git -C $wt checkout -q -- . ; git -C $wt clean -qfd -e .cache >/dev/null 2>&1
done
