#!/bin/bash
# refac_eval.sh <group letter> : behaviour-preserving refactorings produced by sub-agents (/tmp/refac_<g>/OUT/r<k>.diff) are copied to /verif/benign/<g>/,
# applied one at a time to /repo, all twenty quick checks are run (every one must exit 0: anything else is a false alarm), /repo is restored.
g=$1
src=/tmp/refac_$g/OUT
dst=/verif/benign/$g
mkdir -p $dst
[ -d $src ] && cp $src/r*.diff $src/r*.txt $dst/ 2>/dev/null
cd /repo
for p in $dst/r*.diff; do
  k=$(basename $p .diff)
  if ! git diff --quiet; then echo "/repo is dirty"; exit 3; fi
  if ! git apply $p 2>/dev/null; then echo "$g/$k: does not apply"; continue; fi
  bad=""
  for prop in C01 C02 C03 C04 C05 C06 C07 C08 C09 C10 C11 C12 C13 C14 C15 C16 C17 C18 C19 C20; do
    out=$(cd /verif && ORV_NO_EVIDENCE=1 ORV_REPORTS=/tmp/refrep_$g ./orcheck $prop --tier quick 2>&1); rc=$?
    if [ $rc -ne 0 ]; then
      bad="$bad $prop($rc)"
      echo "   [$g/$k] $prop exit $rc: $(echo "$out" | grep -E ': C[0-9]+\.R|ANALYSIS-BROKEN' | grep -v KNOWN | head -2 | cut -c1-330)"
    fi
  done
  echo "$g/$k: ${bad:- all 20 checks silent}   -- $(head -c 160 $dst/$k.txt 2>/dev/null)"
  git checkout -- .
done
rm -rf /tmp/refrep_$g
