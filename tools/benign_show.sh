#!/bin/bash
# benign_show.sh <G/rK> <prop> : full report of one check on one benign patch
wt=$(mktemp -d /tmp/bshow_XXXX); rmdir $wt
git -C /repo worktree add -q --detach $wt HEAD && git -C $wt apply /verif/benign/$1.diff
cd /verif && ORV_REPO=$wt ORV_NO_EVIDENCE=1 ORV_REPORTS=$wt/.rep ./orcheck $2 2>&1 | grep -vE "^VIOLATION|^    expected" | head -${3:-30}
git -C /repo worktree remove --force $wt
