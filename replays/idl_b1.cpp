#include "sat_core.h"
#include "idl_theory.h"
#include "rdl_theory.h"
#include <iostream>
using namespace smt;
int main(){
  { sat_core sat; idl_theory idl(sat,5); var x=idl.new_var();
    bool ok = sat.new_clause({idl.new_geq(lin(x,rational::ONE), lin(rational(1)))}) && sat.new_clause({idl.new_leq(lin(x,rational::ONE), lin(rational(5)))}) && sat.propagate();
    auto b = idl.bounds(lin(x,-rational::ONE));
    std::cout<<"IDL 1<=x<=5: ok="<<ok<<" bounds(-x)=["<<b.first<<","<<b.second<<"] (expected [-5,-1])\n"; }
  { sat_core sat; rdl_theory rdl(sat,5); var x=rdl.new_var();
    bool ok = sat.new_clause({rdl.new_geq(lin(x,rational::ONE), lin(rational(1)))}) && sat.new_clause({rdl.new_leq(lin(x,rational::ONE), lin(rational(5)))}) && sat.propagate();
    auto b = rdl.bounds(lin(x,-rational::ONE));
    std::cout<<"RDL 1<=x<=5: ok="<<ok<<" bounds(-x)=["<<to_string(b.first)<<","<<to_string(b.second)<<"] (expected [-5,-1])\n"; }
}
