#include "sat_core.h"
#include "lra_theory.h"
#include <iostream>
using namespace smt;
int main(){
  sat_core sat; lra_theory lra(sat);
  var x = lra.new_var(), y = lra.new_var();
  var s = lra.new_var(lin(x, rational::ONE) + lin(y, rational::ONE));      // s = x + y (a tableau row)
  sat_core sat2(sat); lra_theory lra2(sat2, lra);                            // copies of the network
  bool ok = sat2.new_clause({lra2.new_geq(lin(x, rational::ONE), lin(rational(5)))}) && sat2.propagate();
  std::cout << "copy: ok=" << ok << " x=" << to_string(lra2.value(x)) << " y=" << to_string(lra2.value(y)) << " s=" << to_string(lra2.value(s)) << "   (s must equal x + y)\n";
  bool ok1 = sat.new_clause({lra.new_geq(lin(x, rational::ONE), lin(rational(5)))}) && sat.propagate();
  std::cout << "orig: ok=" << ok1 << " x=" << to_string(lra.value(x)) << " y=" << to_string(lra.value(y)) << " s=" << to_string(lra.value(s)) << "\n";
}
