#include "lin.h"
#include "inf_rational.h"
#include <iostream>
using namespace smt;
int main(){
  lin a(0, rational::ONE); a += rational(2);          // x0 + 2
  lin b(1, rational::ONE); b += rational(5);          // x1 + 5
  std::cout<<"(x0+2) + (x1+5) = "<<to_string(a + b)<<"   (expected x0 + x1 + 7)\n";
  lin c(rational(3)); c *= rational(4);
  std::cout<<"3 *= 4 -> "<<to_string(c)<<"   (expected 12)\n";
  inf_rational e(rational(1), 1);                      // 1 + eps
  std::cout<<"5 - (1+eps) = "<<to_string(rational(5) - e)<<"   (expected 4 - eps)\n";
  std::cout<<"-(x0+2) = "<<std::flush; std::cout<<to_string(-a)<<"  (expected -x0 - 2)\n";
}
