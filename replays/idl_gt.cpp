#include "sat_core.h"
#include "idl_theory.h"
#include "rdl_theory.h"
#include <iostream>
using namespace smt;
int main(){
  { sat_core sat; idl_theory idl(sat,5); var x=idl.new_var(), y=idl.new_var();
    // x - y > 3   (leading var is the smaller index x with +1)
    lit g = idl.new_gt(lin(x,rational::ONE)-lin(y,rational::ONE), lin(rational(3)));
    bool ok = sat.new_clause({g}) && sat.propagate();
    auto d = idl.distance(y,x); // bounds of x - y
    std::cout<<"IDL x-y>3: ok="<<ok<<" x-y in ["<<d.first<<","<<d.second<<"]  (expected lower bound 4)\n"; }
  { sat_core sat; rdl_theory rdl(sat,5); var x=rdl.new_var(), y=rdl.new_var();
    lit g = rdl.new_leq(lin(x,rational::ONE)-lin(y,rational::ONE), lin(rational(3)));
    bool ok = sat.new_clause({g}) && sat.propagate();
    auto b = rdl.bounds(lin(x,rational::ONE)-lin(y,rational::ONE));
    auto d = rdl.distance(y,x);
    std::cout<<"RDL x-y<=3: ok="<<ok<<" bounds(x-y)=["<<to_string(b.first)<<","<<to_string(b.second)<<"]  distance(y,x)=["<<to_string(d.first)<<","<<to_string(d.second)<<"] (expected upper bound 3)\n"; }
  { sat_core sat; idl_theory idl(sat,5); var x=idl.new_var(), y=idl.new_var();
    lit g = idl.new_leq(lin(x,rational::ONE)-lin(y,rational::ONE), lin(rational(3)));
    bool ok = sat.new_clause({g}) && sat.propagate();
    auto b = idl.bounds(lin(x,rational::ONE)-lin(y,rational::ONE));
    std::cout<<"IDL x-y<=3: ok="<<ok<<" bounds(x-y)=["<<b.first<<","<<b.second<<"] (expected upper bound 3)\n"; }
}
