#include "sat_core.h"
#include "idl_theory.h"
#include <iostream>
using namespace smt;
int main(){
  sat_core sat; idl_theory idl(sat,8);
  var a=idl.new_var(), b=idl.new_var();
  lit l1=idl.new_distance(a,b,5), l2=idl.new_distance(a,b,2), X=idl.new_distance(b,a,-3);   // b-a<=5, b-a<=2, b-a>=3
  bool ok=true;
  ok&=sat.assume(l1); ok&=sat.assume(l2);   // tighter constraint on the same pair: X is propagated false, explanation must name l2
  std::cout<<"ok="<<ok<<" value(X) under {l1,l2} = "<<sat.value(X)<<" (False="<<False<<")\n";
  while(!sat.root_level()) sat.pop();
  ok&=sat.assume(l1);                        // 3 <= b-a <= 5 is satisfiable
  std::cout<<"ok="<<ok<<" value(X) under {l1} alone = "<<sat.value(X)<<"   (must be Undefined="<<Undefined<<")\n";
}
