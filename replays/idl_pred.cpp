#include "sat_core.h"
#include "idl_theory.h"
#include <iostream>
using namespace smt;
int main(){
  sat_core sat; idl_theory idl(sat,8);
  var a=idl.new_var(), b=idl.new_var(), c=idl.new_var(), d=idl.new_var(), e=idl.new_var();
  lit l_ab=idl.new_distance(a,b,1), l_bc=idl.new_distance(b,c,1), l_ad=idl.new_distance(a,d,0), l_dc=idl.new_distance(d,c,0), l_ce=idl.new_distance(c,e,1), l_ea=idl.new_distance(e,a,-4);
  bool ok=true;
  ok&=sat.assume(l_ab); ok&=sat.assume(l_bc);           // a->b->c : dist[a][c]=2, pred[a][c]=b
  ok&=sat.assume(l_ad); ok&=sat.assume(l_dc);           // a->d->c : dist[a][c]=0, pred[a][c]=d  (second update of the same cell, deeper level)
  sat.pop(); sat.pop();                                  // back to {l_ab, l_bc}; pred[a][c] must be b again
  ok&=sat.assume(l_ce);                                  // a->b->c->e = 3  =>  l_ea (a - e <= -4) is propagated false; explanation must name l_ab, l_bc, l_ce
  std::cout<<"ok="<<ok<<" value(l_ea) under {l_ab,l_bc,l_ce} = "<<sat.value(l_ea)<<" (False="<<False<<")\n";
  while(!sat.root_level()) sat.pop();
  ok&=sat.assume(l_ce);                                  // alone: l_ea is still possible
  std::cout<<"ok="<<ok<<" value(l_ea) under {l_ce} alone = "<<sat.value(l_ea)<<"   (must be Undefined="<<Undefined<<")\n";
}
