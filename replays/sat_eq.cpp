#include "sat_core.h"
#include <iostream>
using namespace smt;
int main(){
  { // R1: eq(a,b) with a=b=false must make the equality literal true
    sat_core sat; lit a(sat.new_var()), b(sat.new_var());
    lit e = sat.new_eq(a,b);
    bool ok = sat.new_clause({!a}) && sat.new_clause({!b}) && sat.propagate();
    std::cout<<"R1 eq(a,b), a=b=false: ok="<<ok<<" value(eq)="<<sat.value(e)<<" (must be True="<<True<<"); a != b with a=b=false accepted: "<<(sat.new_clause({!e}) && sat.propagate())<<" (must be 0)\n"; }
  { // R3: left = !a with a false at root (left is True), right = b undecided: eq(left,b) == b
    sat_core sat; lit a(sat.new_var()), b(sat.new_var());
    bool ok = sat.new_clause({!a}) && sat.propagate();
    lit e = sat.new_eq(!a, b);
    std::cout<<"R3 eq(!a, b) with a false at root returns "<<to_string(e)<<", b is "<<to_string(b)<<" (must be b)\n"; }
  { // R2: at-most-one literal becomes exactly-one
    sat_core sat; lit x(sat.new_var()), y(sat.new_var());
    lit amo = sat.new_at_most_one({x,y});
    lit ex1 = sat.new_exct_one({x,y});
    bool ok = sat.new_clause({amo}) && sat.new_clause({!x}) && sat.new_clause({!y}) && sat.propagate();
    std::cout<<"R2 amo(x,y) asserted with x=y=false after exct_one(x,y) was merely requested: consistent="<<ok<<" (must be 1); amo="<<to_string(amo)<<" exct_one="<<to_string(ex1)<<"\n"; }
}
