# builds the libTooling fact extractor (offline; clang/llvm 14 are pre-installed)
LLVM_CXXFLAGS := $(shell llvm-config-14 --cxxflags)
LLVM_LIBDIR := $(shell llvm-config-14 --libdir)

bin/orfacts: tools/orfacts.cc
	mkdir -p bin
	clang++ $(LLVM_CXXFLAGS) -fno-rtti -O1 tools/orfacts.cc -o bin/orfacts $(LLVM_LIBDIR)/libclang-cpp.so.14 $(LLVM_LIBDIR)/libLLVM-14.so

clean:
	rm -rf bin .cache reports
