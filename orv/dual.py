"""Dual (lb/ub) and sibling (IDL/RDL, op/op=, #ifdef arms) comparison (DESIGN 3.G).

A function is summarised as a set of *normalised paths*: (guards, effects, end)
where guards are canonical conditions, effects the canonical statements of the
path as a sorted multiset (re-ordering independent statements is invisible;
locals that are pure definitions are substituted into their uses, the others are
alpha-renamed by order of declaration).  Loops are effects that carry the
normalised path set of their body.  Two functions agree under a rewrite map iff
their path sets are equal after rewriting.
"""
from .expr import LocalEnv, canon, show
from .facts import kids, short, walk
from .tables import enum_paths, value_literals, norm_literal, norm_term, _separates


def rewrite(t, fn):
    """bottom-up term rewriting with fn: term -> term (applied after children)."""
    if isinstance(t, tuple):
        t = tuple(rewrite(x, fn) for x in t)
    return fn(t)


class Summ:
    def __init__(self, fs, f, rw=None, drop_cond=None, keep_asserts=False, subst=True):
        self.fs, self.f = fs, f
        self.env = LocalEnv(f)
        self.rw = rw or (lambda t: t)
        self.drop_cond = drop_cond or (lambda t: None)
        self.alpha = {}
        self.subst = subst
        self.keep_asserts = keep_asserts
        # locals that get substituted: declared with init, never assigned, and not a container being filled
        self.mutated = self._mutated()

    def _mutated(self):
        """locals on which a non-const member function is called or that are assigned."""
        m = set(self.env.assigned)
        for n in self.f.nodes():
            if n.get('k') == 'CXXMemberCallExpr':
                me = n['c'][0]
                base = (me.get('c') or [None])[0] if me.get('k') == 'MemberExpr' else None
                if base is not None and base.get('k') == 'DeclRefExpr' and base.get('local'):
                    callee = self.fs.fns.get(n.get('callee', ''))
                    const = n.get('callee', '').endswith(' const')
                    if not const:
                        m.add(base.get('dloc'))
            if n.get('k') == 'CXXOperatorCallExpr' and n.get('op') in ('+=', '-=', '*=', '/=', '=', '++', '--', '[]'):
                c = n['c']
                if len(c) > 1 and c[1].get('k') == 'DeclRefExpr' and c[1].get('local') and not n.get('callee', '').endswith(' const'):
                    m.add(c[1].get('dloc'))
        # a local declared as a reference names an object: what is done through it is done to that object, the name itself never changes
        for d, n in self.env.decls.items():
            if d in m and d not in self.env.assigned and (n.get('t') or '').rstrip().endswith('&') and isinstance(n.get('init'), dict) and not n.get('bindings'):
                m.discard(d)
        return m

    def _substituted(self, loc):
        """will canon() replace uses of this local by its initialiser?"""
        if not self.subst:
            d = self.env.decls.get(loc)
            return bool(d is not None and self.env.is_alias(d))
        saved = self.env.assigned
        self.env.assigned = self.mutated
        try:
            return self.env.definition({'dloc': loc}) is not None
        finally:
            self.env.assigned = saved

    def _ensure_alpha(self):
        """alpha-rename parameters positionally and the locals / bindings / loop variables that survive in the summary (i.e. are not substituted by
        their initialiser) by order of declaration, so that two siblings (or duals) agree whatever their locals are called; roles given by the
        caller are kept.  alpha_scope(node) restarts the numbering for the locals declared inside one fragment (two arms of one function)."""
        if getattr(self, '_alpha_env', None) is self.env:
            return
        self._alpha_env = self.env
        ren = self.env.rename
        self._fixed = set(ren)
        for i, p in enumerate(self.f.get('params') or ()):
            if p.get('loc') and p['loc'] not in ren:
                ren[p['loc']] = '$p%d' % i
        self._number(self.f.nodes(), '$v')

    @staticmethod
    def _lc(loc):
        try:
            a = loc.rsplit(':', 2)
            return (a[0], int(a[1]), int(a[2]))
        except (ValueError, IndexError, AttributeError):
            return ('', 0, 0)

    def _number(self, nodes, prefix):
        """declaration order; a structured binding is named after its declaration and its position in it (whether or not it is ever used)."""
        ren = self.env.rename
        nodes = list(nodes)
        k = 0
        decomp = []         # (loc tuple, number, binding names)
        for n in nodes:
            if n.get('k') != 'VarDecl':
                continue
            d = n.get('loc')
            if not d or d in self._fixed:
                continue
            if n.get('bindings'):
                decomp.append((self._lc(d), k, list(n['bindings'])))
                ren[d] = '%s%d' % (prefix, k)
                k += 1
                continue
            if self._substituted(d):
                continue
            if prefix == '$v' and d in ren:
                continue
            ren[d] = '%s%d' % (prefix, k)
            k += 1
        decomp.sort()
        for n in nodes:
            if n.get('k') == 'DeclRefExpr' and n.get('refk') == 'Binding':
                d = n.get('dloc')
                if not d or d in self._fixed:
                    continue
                lc = self._lc(d)
                best = None
                for dl, num, names in decomp:
                    if dl[0] == lc[0] and dl[1:] <= lc[1:] and n.get('ref') in names:
                        best = (num, names.index(n.get('ref')))
                if best is not None:
                    ren[d] = '%s%d.%d' % (prefix, best[0], best[1])

    def alpha_scope(self, node):
        """number the locals declared inside `node` from zero (prefix $s): fragments of one function become comparable."""
        self._ensure_alpha()
        self._number(walk(node), '$s')

    def name_of(self, decl):
        """alpha name of a declared local (VarDecl node)."""
        self._ensure_alpha()
        return self.env.rename.get(decl.get('loc'), decl.get('name'))

    def term(self, n):
        self._ensure_alpha()
        env = self.env
        saved = env.assigned
        env.assigned = self.mutated
        try:
            t = canon(n, env, subst=self.subst)
        finally:
            env.assigned = saved
        t = self._alpha(t)
        return rewrite(rewrite(t, norm_term), self.rw)

    def _alpha(self, t):
        return t

    def cond(self, c):
        kind, node, pol = c
        if kind == 'if':
            t = self.term(node)
            t2 = self.drop_cond(t)
            if t2 is not None:
                t = t2
            # one spelling per atomic decision: no leading negation, `!=` as a failed `==`
            t, pol = norm_literal(t, pol)
            if t in ('TRUE', 'FALSE') and pol is False:
                t, pol = ('FALSE' if t == 'TRUE' else 'TRUE'), True
            return ('if', t, pol)
        def nm(x):
            return self.rw(x) if isinstance(x, str) else x
        labels = tuple(sorted((((l[0], l[1], nm(l[2])) + tuple(tuple((v, nm(n)) for v, n in ex) for ex in l[3:])) for l in pol), key=repr))
        return ('switch', self.term(node), labels)

    def stmt(self, s):
        k = s.get('k')
        if s.get('as') and not self.keep_asserts:
            return None
        if k == 'DeclStmt':
            out = []
            incs = []
            for d in s.get('c') or ():
                if d.get('k') != 'VarDecl':
                    continue
                if not self.subst and self.env.is_alias(d) and self.env.pure_init(d):
                    continue        # only a name for its initialiser: substituted into its uses by canon()
                if d['loc'] in self.mutated or not isinstance(d.get('init'), dict) or d.get('bindings') or not self.subst:
                    init = self.term(d['init']) if isinstance(d.get('init'), dict) else None
                    inc = None
                    if isinstance(init, tuple) and len(init) == 2 and init[0] == 'post++':
                        init, inc = init[1], ('++', init[1])        # `T v = x++;` is `T v = x; ++x;`
                    out.append(('decl', self.rw(self.name_of(d)), init) if not d.get('bindings') else ('bind', len(d['bindings']), init))
                    if inc is not None:
                        incs.append(inc)
                # pure, never-mutated locals are substituted into their uses
            if incs:
                return ([tuple(out)] if out else []) + incs
            return tuple(out) if out else None
        if k in ('CXXForRangeStmt',):
            sl = s['slots']
            return ('foreach', self.name_of(sl['var']) if sl['var'].get('name') else len(sl['var'].get('bindings') or ()), self.term(sl['range']), self.paths(sl['body'], loop=True))
        if k == 'ForStmt' and s['slots'].get('init') is not None and s['slots'].get('cond') is not None and s['slots'].get('body') is not None:
            # for (init; cond; inc) body  is  init; while (cond) { body; inc; }  when no `continue` skips to the increment
            from .normalize import _own_continue
            sl = s['slots']
            if sl.get('inc') is None or not _own_continue(sl['body']):
                b = sl['body']
                sts = list(b.get('c') or ()) if b.get('k') == 'CompoundStmt' else [b]
                nb = {'k': 'CompoundStmt', 'c': sts + ([sl['inc']] if sl.get('inc') is not None else []), 'loc': b.get('loc')}
                out = []
                e0 = self.stmt(sl['init']) if sl['init'].get('k') == 'DeclStmt' else self.term(sl['init'])
                if e0 is not None:
                    out.append(e0)
                out.append(('WhileStmt', None, self.term(sl['cond']), None, self.paths(nb, loop=True)))
                return out
        if k in ('ForStmt', 'WhileStmt', 'DoStmt'):
            sl = s['slots']
            return (k, self.term(sl.get('init')) if sl.get('init') and sl['init'].get('k') != 'DeclStmt' else (self.stmt(sl['init']) if sl.get('init') else None),
                    self.term(sl.get('cond')) if sl.get('cond') else None,
                    self.term(sl.get('inc')) if sl.get('inc') else None, self.paths(sl['body'], loop=True))
        if k == 'CXXTryStmt':
            c = s.get('c') or []
            return ('try', self.paths(c[0]), tuple((h.get('caught'), self.paths(h['c'][0])) for h in c[1:]))
        if k == 'ReturnStmt':
            c = s.get('c') or []
            return ('return', self.term(c[0]) if c else None)
        if k == 'CXXThrowExpr':
            return ('throw',)
        if k == 'NullStmt':
            return None
        if k == 'GotoStmt':
            return ('goto', s.get('label'))
        t = self.term(s)
        if isinstance(t, tuple) and len(t) == 2 and t[0] == 'post++':
            t = ('++', t[1])            # the value of `x++;` as a statement is not used
        return t

    def paths(self, body, loop=False):
        self._depth = getattr(self, '_depth', 0) + 1
        try:
            return self._paths(body, loop)
        finally:
            self._depth -= 1

    def _paths(self, body, loop=False):
        out = []
        for p in enum_paths(body):
            conds = []
            order = []          # the decisions and effects of the path in the order they happen (for the path-local numbering of the locals)
            skip = False
            for kind, c in p.seq:
                if kind == 's':
                    if _separates(c):
                        conds.append(('stmt',))
                    continue
                cc = self.cond(c)
                if cc[0] == 'if' and cc[1] == 'TRUE':
                    if cc[2] is False:
                        skip = True     # guard erased: its failing branch does not exist in the sibling
                    continue
                if cc[0] == 'if' and cc[1] == 'FALSE':
                    if cc[2] is True:
                        skip = True
                    continue
                conds.append(cc)
                order.append(cc)
            if skip:
                continue
            conds = value_literals(conds)
            if conds is None:
                continue            # every enumerator excluded: not a path
            effs = []
            for s in p.stmts:
                e = self.stmt(s)
                if e is None:
                    continue
                if isinstance(e, list):
                    effs.extend(e)          # a statement that is several effects (a `for` is its initialisation and a `while`)
                else:
                    effs.append(e)
            if self._depth == 1:
                # the locals that survive in the summary are numbered per path, by first appearance in the order things happen: declaring a local once
                # before a branch or once in every arm, in this or that order, is the same path
                m = {}
                for t in list(order) + list(effs):         # decisions in the order they are made, then effects in statement order
                    _collect_locals(t, m)
                conds = [_rename_locals(c, m) for c in conds]
                effs = [_rename_locals(e, m) for e in effs]
            # a local whose initialiser was a selection `c ? a : b` is, on this path, the arm that the path selected
            sub = {}
            for s in p.stmts:
                if s.get('k') == 'DeclStmt':
                    for d in s.get('c') or ():
                        if d.get('k') == 'VarDecl' and d.get('_split_from') is not None and isinstance(d.get('init'), dict):
                            sub[self.term(d['_split_from'])] = self.term(d['init'])
            if sub:
                conds = [_subst_terms(c, sub) for c in conds]
                effs = [_subst_terms(e, sub) for e in effs]
            if not effs and (p.end == 'fall' or (loop and p.end == 'continue')):
                conds = []          # doing nothing needs no reason: the no-op paths are the complement of the others, however the tests that lead to them are nested
            # the decisions of a path are tests without effects: which of them is made first does not change what the path is
            out.append((tuple(sorted(conds, key=repr)), tuple(sorted(effs, key=repr)), 'fall' if (loop and p.end == 'continue') else p.end))      # `continue` = reaching the end of the loop body
        return PathSet(sorted(set(out), key=repr))

    def summary(self):
        return self.paths(self.f.body)


def _subst_terms(t, sub):
    if isinstance(t, tuple):
        if t in sub:
            return sub[t]
        r = tuple(_subst_terms(x, sub) for x in t)
        return PathSet(r) if isinstance(t, PathSet) else r
    return sub.get(t, t) if isinstance(t, str) else t


class PathSet(tuple):
    """a set of normalised paths (sorted tuple)"""


import re as _re
_LOCAL = _re.compile(r'^(\$[vs]\d+)((?:\.\d+)?)$')


def _collect_locals(t, m):
    if isinstance(t, str):
        mo = _LOCAL.match(t)
        if mo and mo.group(1) not in m:
            m[mo.group(1)] = '$a%d' % len(m)
    elif isinstance(t, tuple):
        for x in t:
            _collect_locals(x, m)


def _rename_locals(t, m):
    if isinstance(t, str):
        mo = _LOCAL.match(t)
        if mo and mo.group(1) in m:
            return m[mo.group(1)] + mo.group(2)
        return t
    if isinstance(t, PathSet):
        return PathSet(sorted((_rename_locals(tuple(x), m) for x in t), key=repr))
    if isinstance(t, tuple):
        r = tuple(_rename_locals(x, m) for x in t)
        return r
    return t


def diff_summaries(a, b):
    """(only_in_a, only_in_b) path lists."""
    sa, sb = set(a), set(b)
    return sorted(sa - sb, key=repr), sorted(sb - sa, key=repr)


def show_path(p, maxlen=600):
    conds, effs, end = p
    s = 'when [' + '; '.join(_show_cond(c) for c in conds) + '] do {' + '; '.join(_show_eff(e) for e in effs) + '} -> ' + str(end)
    return s if len(s) <= maxlen else s[:maxlen] + ' ...'


def _show_cond(c):
    if c[0] == 'if':
        return ('' if c[2] else 'not ') + show(c[1])
    return 'switch %s = %s' % (show(c[1]), ','.join(str(l[2] if l[2] is not None else l[1]) if l[0] == 'case' else l[0] for l in c[2]))


def _show_eff(e):
    if isinstance(e, tuple) and e and e[0] in ('foreach', 'ForStmt', 'WhileStmt', 'DoStmt', 'try'):
        return '%s(...)' % e[0]
    return show(e)


def first_difference(only_a, only_b):
    """the pair of paths (one of each side) sharing the longest guard prefix - the most useful thing to print."""
    best = None
    for pa in only_a:
        for pb in only_b:
            n = 0
            for x, y in zip(pa[0], pb[0]):
                if x != y:
                    break
                n += 1
            score = (n, -abs(len(pa[1]) - len(pb[1])))
            if best is None or score > best[0]:
                best = (score, pa, pb)
    if best is None:
        return (only_a[0] if only_a else None, only_b[0] if only_b else None)
    return best[1], best[2]


def eff_diff(pa, pb):
    """effects present in one path and not in the other."""
    ea, eb = list(pa[1]), list(pb[1])
    oa = [e for e in ea if e not in eb]
    ob = [e for e in eb if e not in ea]
    ca = [c for c in pa[0] if c not in pb[0]]
    cb = [c for c in pb[0] if c not in pa[0]]
    return ca, oa, cb, ob


def deep_diff(sa, sb, depth=0):
    """human-readable differences between two summaries, descending into loop bodies."""
    oa, ob = diff_summaries(sa, sb)
    if not oa and not ob:
        return []
    pa, pb = first_difference(oa, ob)
    if pa is None or pb is None:
        return ['only in one: ' + show_path(pa or pb)]
    ca, ea, cb, eb = eff_diff(pa, pb)
    out = []
    loops_a = [e for e in ea if isinstance(e, tuple) and e and e[0] in ('foreach', 'ForStmt', 'WhileStmt', 'DoStmt')]
    loops_b = [e for e in eb if isinstance(e, tuple) and e and e[0] in ('foreach', 'ForStmt', 'WhileStmt', 'DoStmt')]
    if ca or cb:
        out.append('guards differ: %s  vs  %s' % ([_show_cond(c) for c in ca], [_show_cond(c) for c in cb]))
    plain_a = [e for e in ea if e not in loops_a]
    plain_b = [e for e in eb if e not in loops_b]
    if plain_a or plain_b:
        out.append('effects differ: %s  vs  %s' % ([_show_eff(e)[:400] for e in plain_a], [_show_eff(e)[:400] for e in plain_b]))
    if len(loops_a) == len(loops_b) and depth < 6:
        for la, lb in zip(loops_a, loops_b):
            if la[:-1] != lb[:-1]:
                out.append('loop headers differ: %s  vs  %s' % (show(la[:-1]), show(lb[:-1])))
            out.extend(['in loop %s: %s' % (show(la[1]) if la[0] == 'foreach' else la[0], d) for d in deep_diff(la[-1], lb[-1], depth + 1)])
    elif loops_a or loops_b:
        out.append('loops differ in number: %d vs %d' % (len(loops_a), len(loops_b)))
    return out


def snapshot_flags(f):
    """bool locals that record a test BEFORE the state it reads is changed and are branched on later (`const bool neg = c < 0; expr = expr / c; ... if (neg)`).
    A path comparison cannot tell at which time such a condition was evaluated: the idiom is outside what the sibling / dual comparison decides."""
    from .expr import LocalEnv
    from .tables import recorded_flags
    env = LocalEnv(f)
    out = []
    handled = recorded_flags(f.body) if f.body else {}      # flags that only record a decision are resolved by the path enumeration itself
    for n in f.nodes():
        if n.get('k') != 'IfStmt':
            continue
        c = n['slots'].get('cond')
        while isinstance(c, dict) and c.get('k') == 'UnaryOperator' and c.get('op') == '!':
            c = c['c'][0]
        if isinstance(c, dict) and c.get('k') == 'DeclRefExpr' and c.get('local') and c.get('refk') == 'Var':
            d = env.decls.get(c.get('dloc'))
            if d is not None and d.get('loc') not in handled and (d.get('t') or '').replace('const ', '') == 'bool' and isinstance(d.get('init'), dict) and not env.is_alias(d):
                out.append(d.get('name'))
    return out

