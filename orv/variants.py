"""Catalogue of seeded one-site edits (DESIGN 5 / 9.2): each must still type-check and must be reported by the named rule.
old must occur exactly once in the file unless 'nth' selects an occurrence."""

DL = 'smt/arith/dl/idl_theory.cpp'
RDL = 'smt/arith/dl/rdl_theory.cpp'
LRA = 'smt/arith/lra/lra_theory.cpp'
SAT = 'smt/sat_core.cpp'
OVT = 'smt/ov/ov_theory.cpp'
LEX = 'riddle/riddle_lexer.cpp'


def V(name, rule, file, old, new, nth=None):
    d = {'name': name, 'rule': rule, 'file': file, 'old': old, 'new': new}
    if nth:
        d['nth'] = nth
    return d


VARIANTS = {
    'C03': [
        V('expand: exclusivity loop dropped', 'C03.R1', 'solver/flaw.cpp', "            if (exclusive) // we make the resolvers mutually exclusive..\n                for (size_t i = 0; i < resolvers.size(); ++i)\n                    for (size_t j = i + 1; j < resolvers.size(); ++j)\n                        if (!slv.get_sat_core().new_clause({!resolvers[i]->rho, !resolvers[j]->rho}))\n                            throw unsolvable_exception();\n", ""),
        V('expand: flaw without resolvers not forbidden', 'C03.R1', 'solver/flaw.cpp', "            if (!slv.get_sat_core().new_clause({!phi}))\n                throw unsolvable_exception();", "            {}"),
        V('add_resolver: resolver does not imply the flaw', 'C03.R1', 'solver/flaw.cpp', "        if (!slv.get_sat_core().new_clause({!r.rho, phi}))\n            throw unsolvable_exception();\n        resolvers.push_back(&r);", "        resolvers.push_back(&r);"),
        V('atom_flaw not exclusive', 'C03.R1', 'solver/flaws/atom_flaw.cpp', "flaw(slv, std::move(causes), true), atm(atm), is_fact(is_fact)", "flaw(slv, std::move(causes), false), atm(atm), is_fact(is_fact)"),
        V('unifier without the equality literal', 'C03.R2', 'solver/flaws/atom_flaw.cpp', "{lit(atm.get_sigma(), false), lit(t_atm.get_sigma()), eq_lit}", "{lit(atm.get_sigma(), false), lit(t_atm.get_sigma()), lit(t_atm.get_sigma())}"),
        V('unification with causally later atoms allowed', 'C03.R2', 'solver/flaws/atom_flaw.cpp', "                    get_solver().get_idl_theory().distance(get_position(), t_flaw.get_position()).first > 0 || // unifying with the target atom would introduce cyclic causality..\n", ""),
        V('unifier not linked to its target', 'C03.R2', 'solver/flaws/atom_flaw.cpp', "                get_solver().new_causal_link(t_flaw, *u_res);\n", ""),
        V('causal link: ordering clause dropped', 'C03.R2', 'solver/solver.cpp', "        [[maybe_unused]] bool new_dist = sat->new_clause({!r.rho, get_idl_theory().new_distance(r.effect.position, f.position, 0)});\n        assert(new_dist);\n", ""),
        V('unify_atom::apply: unification literals not enforced', 'C03.R2', 'solver/flaws/atom_flaw.cpp', "        for (const auto &v : unif_lits)\n            if (!get_solver().get_sat_core().new_clause({!get_rho(), v}))\n                throw unsolvable_exception();\n", ""),
        V('activate_goal does not apply the rule', 'C03.R3', 'solver/flaws/atom_flaw.cpp', "        static_cast<predicate &>(atm.get_type()).apply_rule(atm);\n", ""),
        V('apply_rule skips the super-rules', 'C03.R3', 'core/predicate.cpp', "        for (const auto &sp : supertypes)\n            static_cast<predicate *>(sp)->apply_rule(a);\n", ""),
        V('restore_ni only on the normal path', 'C03.R3', 'solver/solver.cpp', "            r.apply();\n        }", "            r.apply();\n            restore_ni();\n        }"),
        V('flaw::init: non-strict ordering', 'C03.R4', 'solver/flaw.cpp', "new_distance(c->effect.position, position, -1)", "new_distance(c->effect.position, position, 0)"),
        V('flaw::init: phi ignores the last cause', 'C03.R4', 'solver/flaw.cpp', "            cs.push_back(c->rho);", "            if (c != causes.back())\n                cs.push_back(c->rho);"),
        V('equates skips non-synthetic check only', 'C03.R5', 'core/atom.cpp', "                    if (!f->is_synthetic())\n                        if (!get(f_name)->equates(*i.get(f_name)))\n                            return false;", "                    if (f->is_synthetic())\n                        if (!get(f_name)->equates(*i.get(f_name)))\n                            return false;"),
        V('new_eq does not visit supertypes', 'C03.R5', 'core/atom.cpp', "                for (const auto &st : q.front()->get_supertypes())\n                    q.push(st);\n                q.pop();\n            }\n\n            switch (eqs.size())", "                q.pop();\n            }\n\n            switch (eqs.size())"),
        V('propagate dispatches on the variable again', 'C03.R6', 'solver/solver.cpp', "                switch (sat->value(r->rho))", "                switch (sat->value(at_rhos_p->first))"),
    ],
    'C07': [
        V('propagate: satisfied clause loses its watch', 'C07.R1', 'smt/clause.cpp', "        if (value(lits[0]) == True)\n        {\n            watches(p).push_back(this);\n            return true;\n        }", "        if (value(lits[0]) == True)\n            return true;"),
        V('propagate: new watch registered under the wrong literal', 'C07.R1', 'smt/clause.cpp', "                watches(!lits[1]).push_back(this);", "                watches(!lits[0]).push_back(this);"),
        V('propagate: search starts at position 2', 'C07.R1', 'smt/clause.cpp', "        for (size_t i = 1; i < lits.size(); ++i)\n            if (value(lits[i]) != False)", "        for (size_t i = 2; i < lits.size(); ++i)\n            if (value(lits[i]) != False)"),
        V('sat propagate: unvisited watchers dropped on conflict', 'C07.R1', SAT, "                    for (size_t j = i + 1; j < tmp.size(); ++j)\n                        watches[index(p)].push_back(tmp[j]);\n", ""),
        V('record: learnt clause not stored', 'C07.R2', SAT, "            assert(e);\n            constrs.push_back(c);", "            assert(e);"),
        V('record: asserting literal without reason', 'C07.R2', SAT, "[[maybe_unused]] bool e = enqueue(l0, c);", "[[maybe_unused]] bool e = enqueue(l0);"),
        V('new_clause: only one watch', 'C07.R2', 'smt/clause.cpp', "        c->watches(!l1).push_back(c);\n", ""),
        V('propagate: theory conflict at root ignored', 'C07.R3', SAT, "                        if (root_level())\n                        {\n                            th->cnfl.clear();\n                            return false;\n                        }\n\n                        // we analyze the theory's conflict, create a no-good from the analysis and backjump..\n                        th->analyze_and_backjump();\n                        goto main_loop;\n                    }\n                if (root_level()) // since", "                        if (root_level())\n                        {\n                            th->cnfl.clear();\n                            return true;\n                        }\n\n                        // we analyze the theory's conflict, create a no-good from the analysis and backjump..\n                        th->analyze_and_backjump();\n                        goto main_loop;\n                    }\n                if (root_level()) // since"),
        V('next: first decision missing from the no-good', 'C07.R3', SAT, "        for (const auto &l : decisions)\n            no_good.push_back(!l);", "        for (const auto &l : decisions)\n            if (l != decisions.front())\n                no_good.push_back(!l);"),
        V('check: level not restored on success', 'C07.R3', SAT, "        assert(c_rl + lits.size() == decision_level());\n        while (decision_level() > c_rl)\n            pop();\n        return true;", "        assert(c_rl + lits.size() == decision_level());\n        return true;"),
        V('new_clause: tautology test dropped', 'C07.R4', SAT, "            if (value(*it) == True || *it == !p)\n                return true; // the clause is already satisfied or represents a tautology..", "            if (value(*it) == True)\n                return true; // the clause is already satisfied or represents a tautology.."),
        V('new_clause: empty clause accepted', 'C07.R4', SAT, "        case 0: // the clause is unsatisfable..\n            return false;", "        case 0: // the clause is unsatisfable..\n            return true;"),
        V('get_reason keeps the propagated literal', 'C07.R5', 'smt/clause.cpp', "for (size_t i = is_undefined(p) ? 0 : 1; i < lits.size(); ++i)", "for (size_t i = 0; i < lits.size(); ++i)"),
        V('simplify drops undefined literals', 'C07.R5', 'smt/clause.cpp', "            case Undefined:\n                lits[j++] = lits[i];\n                break;", "            case Undefined:\n                break;"),
        V('enqueue: level not recorded', 'C07.R5', SAT, "            level[variable(p)] = decision_level();\n", ""),
        V('analyze: lower-level literal added un-negated', 'C07.R6', SAT, "out_learnt.push_back(!q); // this literal", "out_learnt.push_back(q); // this literal"),
        V('analyze: back-jump level not raised', 'C07.R6', SAT, "                        out_btlevel = std::max(out_btlevel, level[variable(q)]);\n", ""),
    ],
    'C08': [
        V('set_dist: save after the store', 'C08.R2', DL,
          "            layers.back().old_dists.insert({{from, to}, _dists[from][to]});\n        // we update the disterence..\n        _dists[from][to] = dist;",
          "            {}\n        _dists[from][to] = dist;\n        if (!layers.empty() && !layers.back().old_dists.count({from, to}))\n            layers.back().old_dists.insert({{from, to}, _dists[from][to]});"),
        V('set_pred: save the new value', 'C08.R2', RDL, "layers.back().old_preds.insert({{from, to}, _preds[from][to]});", "layers.back().old_preds.insert({{from, to}, pred});"),
        V('assert_lower: save under the wrong key', 'C08.R2', LRA, "layers.back().insert({lb_index(x_i), {lb(x_i), c_bounds[lb_index(x_i)].reason}});", "layers.back().insert({ub_index(x_i), {lb(x_i), c_bounds[lb_index(x_i)].reason}});"),
        V('assert_upper: overwrite the saved value', 'C08.R3', LRA, "            if (!layers.empty() && !layers.back().count(ub_index(x_i)))\n                layers.back().insert({ub_index(x_i), {ub(x_i), c_bounds[ub_index(x_i)].reason}});",
          "            if (!layers.empty())\n                layers.back()[ub_index(x_i)] = {ub(x_i), c_bounds[ub_index(x_i)].reason};"),
        V('idl pop: restore only distances', 'C08.R4', DL, "        for (const auto &[vars, pred] : layers.back().old_preds)\n            _preds[vars.first][vars.second] = pred;\n", ""),
        V('rdl pop: restore constraint with emplace', 'C08.R4', RDL, "dist_constr[vars] = dist;", "dist_constr.emplace(vars, dist);"),
        V('lra push: two layers', 'C08.R5', LRA, "void lra_theory::push() noexcept { layers.push_back(std::unordered_map<size_t, bound>()); }", "void lra_theory::push() noexcept { layers.push_back(std::unordered_map<size_t, bound>()); layers.push_back(std::unordered_map<size_t, bound>()); }"),
        V('pop_one: reason left set', 'C08.R5', SAT, "        reason[v] = nullptr;\n        trail.pop_back();", "        trail.pop_back();"),
        V('sat pop: theories not popped at root', 'C08.R5', SAT, "        for (const auto &th : theories)\n            th->pop();", "        if (!root_level())\n            for (const auto &th : theories)\n                th->pop();"),
        V('new writer of the bounds', 'C08.R1', LRA, "    bool lra_theory::check() noexcept\n    {", "    bool lra_theory::check() noexcept\n    {\n        if (c_bounds.size() > 2 && lb(0) > ub(0))\n            c_bounds[lb_index(0)].value = ub(0);"),
        V('solver::propagate: solved flaw not logged', 'C08.R6', 'solver/solver.cpp', "trail.back().solved_flaws.insert(&r->effect);", "{}"),
        V('solver::propagate: activated flaw not logged', 'C08.R6', 'solver/solver.cpp', "                    if (!root_level())\n                        trail.back().new_flaws.insert(f);\n", ""),
    ],
    'C09': [
        V('assert_upper only: non-strict conflict test', 'C09.R1', LRA, "        else if (val < lb(x_i))\n        {\n            cnfl.push_back(!p);", "        else if (val <= lb(x_i))\n        {\n            cnfl.push_back(!p);"),
        V('check: basic variable reason dropped in the upper arm', 'C09.R1', LRA, "                    cnfl.push_back(!c_bounds[lra_theory::ub_index(x_i)].reason);\n", ""),
        V('check: lower arm blames the wrong bound', 'C09.R2', LRA, "                        if (is_positive(c))\n                            cnfl.push_back(!c_bounds[lra_theory::ub_index(v)].reason);", "                        if (is_positive(c))\n                            cnfl.push_back(!c_bounds[lra_theory::lb_index(v)].reason);"),
        V('propagate: negated geq without -epsilon', 'C09.R3', LRA, "assert_upper(a->x, a->v - inf_rational(rational::ZERO, rational::ONE), p)", "assert_upper(a->x, a->v, p)"),
        V('propagate: asserted leq sets the lower bound', 'C09.R3', LRA, "if (!((a->o == op::leq) ? assert_upper(a->x, a->v, p) : assert_lower(a->x, a->v, p)))", "if (!((a->o == op::leq) ? assert_lower(a->x, a->v, p) : assert_upper(a->x, a->v, p)))"),
        V('pivot: leaving row stays in the watch lists', 'C09.R4', LRA, "        for ([[maybe_unused]] const auto &[v, c] : expr.vars)\n            t_watches[v].erase(ex_row);\n", ""),
        V('pivot: sign of the division', 'C09.R4', LRA, "expr /= -cf;", "expr /= cf;"),
        V('pivot_and_update: leaving row updated twice', 'C09.R4', LRA, "            if (c->x != x_i)\n            { // x_k += a_kj * theta..", "            if (true)\n            { // x_k += a_kj * theta.."),
        V('assertion::propagate_ub only: polarity', 'C09.R1', 'smt/arith/lra/lra_constraint.cpp', "                    th.record({b, !th.c_bounds[lra_theory::ub_index(x_i)].reason});", "                    th.record({!b, !th.c_bounds[lra_theory::ub_index(x_i)].reason});"),
        V('row::propagate_ub only: bound of the wrong side', 'C09.R1', 'smt/arith/lra/lra_constraint.cpp', "                        ub += c * th.ub(c_v);\n                        th.cnfl.push_back(!th.c_bounds[lra_theory::ub_index(c_v)].reason);", "                        ub += c * th.ub(c_v);\n                        th.cnfl.push_back(!th.c_bounds[lra_theory::lb_index(c_v)].reason);", nth=1),
        V('new writer of the values', 'C09.R4', LRA, "    void lra_theory::pop() noexcept\n    {", "    void lra_theory::pop() noexcept\n    {\n        if (!vals.empty())\n            vals[0] = inf_rational(rational::ZERO);"),
    ],
    'C10': [
        V('idl negated edge without -1', 'C10.R2', DL, "propagate(dist->to, dist->from, -dist->dist - 1);", "propagate(dist->to, dist->from, -dist->dist);"),
        V('rdl conflict test non-strict', 'C10.R2', RDL, "if (_dists[dist->to][dist->from] < -dist->dist)", "if (_dists[dist->to][dist->from] <= -dist->dist)"),
        V('idl only: walk through the wrong predecessor row', 'C10.R4', DL, "c_to = _preds[dist->to][c_to];", "c_to = _preds[dist->from][c_to];"),
        V('rdl install with emplace', 'C10.R3', RDL, "dist_constr[from_to] = dist;", "dist_constr.emplace(from_to, dist);"),
        V('idl redundant explanation pushes negated literal', 'C10.R6', DL, "cnfl.emplace_back(c_dist->b);", "cnfl.emplace_back(!c_dist->b);"),
        V('idl walk polarity', 'C10.R4', DL, "                        if (sat->value(c_d->second->b) == True)\n                            cnfl.emplace_back(!c_d->second->b);", "                        if (sat->value(c_d->second->b) == True)\n                            cnfl.emplace_back(c_d->second->b);", nth=1),
        V('rdl only: shortcut comparison in propagate(from,to)', 'C10.R1', RDL, "if (i != j && _dists[i][to] + _dists[to][j] < _dists[i][j])", "if (i != j && _dists[i][to] + _dists[to][j] <= _dists[i][j])"),
        V('idl resize forgets the diagonal', 'C10.R5', DL, "        for (size_t i = c_size; i < size; ++i)\n            _dists[i][i] = 0;\n\n        for (size_t i = 0; i < c_size; ++i)", "        for (size_t i = 0; i < c_size; ++i)"),
    ],
    'C11': [
        V('new_lt with +epsilon', 'C11.R2', LRA, "const inf_rational c_right = inf_rational(-expr.known_term, -1);", "const inf_rational c_right = inf_rational(-expr.known_term, 1);"),
        V('new_geq false-test non strict', 'C11.R2', LRA, "        else if (ub(expr) < c_right)\n            return FALSE_lit; // the constraint is unsatisfable..\n\n        // we create a slack variable from the current expression (notice that the variable can be reused)..\n        const var slack = new_var(expr);\n        if (lb(slack) >= c_right)",
          "        else if (ub(expr) <= c_right)\n            return FALSE_lit; // the constraint is unsatisfable..\n\n        // we create a slack variable from the current expression (notice that the variable can be reused)..\n        const var slack = new_var(expr);\n        if (lb(slack) >= c_right)", nth=1),
        V('new_gt: geq key with leq kind', 'C11.R2', LRA, "v_asrts.emplace(ctr, new assertion(*this, op::geq, ctr_lit, slack, c_right));", "v_asrts.emplace(ctr, new assertion(*this, op::leq, ctr_lit, slack, c_right));", nth=2),
        V('new_eq as conj(geq, geq)', 'C11.R4', 'smt/arith/lra/lra_theory.h', "return sat->new_conj({new_geq(left, right), new_leq(left, right)});", "return sat->new_conj({new_geq(left, right), new_geq(left, right)});"),
        V('new_leq only: basic variable substituted unscaled', 'C11.R1', LRA, "expr += at_v->second->l * c;", "expr += at_v->second->l;", nth=2),
        V('ub(lin) ignores the sign', 'C11.R5', 'smt/arith/lra/lra_theory.h', "b += (is_positive(c) ? ub(v) : lb(v)) * c;", "b += ub(v) * c;", nth=1),
        V('core::geq routed to new_gt', 'C11.R6', 'core/core.cpp', "return new bool_item(*this, lra_th.new_geq(left->l, right->l));", "return new bool_item(*this, lra_th.new_gt(left->l, right->l));"),
    ],
    'C12': [
        V('idl new_leq swaps from/to', 'C12.R1', DL, "return new_distance(v0, v1, expr.known_term.numerator());", "return new_distance(v1, v0, expr.known_term.numerator());", nth=1),
        V('rdl new_lt loses strictness', 'C12.R1', RDL, "return new_distance(v0, v1, inf_rational(expr.known_term, -1));", "return new_distance(v0, v1, inf_rational(expr.known_term));", nth=1),
        V('idl new_geq flips the constant', 'C12.R1', DL, "return new_distance(0, expr.vars.cbegin()->first, -expr.known_term.numerator());", "return new_distance(0, expr.vars.cbegin()->first, expr.known_term.numerator());", nth=2),
        V('rdl new_gt accepts x + y', 'C12.R1', RDL, "                if (c1 != -rational::ONE)\n                    throw std::invalid_argument(\"not a valid real difference logic constraint..\");\n                return new_distance(v1, v0, -inf_rational(expr.known_term, 1));",
          "                return new_distance(v1, v0, -inf_rational(expr.known_term, 1));", nth=2),
        V('rdl only: distance(var,var) swapped', 'C12.R2', 'smt/arith/dl/rdl_theory.h', "return std::make_pair(-_dists[to][from], _dists[from][to]);", "return std::make_pair(-_dists[from][to], _dists[to][from]);"),
        V('idl bounds without the sign test', 'C12.R3', DL, "            if (is_positive(it->second))\n            {\n                c_lb += lb(it->first)", "            if (true)\n            {\n                c_lb += lb(it->first)"),
    ],
    'C13': [
        V('conj: no clause for the last direction', 'C13.R1', SAT, "            lits.push_back(ctr);\n            for (const auto &l : ls)\n            {\n                if (!new_clause({!ctr, l}))\n                    return FALSE_lit;\n                lits.push_back(!l);\n            }\n            if (!new_clause(std::move(lits)))\n                return FALSE_lit;",
          "            lits.push_back(ctr);\n            for (const auto &l : ls)\n            {\n                if (!new_clause({!ctr, l}))\n                    return FALSE_lit;\n                lits.push_back(!l);\n            }"),
        V('disj: polarity of the per-literal clause', 'C13.R1', SAT, "if (!new_clause({!l, ctr}))", "if (!new_clause({l, ctr}))"),
        V('amo pairwise: j starts at i', 'C13.R1', SAT, "for (size_t j = i + 1; j < ls.size(); ++j)", "for (size_t j = i; j < ls.size(); ++j)"),
        V('amo product: column index', 'C13.R1', SAT, "!new_clause({!ls[k], v[j], !ctr})", "!new_clause({!ls[k], v[i], !ctr})"),
        V('eq: shortcut (T,F) returns true', 'C13.R3', SAT, "            case False:\n                return FALSE_lit; // the variables cannot assume the same value..\n            case Undefined:\n                return right;", "            case False:\n                return TRUE_lit; // the variables cannot assume the same value..\n            case Undefined:\n                return right;"),
        V('conj: kept literal not in the key', 'C13.R4', SAT, "                p = *it;\n                s_expr += to_string(p);\n                ls[j++] = p;\n            }\n        ls.resize(j);\n\n        if (ls.empty()) // an empty conjunction", "                p = *it;\n                ls[j++] = p;\n            }\n        ls.resize(j);\n\n        if (ls.empty()) // an empty conjunction"),
        V('disj reuses the conj tag', 'C13.R4', SAT, 'std::string s_expr = "|";', 'std::string s_expr = "&";'),
        V('exct_one shares the amo literal again', 'C13.R2', SAT, "            const auto ctr = lit(new_var());\n            if (!new_clause({!ctr, new_at_most_one(ls)})) // the at-most-one literal is shared through the cache: it must not get the at-least-one clause..\n                return FALSE_lit;", "            const auto ctr = new_at_most_one(ls);"),
        V('core::disj builds a conjunction', 'C13.R5', 'core/core.cpp', "return new bool_item(*this, sat_cr.new_disj(std::move(lits)));", "return new bool_item(*this, sat_cr.new_conj(std::move(lits)));"),
    ],
    'C14': [
        V('new_eq: reverse implication dropped', 'C14.R2', OVT, "                nc = sat->new_clause({eq_lit, !assigns[left].at(v), !assigns[right].at(v)});\n                assert(nc);\n", ""),
        V('new_eq: values outside the intersection of the right side kept', 'C14.R2', OVT, "            for (const auto &[val, l] : assigns[right])\n                if (!intersection.count(val))\n                {\n                    nc = sat->new_clause({!eq_lit, !l});\n                    assert(nc);\n                }\n", ""),
        V('new_var: exactly-one also when waived', 'C14.R1', OVT, "            if (enforce_exct_one)\n            {", "            if (true)\n            {"),
        V('value(): keeps only true values', 'C14.R3', OVT, "if (sat->value(l) != False)", "if (sat->value(l) == True)"),
        V('second caller waives the exactly-one', 'C14.R4', 'core/core.cpp', "return new var_item(*this, tp, ov_th.new_var(std::vector<var_value *>(allowed_vals.cbegin(), allowed_vals.cend())));", "return new var_item(*this, tp, ov_th.new_var(std::vector<var_value *>(allowed_vals.cbegin(), allowed_vals.cend()), false));"),
        V('var_flaw not exclusive', 'C14.R4', 'solver/flaws/var_flaw.cpp', "flaw(slv, std::move(causes), true), v_itm(v_itm)", "flaw(slv, std::move(causes), false), v_itm(v_itm)"),
    ],
    'C15': [
        V('lin - lin adds the constant', 'C15.R1', 'smt/arith/lin.cpp', "        res.known_term -= right.known_term;", "        res.known_term += right.known_term;"),
        V('lin -= lin: new term keeps its sign', 'C15.R1', 'smt/arith/lin.cpp', "                vars.emplace(v, -c);", "                vars.emplace(v, c);"),
        V('lin / rational forgets the constant', 'C15.R1', 'smt/arith/lin.cpp', "            c /= right;\n        res.known_term /= right;\n        return res;", "            c /= right;\n        return res;"),
        V('rational * lin scales by the wrong thing', 'C15.R1', 'smt/arith/lin.cpp', "            c *= lhs;\n        res.known_term *= lhs;", "            c *= lhs;\n        res.known_term += lhs;"),
        V('inf_rational -= inf_rational: infinitesimal added', 'C15.R1', 'smt/arith/inf_rational.h', "      rat -= rhs.rat;\n      inf -= rhs.inf;", "      rat -= rhs.rat;\n      inf += rhs.inf;"),
        V('inf_rational * I forgets the infinitesimal part', 'C15.R1', 'smt/arith/inf_rational.h', "inline inf_rational operator*(const I &rhs) const noexcept { return inf_rational(rat * rhs, inf * rhs); };", "inline inf_rational operator*(const I &rhs) const noexcept { return inf_rational(rat * rhs, inf); };"),
        V('inf_rational unary minus keeps the infinitesimal', 'C15.R1', 'smt/arith/inf_rational.h', "return inf_rational(-rat, -inf);", "return inf_rational(-rat, inf);"),
        V('unary minus through at() again', 'C15.R4', 'smt/arith/lin.cpp', "            res.vars.emplace(v, -c);", "            res.vars.at(v) = -c;"),
        V('rational >= no longer the dual of <=', 'C15.R5', 'smt/arith/rational.cpp', "bool rational::operator>=(const rational &rhs) const noexcept { return num * rhs.den >= den * rhs.num; }", "bool rational::operator>=(const rational &rhs) const noexcept { return num * rhs.den > den * rhs.num; }"),
        V('rational / rational: sign not moved to the numerator', 'C15.R5', 'smt/arith/rational.cpp', "            rec.num = -rhs.den;\n            rec.den = -rhs.num;\n        }\n        return operator*(rec);", "            rec.num = rhs.den;\n            rec.den = -rhs.num;\n        }\n        return operator*(rec);"),
        V('normalize keeps a negative denominator', 'C15.R5', 'smt/arith/rational.cpp', "            den = -den;\n            num = -num;", "            den = -den;"),
    ],
    'C18': [
        V('noexcept added to a throwing lexer helper', 'C18.R1', 'riddle/riddle_lexer.h', "token *mk_integer_token(const std::string &str)\n", "token *mk_integer_token(const std::string &str) noexcept\n"),
        V('line comment loop without the end-of-input case', 'C18.R2', LEX, "                    case -1:\n                        return mk_token(EOF_ID);\n                    }\n            case '*': // in multi-line comment", "                    }\n            case '*': // in multi-line comment"),
        V('string loop without the end-of-input case', 'C18.R2', LEX, "                case -1:\n                    error(\"unterminated string literal..\");\n                    return nullptr;\n", ""),
    ],
}
