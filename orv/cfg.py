"""Dataflow over the dumped clang::CFG (DESIGN 3.B), at element granularity.

Nodes are (block id, element index); every block additionally has an 'end' node (block id, None) carrying its
successor edges.  Events are predicates over the tree node an element stands for.
"""
from .facts import AnalysisBroken

INF = float('inf')


class Graph:
    def __init__(self, fn):
        g = fn.get('cfg')
        if not g:
            raise AnalysisBroken('%s: no CFG' % fn.id)
        self.fn = fn
        self.entry = g['entry']
        self.exit = g['exit']
        self.blocks = {b['id']: b for b in g['blocks']}
        self.succ = {}
        self.nodes = []
        for bid, b in self.blocks.items():
            el = b.get('elems') or []
            # the extractor dumps implicit wrappers (casts, temporaries, cleanups) under the id of the expression they wrap: one evaluation, one node
            if any(i > 0 and el[i] == el[i - 1] for i in range(len(el))):
                el = [e for i, e in enumerate(el) if i == 0 or e != el[i - 1]]
                b['elems'] = el
            chain = [(bid, i) for i in range(len(el))] + [(bid, None)]
            for a, c in zip(chain, chain[1:]):
                self.succ.setdefault(a, []).append(c)
            self.succ.setdefault(chain[-1], [])
            for s in b.get('succs') or []:
                if s is None or b.get('noreturn'):
                    continue        # a block ending in a noreturn call (failed assert) never continues
                sel = self.blocks[s].get('elems') or []
                self.succ[chain[-1]].append((s, 0) if sel else (s, None))
            self.nodes.extend(chain)
        self.start = (self.entry, 0) if (self.blocks[self.entry].get('elems') or []) else (self.entry, None)
        self.end = (self.exit, None)

    def tree(self, node):
        bid, i = node
        if i is None:
            return None
        return self.fn.node(self.blocks[bid]['elems'][i])

    def events(self, pred):
        """set of graph nodes whose tree node satisfies pred."""
        out = set()
        for n in self.nodes:
            t = self.tree(n)
            if t is None:
                continue
            if pred(t):
                out.add(n)
            elif t.get('callee') and self._helper_hits(t['callee'], pred):
                out.add(n)      # the event happens inside a helper the reviewed inventory does not know: it happens at the call
        return out

    def _helper_hits(self, callee, pred, depth=0):
        fs = getattr(self.fn, 'fs', None)
        if fs is None or depth > 3:
            return False
        h = fs.fns.get(callee)
        if h is None or not h.d.get('_new_helper') or h.body is None:
            return False
        from .facts import walk
        for m in walk(h.body):
            if pred(m):
                return True
            if m.get('callee') and m['callee'] != callee and self._helper_hits(m['callee'], pred, depth + 1):
                return True
        return False

    # ---- reachability ------------------------------------------------------------------------------------------------------
    def reach(self, start, avoid=frozenset()):
        seen = set()
        st = [start]
        while st:
            n = st.pop()
            if n in seen or n in avoid:
                continue
            seen.add(n)
            st.extend(self.succ.get(n, ()))
        return seen

    def reachable_nodes(self):
        return self.reach(self.start)

    def throw_nodes(self):
        if not hasattr(self, '_throws'):
            self._throws = frozenset(n for n in self.nodes if (self.tree(n) or {}).get('k') == 'CXXThrowExpr')
        return self._throws

    def must_pass(self, ev, start=None, end=None, normal=True):
        """does every path start -> end go through an event node?  With normal=True a path that ends in a `throw`
        is not an exit (the CFG routes throw expressions to the exit block)."""
        start = start or self.start
        end = end or self.end
        avoid = frozenset(ev) | (self.throw_nodes() if normal else frozenset())
        return end not in self.reach(start, avoid=avoid)

    def always_before(self, first, then):
        """every path from entry that reaches a `then` node has passed a `first` node."""
        r = self.reach(self.start, avoid=frozenset(first))
        return not (r & set(then))

    def never_after(self, a, b):
        """no path on which a b-node is reached after an a-node."""
        for n in a:
            for s in self.succ.get(n, ()):
                if self.reach(s) & set(b):
                    return False
        return True

    # ---- counting ----------------------------------------------------------------------------------------------------------
    def count(self, ev, start=None, ends=None, normal=False):
        """(min, max) number of event nodes on a path start -> any of ends (default: exit). max = INF when an event lies on a cycle.
        normal=True ignores the paths that end in a throw expression."""
        start = start or self.start
        ends = set(ends) if ends else {self.end}
        nodes = self.reach(start, avoid=self.throw_nodes() if normal else frozenset())
        # only nodes that can reach an end
        rev = {}
        for n in nodes:
            for s in self.succ.get(n, ()):
                if s in nodes:
                    rev.setdefault(s, []).append(n)
        can = set()
        st = [e for e in ends if e in nodes]
        while st:
            n = st.pop()
            if n in can:
                continue
            can.add(n)
            st.extend(rev.get(n, ()))
        if start not in can:
            return None
        # SCCs (Tarjan, iterative)
        index = {}
        low = {}
        comp = {}
        stack = []
        onstack = set()
        counter = [0]
        order = []
        for root in can:
            if root in index:
                continue
            work = [(root, iter([s for s in self.succ.get(root, ()) if s in can]))]
            index[root] = low[root] = counter[0]
            counter[0] += 1
            stack.append(root)
            onstack.add(root)
            while work:
                v, it = work[-1]
                advanced = False
                for w in it:
                    if w not in index:
                        index[w] = low[w] = counter[0]
                        counter[0] += 1
                        stack.append(w)
                        onstack.add(w)
                        work.append((w, iter([s for s in self.succ.get(w, ()) if s in can])))
                        advanced = True
                        break
                    elif w in onstack:
                        low[v] = min(low[v], index[w])
                if advanced:
                    continue
                work.pop()
                if work:
                    u = work[-1][0]
                    low[u] = min(low[u], low[v])
                if low[v] == index[v]:
                    c = []
                    while True:
                        w = stack.pop()
                        onstack.discard(w)
                        comp[w] = v
                        c.append(w)
                        if w == v:
                            break
                    order.append((v, c))
        # order is reverse topological (sinks first)
        cyc = {}
        evc = {}
        for rep, c in order:
            cs = set(c)
            cyc[rep] = len(c) > 1 or any(s in cs for n in c for s in self.succ.get(n, ()))
            evc[rep] = sum(1 for n in c if n in ev)
        best = {}
        for rep, c in order:
            cs = set(c)
            outs = {comp[s] for n in c for s in self.succ.get(n, ()) if s in can and s not in cs}
            here_min = 0 if cyc[rep] else evc[rep]
            here_max = (INF if (cyc[rep] and evc[rep]) else evc[rep])
            if cyc[rep]:
                here_min = 0 if not evc[rep] else min(1 if n in ev else 0 for n in c)  # a cycle can be left after its first pass: lower bound 0 unless entry itself is the event
                here_min = 0
            is_end = bool(cs & ends)
            cands = [best[o] for o in outs if o in best]
            if is_end:
                cands.append((0, 0))
            if not cands:
                continue
            mn = here_min + min(x[0] for x in cands)
            mx = here_max + max(x[1] for x in cands)
            best[rep] = (mn, mx)
        return best.get(comp[start])


def is_call(name):
    return lambda t: t.get('callee_name') == name


def returns(g, value=None):
    """graph nodes of ReturnStmt elements (optionally returning the given bool literal)."""
    out = set()
    for n in g.nodes:
        t = g.tree(n)
        if t is not None and t.get('k') == 'ReturnStmt':
            if value is None:
                out.add(n)
            else:
                c = t.get('c') or []
                if c and c[0].get('k') == 'CXXBoolLiteralExpr' and bool(c[0].get('val')) == value:
                    out.add(n)
    return out


class Product:
    """Reachability over CFG x a small valuation (conditional constant propagation of local flags, correlated branch conditions,
    'seen' markers).  effect(tree) -> {key: value} updates applied when a node is passed; branch(cond tree) -> key or None names a
    tracked condition: its first evaluation on a path fixes its value, later tests of the same key follow the same edge;
    reset(tree) -> iterable of keys forgotten when the node is passed."""

    def __init__(self, g, effect, branch, reset=None, init=None, normal=True):
        self.g = g
        self.seen = set()
        stop = g.throw_nodes() if normal else frozenset()
        work = [(g.start, frozenset((init or {}).items()))]
        f = g.fn
        while work:
            node, st = work.pop()
            if (node, st) in self.seen:
                continue
            self.seen.add((node, st))
            if node in stop:
                continue
            d = dict(st)
            t = g.tree(node)
            if t is not None:
                if reset is not None:
                    for k in reset(t) or ():
                        d.pop(k, None)
                e = effect(t)
                if e:
                    d.update(e)
            succs = list(g.succ.get(node, ()))
            if node[1] is None:
                bt = g.blocks[node[0]].get('term')
                tn = f.node(bt) if bt is not None else None
                raw = g.blocks[node[0]].get('succs') or []
                if tn is not None and tn.get('k') == 'IfStmt' and len(raw) == 2:
                    key = branch(tn['slots'].get('cond'))
                    if key is not None:
                        neg = False
                        if isinstance(key, tuple) and key[0] == 'not':
                            key, neg = key[1], True
                        if key in d and d[key] in (True, False):
                            v = d[key] != neg
                            keep = raw[0] if v else raw[1]
                            for s in succs:
                                if s[0] == keep:
                                    work.append((s, frozenset(d.items())))
                            continue
                        for s in succs:
                            d2 = dict(d)
                            d2[key] = (s[0] == raw[0]) != neg
                            work.append((s, frozenset(d2.items())))
                        continue
            st2 = frozenset(d.items())
            for s in succs:
                work.append((s, st2))

    def states_at(self, nodes):
        nodes = set(nodes)
        return [(n, dict(st)) for (n, st) in self.seen if n in nodes]
