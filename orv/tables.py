"""Decision tables (DESIGN 3.F), vector-builder summaries (3.D) and clause schemas (3.E)."""
from .expr import LocalEnv, canon, show
from .facts import AnalysisBroken, kids, short, walk


class Path:
    __slots__ = ('conds', 'stmts', 'end', 'endnode', 'seq')

    def __init__(self, conds=(), stmts=(), end=None, endnode=None, seq=None):
        self.conds, self.stmts, self.end, self.endnode = tuple(conds), tuple(stmts), end, endnode
        # the decisions and statements of the path in the order they happen: (('c', cond) | ('s', stmt), ...)
        self.seq = tuple(seq) if seq is not None else tuple(('c', c) for c in self.conds) + tuple(('s', x) for x in self.stmts)

    def live(self, env):
        """the statements of the path that do something: no assert expansions, no declarations of locals that are only names for their initialiser
        (alias locals, see LocalEnv): hoisting a sub-expression into a const local does not change the path."""
        out = []
        for s in self.stmts:
            if s.get('as'):
                continue
            if s.get('k') == 'DeclStmt' and env is not None:
                ds = [d for d in (s.get('c') or ()) if d.get('k') == 'VarDecl']
                if ds and all(env.is_alias(d) and env.pure_init(d) for d in ds):
                    continue
            out.append(s)
        return out

    def ext(self, cond=None, stmt=None):
        return Path(self.conds + ((cond,) if cond is not None else ()), self.stmts + ((stmt,) if stmt is not None else ()),
                    seq=self.seq + ((('c', cond),) if cond is not None else ()) + ((('s', stmt),) if stmt is not None else ()))


def _unwrap_labels(s):
    labels = []
    while s is not None and s.get('k') in ('CaseStmt', 'DefaultStmt'):
        if s['k'] == 'CaseStmt':
            labels.append(('case', s.get('case'), s.get('case_name')))
            s = (s.get('c') or [None, None])[-1]
        else:
            labels.append(('default', None, None))
            s = (s.get('c') or [None])[-1]
    return labels, s


def switch_arms(sw):
    """[(labels, [stmts...])]: statements grouped by the label(s) that start them."""
    body = sw['slots'].get('body')
    stmts = list(body.get('c') or ()) if body and body.get('k') == 'CompoundStmt' else [body]
    seq = []
    for s in stmts:
        labels, inner = _unwrap_labels(s)
        seq.append((labels, inner))
    return seq


def _has_own_break(loop):
    """does the loop contain a break that leaves *this* loop (not a nested loop / switch)?"""
    def go(n, depth):
        if not isinstance(n, dict):
            return False
        k = n.get('k')
        if k == 'BreakStmt':
            return depth == 0
        if k == 'LambdaExpr':
            return False
        d = depth + 1 if (k in ('WhileStmt', 'ForStmt', 'DoStmt', 'CXXForRangeStmt', 'SwitchStmt') and n is not loop) else depth
        from .facts import kids
        return any(go(c, d) for c in kids(n))
    return go(loop, 0)


def arm_of(sw, n):
    """labels of the switch arm whose statements contain node n (fall-through groups: the labels that start the group)."""
    cur = None
    for labels, st in switch_arms(sw):
        if labels:
            cur = labels
        if st is not None:
            for m in walk(st):
                if m is n:
                    return cur
    return None


def decisions(cond):
    """[(atoms, outcome)]: every way the condition can evaluate, as the sequence of atomic tests ((node, polarity), ...) made in evaluation order."""
    if cond is None:
        return [((), True)]
    k = cond.get('k')
    if k == 'ParenExpr' and cond.get('c'):
        return decisions(cond['c'][0])
    if k == 'UnaryOperator' and cond.get('op') == '!' and cond.get('c'):
        return [(a, not o) for a, o in decisions(cond['c'][0])]
    if k == 'CXXOperatorCallExpr' and cond.get('op') == '!' and len(cond.get('c') or ()) == 2 and (cond.get('t') or '') == 'bool':
        pass        # an overloaded operator! (e.g. on lit) is a value, not a control decision
    if k == 'BinaryOperator' and cond.get('op') in ('&&', '||') and len(cond.get('c') or ()) == 2:
        isand = cond['op'] == '&&'
        out = []
        for a, oa in decisions(cond['c'][0]):
            if oa != isand:                 # short circuit: false && .. / true || ..
                out.append((a, oa))
            else:
                for b, ob in decisions(cond['c'][1]):
                    out.append((a + b, ob))
        return out
    if k == 'ConditionalOperator' and len(cond.get('c') or ()) == 3 and (cond.get('t') or '').replace('const ', '') == 'bool':
        # `c ? a : b` as a condition is `c && a || !c && b`, evaluated in that order
        out = []
        for a, oa in decisions(cond['c'][0]):
            for b, ob in decisions(cond['c'][1] if oa else cond['c'][2]):
                out.append((a + b, ob))
        return out
    return [(((cond, True),), True), (((cond, False),), False)]


# ---------------------------------------------------------------------------
# tests of one value against constants: `switch (e) case X`, `if (e == X) .. else if (e == Y)`, `if (e != X) return;` are one thing

ENUMERATORS = {}        # canonical constant -> tuple of the canonical constants of its domain (unambiguous names only)
# smt/defs.h: `typedef unsigned short lbool` with the three constexpr values below; every lbool in the code base is one of them (the switches over
# value(..) have no default arm)
LBOOL = ('smt::False', 'smt::True', 'smt::Undefined')
for _k in LBOOL:
    ENUMERATORS[_k] = LBOOL
LABEL_CANON = {k.rsplit('::', 1)[-1]: k for k in LBOOL}     # case label name -> canonical constant


def register_enums(enums):
    seen = {}
    for e in (enums or {}).values():
        names = tuple(x['name'].rsplit('::', 1)[-1] for x in e.get('enumerators') or ())
        for n in names:
            seen.setdefault(n, set()).add(names)
    for n, ds in seen.items():
        if len(ds) == 1:
            ENUMERATORS[n] = next(iter(ds))


def const_term(t):
    """is the canonical term a constant a value can be compared with (enumerator name / number / character)?"""
    if isinstance(t, tuple) and len(t) == 2 and t[0] == 'num':
        return True
    return isinstance(t, str) and t in ENUMERATORS


def eq_test(t):
    """(e, K) when the canonical term is `e == K` with K a constant and e not one."""
    if isinstance(t, tuple) and len(t) == 3 and t[0] == '==':
        a, b = t[1], t[2]
        if const_term(b) and not const_term(a):
            return a, b
        if const_term(a) and not const_term(b):
            return b, a
    if isinstance(t, tuple) and len(t) == 3 and t[0] == 'mcall' and isinstance(t[1], str) and t[1].startswith('std::') and t[1].endswith('::empty'):
        return ('mcall', t[1][:-len('empty')] + 'size', t[2]), ('num', 0)          # `c.empty()` is the test `c.size() == 0`
    return None


def label_term(l):
    """canonical constant of a case label (value, name)."""
    val, name = l
    if name is None:
        return ('num', val)
    return LABEL_CANON.get(name, name)


def eq_term(e, k):
    a, b = sorted((e, k), key=repr)
    from .expr import _emptiness
    return _emptiness(('==', a, b))         # `c.size() == 0` is spelled `c.empty()` everywhere


def value_literals(conds):
    """conds: [('if', term, pol) | ('switch', term, labels) | ('stmt',)] with canonical terms (polarity-normalised: no leading `!`, no `!=`), ('stmt',) marking a
    statement of the path that does something between two decisions.  Returns the path condition (markers dropped) with every test of a value against
    constants spelled as literals `(== e K)`: a switch arm with one label is the positive literal, the default arm / no-match exit the negative literals
    of all the cases.  Among the tests of one value that no statement separates: a positive literal makes the negative ones redundant; negative literals
    that leave one enumerator only are that positive literal; contradicting literals (two different constants, every enumerator excluded) mean that the
    path cannot be taken: None."""
    out = []
    epoch = 0
    for c in conds:
        if c[0] == 'stmt':
            epoch += 1
            continue
        if c[0] == 'switch':
            labs = c[2]
            if len(labs) == 1 and labs[0][0] == 'case':
                out.append((('if', eq_term(c[1], label_term(labs[0][1:3])), True), epoch))
                continue
            if labs and all(l[0] in ('default', 'nomatch') for l in labs) and len(labs[0]) > 3:
                for l in labs[0][3]:
                    out.append((('if', eq_term(c[1], label_term(l)), False), epoch))
                continue
        out.append((c, epoch))
    pos, neg = {}, {}
    for c, ep in out:
        if c[0] == 'if':
            ek = eq_test(c[1])
            if ek is not None:
                (pos if c[2] else neg).setdefault((repr(ek[0]), ep), []).append(ek[1])
    for key, ks in pos.items():
        if len(set(map(repr, ks))) > 1:
            return None                 # one value, two different constants
        if any(repr(k) == repr(ks[0]) for k in neg.get(key, ())):
            return None                 # e == K and e != K
    promote = {}
    for key, ks in neg.items():
        if key in pos:
            continue
        dom = None
        for k in ks:
            if isinstance(k, str) and k in ENUMERATORS:
                dom = ENUMERATORS[k]
        if dom is not None and all(isinstance(k, str) and k in dom for k in ks):
            rem = [x for x in dom if x not in ks]
            if not rem:
                return None
            if len(rem) == 1:
                promote[key] = rem[0]
    res = []
    seen = set()
    promoted = set()
    for c, ep in out:
        if c[0] == 'if':
            ek = eq_test(c[1])
            if ek is not None:
                e, k = ek
                key = (repr(e), ep)
                if not c[2] and key in pos:
                    continue        # implied by the positive literal on the same value
                if not c[2] and key in promote:
                    if key in promoted:
                        continue
                    promoted.add(key)
                    c = ('if', eq_term(e, promote[key]), True)
                if (repr(c[1]), c[2], ep) in seen:
                    continue
                seen.add((repr(c[1]), c[2], ep))
        res.append(c)
    return res


def norm_term(t):
    """one spelling for equal values (applied bottom-up): `c.size() > 0` / `c.size() != 0` is `!c.empty()`, `c.size() == 0` is `c.empty()`;
    `std::make_pair(a, b)`, `std::pair<..>(a, b)`, `std::pair<..>{a, b}` and a braced `{a, b}` turned into a pair are `(pair a b)`."""
    if not isinstance(t, tuple) or not t:
        return t
    def size_of(x):
        if isinstance(x, tuple) and len(x) == 3 and x[0] == 'mcall' and isinstance(x[1], str) and x[1].endswith('::size'):
            return ('mcall', x[1][:-len('size')] + 'empty', x[2])
        return None
    if len(t) == 3 and t[0] in ('<', '==', '!='):
        for a, b, side in ((t[1], t[2], 0), (t[2], t[1], 1)):
            e = size_of(b)
            if a == ('num', 0) and e is not None:
                if t[0] == '==':
                    return e
                if t[0] == '!=' or (t[0] == '<' and side == 0):
                    return ('!', e)
    if t[0] == 'call' and len(t) == 4 and t[1] == 'std::make_pair':
        return ('pair', t[2], t[3])
    if t[0] == 'mcall' and len(t) == 4 and isinstance(t[1], str) and t[1].startswith(('std::map<', 'std::unordered_map<')) and t[1].endswith('::insert') and \
            isinstance(t[3], tuple) and len(t[3]) == 3 and t[3][0] == 'pair':
        return ('mcall', t[1][:-len('insert')] + 'emplace', t[2], t[3][1], t[3][2])      # m.insert({k, v}) is m.emplace(k, v): neither overwrites
    if t[0] == 'new' and isinstance(t[1], str) and t[1].startswith('std::pair<'):
        if len(t) == 4:
            return ('pair', t[2], t[3])
        if len(t) == 3 and isinstance(t[2], tuple) and t[2] and t[2][0] == 'list' and len(t[2]) == 3:
            return ('pair', t[2][1], t[2][2])
        if len(t) == 3 and isinstance(t[2], tuple) and t[2] and t[2][0] == 'pair':
            return t[2]
    return t


def norm_literal(t, pol):
    """one spelling per atomic decision: no leading negation, `!=` as a failed `==`, `<=` as a failed `>`."""
    t = norm_term(t)
    while isinstance(t, tuple) and len(t) == 2 and t[0] == '!':
        t, pol = t[1], not pol
    if isinstance(t, tuple) and len(t) == 3 and t[0] == '!=':
        t, pol = ('==',) + t[1:], not pol
    if isinstance(t, tuple) and len(t) == 3 and t[0] == '<=':
        t, pol = ('<', t[2], t[1]), not pol
    if isinstance(t, tuple) and len(t) == 3 and t[0] == '==' and 'nullptr' in t[1:]:
        # `p == nullptr` is a failed `if (p)`
        o = [x for x in t[1:] if x != 'nullptr']
        if len(o) == 1:
            t, pol = o[0], not pol
            return norm_literal(t, pol)
    return t, pol


def _separates(st):
    """does this statement of a path do something (so that a value tested before it and after it may differ)?"""
    if st.get('as') or st.get('k') == 'NullStmt':
        return False
    if st.get('k') == 'DeclStmt':
        from .normalize import _impure
        return any(d.get('k') == 'VarDecl' and isinstance(d.get('init'), dict) and _impure(d['init']) for d in st.get('c') or ())
    return True


def path_literals(conds, term):
    """the conditions of a path (a Path of enum_paths, or its conds) as value literals over canonical terms; term(node) -> canonical term.  None: not a path."""
    cs = []
    if isinstance(conds, Path):
        seq = conds.seq
    else:
        seq = [('c', c) for c in conds]
    for kind, c in seq:
        if kind == 's':
            if _separates(c):
                cs.append(('stmt',))
            continue
        if c[0] == 'if':
            t, pol = norm_literal(term(c[1]), c[2])
            cs.append(('if', t, pol))
        else:
            cs.append(('switch', term(c[1]), tuple((l[0], l[1], l[2]) + tuple(l[3:]) for l in c[2])))
    return value_literals(cs)


def value_of(lits, e):
    """the constant that the path literals give to the value e (short name for enumerators / lbool, number for integers), else None."""
    for c in lits or ():
        if c[0] == 'if' and c[2]:
            ek = eq_test(c[1])
            if ek is not None and ek[0] == e:
                k = ek[1]
                return k[1] if isinstance(k, tuple) else k.rsplit('::', 1)[-1]
        if c[0] == 'switch' and c[1] == e:
            return None
    return None


def excluded_of(lits, e):
    """the constants the path literals exclude for the value e."""
    out = []
    for c in lits or ():
        if c[0] == 'if' and not c[2]:
            ek = eq_test(c[1])
            if ek is not None and ek[0] == e:
                k = ek[1]
                out.append(k[1] if isinstance(k, tuple) else k.rsplit('::', 1)[-1])
    return out


def _first_conditional(e):
    """the first ?: that evaluating e always evaluates (not inside the right operand of && / ||, an arm of another ?:, a lambda)."""
    st = [e]
    while st:
        x = st.pop(0)
        if not isinstance(x, dict):
            continue
        k = x.get('k')
        if k == 'ConditionalOperator':
            return x
        if k == 'LambdaExpr':
            continue
        c = list(x.get('c') or ())
        if k == 'BinaryOperator' and x.get('op') in ('&&', '||'):
            c = c[:1]
        st = c + st
    return None


def _subst_node(root, target, repl):
    if root is target:
        return repl
    if not isinstance(root, dict):
        return root
    if not any(m is target for m in walk(root)):
        return root
    o = dict(root)
    if root.get('c'):
        o['c'] = [_subst_node(c, target, repl) for c in root['c']]
    if isinstance(root.get('init'), dict):
        o['init'] = _subst_node(root['init'], target, repl)
    return o


def _bool_literal(e):
    while isinstance(e, dict) and e.get('k') in ('ParenExpr',) and e.get('c'):
        e = e['c'][0]
    if isinstance(e, dict) and e.get('k') == 'CXXBoolLiteralExpr':
        return bool(e.get('val'))
    return None


def recorded_flags(stmt):
    """{dloc: VarDecl} of the bool locals declared inside stmt that only *record a decision*: every use is either a record (`bool f = E;`, `f = E;` as a
    statement of the structured part of stmt) or an atomic test of a condition (`if (f)`, `if (!f && ..)`, `f ? a : b` of a return).  Branching on such a
    flag is branching on E at the time it was recorded."""
    decls = {}
    for n in walk(stmt):
        if n.get('k') == 'VarDecl' and (n.get('t') or '').replace('const ', '') == 'bool' and n.get('loc') and not n.get('bindings'):
            decls[n['loc']] = n
    if not decls:
        return {}
    ok_refs = set()         # id() of the DeclRefExprs that are records / tests
    records = set()

    def atoms_of(cond):
        for atoms, _o in decisions(cond):
            for a, _p in atoms:
                if a.get('k') == 'DeclRefExpr' and a.get('dloc') in decls:
                    ok_refs.add(id(a))

    def structured(s):
        """visits the statements that enum_paths decomposes; records found anywhere else disqualify the flag"""
        if s is None:
            return
        k = s.get('k')
        if k == 'CompoundStmt':
            for c in s.get('c') or ():
                structured(c)
        elif k == 'IfStmt':
            sl = s['slots']
            atoms_of(sl.get('cond'))
            structured(sl.get('init'))
            structured(sl.get('then'))
            structured(sl.get('else'))
        elif k == 'SwitchStmt':
            for labels, st in switch_arms(s):
                structured(st)
        elif k in ('AttributedStmt', 'LabelStmt', 'CaseStmt', 'DefaultStmt'):
            c = s.get('c') or []
            if c:
                structured(c[-1])
        elif k == 'ReturnStmt':
            e = (s.get('c') or [None])[0]
            x = _first_conditional(e)
            if isinstance(x, dict) and x.get('k') == 'ConditionalOperator':
                atoms_of(x['c'][0])
        elif k == 'DeclStmt':
            ds = [d for d in (s.get('c') or ()) if d.get('k') == 'VarDecl']
            if len(ds) == 1 and ds[0].get('loc') in decls and len(s.get('c') or ()) == 1:
                records.add(id(s))
        elif k == 'BinaryOperator' and s.get('op') == '=' and s['c'][0].get('k') == 'DeclRefExpr' and s['c'][0].get('dloc') in decls:
            ok_refs.add(id(s['c'][0]))
            records.add(id(s))
    structured(stmt)
    bad = set()
    for n in walk(stmt):
        if n.get('k') == 'DeclRefExpr' and n.get('dloc') in decls and id(n) not in ok_refs:
            bad.add(n['dloc'])
        if n.get('k') == 'DeclStmt' and id(n) not in records:
            # declared somewhere the path enumeration keeps opaque (inside a loop), or together with other variables: not tracked
            for d in n.get('c') or ():
                if d.get('k') == 'VarDecl' and d.get('loc') in decls:
                    bad.add(d['loc'])
    return {d: v for d, v in decls.items() if d not in bad}


def enum_paths(stmt, limit=4000):
    """All acyclic paths through a statement made of compound / if / switch /
    return / throw; loops, try blocks and everything else are opaque single
    steps.  Returns a list of Path with end in {'return','throw','fall','break','continue'}.
    A bool local that only records a decision (recorded_flags) is not a variable of the paths: recording it branches on the recorded condition, testing
    it later selects the paths on which it was recorded that way."""
    flags = recorded_flags(stmt) if isinstance(stmt, dict) else {}
    if flags:
        tested = {n['dloc'] for n in walk(stmt) if n.get('k') == 'DeclRefExpr' and n.get('dloc') in flags}
        flags = {d: v for d, v in flags.items() if d in tested}

    def record(s, dloc, e):
        """paths of a statement that records decision e in flag dloc"""
        if e is None:
            return [Path((), (), 'fall', None, seq=(('f', (dloc, None)),))]
        lit = _bool_literal(e)
        if lit is not None:
            return [Path((), (), 'fall', None, seq=(('f', (dloc, lit)),))]
        out = []
        for atoms, outcome in decisions(e):
            cs = tuple(('if', n, pol) for n, pol in atoms)
            out.append(Path(cs, (), 'fall', None, seq=tuple(('c', c) for c in cs) + (('f', (dloc, outcome)),)))
        return out

    def resolve(p):
        state = {}
        conds, stmts, seq = [], [], []
        for kind, x in p.seq:
            if kind == 'f':
                if x[1] is None:
                    state.pop(x[0], None)
                else:
                    state[x[0]] = x[1]
                continue
            if kind == 'c' and x[0] == 'if' and x[1].get('k') == 'DeclRefExpr' and x[1].get('dloc') in state:
                if state[x[1]['dloc']] != x[2]:
                    return None
                continue
            (conds if kind == 'c' else stmts).append(x)
            seq.append((kind, x))
        return Path(conds, stmts, p.end, p.endnode, seq=seq)

    split_depth = [0]

    def join(p, q):
        return Path(p.conds + q.conds, p.stmts + q.stmts, q.end, q.endnode, seq=p.seq + q.seq)

    def seq(stmts):
        cur = [Path(end='fall')]
        done = []
        for s in stmts:
            nxt = []
            sub = paths(s)
            for p in cur:
                for q in sub:
                    r = join(p, q)
                    (nxt if r.end == 'fall' else done).append(r)
            cur = nxt
            if len(cur) + len(done) > limit:
                raise AnalysisBroken('path explosion')
            if not cur:
                break
        return done + cur

    def paths(s):
        if s is None:
            return [Path(end='fall')]
        kind = s.get('k')
        if flags:
            if kind == 'DeclStmt':
                ds = [d for d in (s.get('c') or ()) if d.get('k') == 'VarDecl']
                if len(ds) == 1 and ds[0].get('loc') in flags:
                    return record(s, ds[0]['loc'], ds[0].get('init') if isinstance(ds[0].get('init'), dict) else None)
            if kind == 'BinaryOperator' and s.get('op') == '=' and s['c'][0].get('k') == 'DeclRefExpr' and s['c'][0].get('dloc') in flags:
                return record(s, s['c'][0]['dloc'], s['c'][1])
        if kind == 'CompoundStmt':
            return seq(list(s.get('c') or ()))
        if kind == 'ReturnStmt':
            e = (s.get('c') or [None])[0]
            x = _first_conditional(e)
            if isinstance(x, dict) and x.get('k') == 'ConditionalOperator' and len(x.get('c') or ()) == 3:
                # `return c ? a : b;` is `if (c) return a; else return b;` - also when the selection is an operand that the returned expression always
                # evaluates (`return new T(c ? a : b);` is `if (c) return new T(a); else return new T(b);`)
                out = []
                for atoms, outcome in decisions(x['c'][0]):
                    arm = x['c'][1] if outcome else x['c'][2]
                    r = dict(s)
                    r['c'] = [_subst_node(e, x, arm)]
                    for q in paths(r):
                        cs = tuple(('if', n, pol) for n, pol in atoms)
                        out.append(Path(cs + q.conds, q.stmts, q.end, q.endnode, seq=tuple(('c', c) for c in cs) + q.seq))
                return out
            return [Path((), (s,), 'return', s)]
        if kind == 'CXXThrowExpr':
            return [Path((), (s,), 'throw', s)]
        if kind == 'BreakStmt':
            return [Path((), (), 'break', s)]
        if kind == 'ContinueStmt':
            return [Path((), (), 'continue', s)]
        if kind == 'IfStmt':
            sl = s['slots']
            pre = tuple(x for x in (sl.get('init'), sl.get('condvar')) if x)
            out = []
            sub = {True: paths(sl.get('then')), False: paths(sl.get('else'))}
            # the condition is decomposed into atomic decisions in evaluation order (short-circuit semantics): `if (a && b) X else Y`, the nested
            # `if (a) { if (b) X else Y } else Y`, `if (!(a && b)) Y else X` and the early-exit forms all yield the same set of paths
            for atoms, outcome in decisions(sl.get('cond')):
                for q in sub[outcome]:
                    cs = tuple(('if', n, pol) for n, pol in atoms)
                    out.append(Path(cs + q.conds, pre + q.stmts, q.end, q.endnode, seq=tuple(('s', x) for x in pre) + tuple(('c', c) for c in cs) + q.seq))
            return out
        if kind == 'SwitchStmt':
            arms = switch_arms(s)
            cond = s['slots'].get('cond')
            has_default = any(l[0] == 'default' for ls, _ in arms for l in ls)
            allcases = tuple((l[1], l[2]) for ls, _ in arms for l in ls if l[0] == 'case')
            out = []
            for i, (labels, _) in enumerate(arms):
                if not labels:
                    continue
                labels = [l if l[0] == 'case' else (l[0], None, None, allcases) for l in labels]
                for q in seq([st for _, st in arms[i:]]):
                    end = 'fall' if q.end == 'break' else q.end
                    c0 = ('switch', cond, tuple(labels))
                    out.append(Path((c0,) + q.conds, q.stmts, end, q.endnode, seq=(('c', c0),) + q.seq))
            if not has_default:
                out.append(Path((('switch', cond, (('nomatch', None, None, allcases),)),), (), 'fall', None))
            return out
        if kind in ('AttributedStmt', 'LabelStmt'):
            c = s.get('c') or []
            return paths(c[-1]) if c else [Path(end='fall')]
        if kind in ('WhileStmt', 'ForStmt', 'DoStmt'):
            cond = (s.get('slots') or {}).get('cond')
            forever = cond is None and kind == 'ForStmt' or (cond is not None and cond.get('k') == 'CXXBoolLiteralExpr' and cond.get('val'))
            if forever and not _has_own_break(s):
                return [Path((), (s,), 'loop', s)]      # never falls through: left only by return / throw inside (opaque here)
        if kind not in ('WhileStmt', 'ForStmt', 'DoStmt', 'CXXForRangeStmt', 'CXXTryStmt', 'GotoStmt', 'NullStmt', 'LambdaExpr') and not s.get('as') and not s.get('slots'):
            # a plain statement that always evaluates a selection `c ? a : b` is `if (c) S[a] else S[b]` (also the initialiser of a declaration)
            x = None
            if kind == 'DeclStmt':
                ds = [d for d in (s.get('c') or ()) if d.get('k') == 'VarDecl']
                if len(ds) == 1 and len(s.get('c') or ()) == 1 and isinstance(ds[0].get('init'), dict) and not ds[0].get('bindings'):
                    x = _first_conditional(ds[0]['init'])
            else:
                x = _first_conditional(s)
            if isinstance(x, dict) and len(x.get('c') or ()) == 3 and split_depth[0] < 6:
                out = []
                split_depth[0] += 1
                try:
                    for atoms, outcome in decisions(x['c'][0]):
                        arm = x['c'][1] if outcome else x['c'][2]
                        if kind == 'DeclStmt':
                            d2 = dict(ds[0])
                            d2['init'] = _subst_node(ds[0]['init'], x, arm)
                            d2['_split_from'] = ds[0].get('_split_from') or ds[0]['init']      # what the local is declared with, all arms included
                            s2 = dict(s)
                            s2['c'] = [d2]
                        else:
                            s2 = _subst_node(s, x, arm)
                        cs = tuple(('if', n, pol) for n, pol in atoms)
                        for q in paths(s2):
                            out.append(Path(cs + q.conds, q.stmts, q.end, q.endnode, seq=tuple(('c', c) for c in cs) + q.seq))
                finally:
                    split_depth[0] -= 1
                return out
        return [Path((), (s,), 'fall', None)]

    if not flags:
        return paths(stmt)
    return [q for q in (resolve(p) for p in paths(stmt)) if q is not None]


def path_values(p, term):
    """{local name: canonical term} of what the statements of one path leave in its locals: initialisers of declarations and plain assignments
    `x = E;` (the last one on the path wins).  A local that is given its value in the arms of an if is, on each path, that value."""
    out = {}
    for st in p.stmts:
        if st.get('as'):
            continue
        if st.get('k') == 'DeclStmt':
            for d in st.get('c') or ():
                if d.get('k') == 'VarDecl' and isinstance(d.get('init'), dict) and d.get('name'):
                    out[d['name']] = term(d['init'])
        elif st.get('k') in ('BinaryOperator', 'CXXOperatorCallExpr') and st.get('op') == '=':
            c = st.get('c') or []
            lhs = c[0] if st['k'] == 'BinaryOperator' else (c[1] if len(c) > 2 else None)
            rhs = c[1] if st['k'] == 'BinaryOperator' else (c[2] if len(c) > 2 else None)
            if isinstance(lhs, dict) and lhs.get('k') == 'DeclRefExpr' and lhs.get('local') and rhs is not None:
                out[lhs.get('ref')] = term(rhs)
        elif st.get('k') in ('CompoundAssignOperator', 'CXXOperatorCallExpr') and st.get('op') == '+=':
            c = st.get('c') or []
            lhs = c[0] if st['k'] == 'CompoundAssignOperator' else (c[1] if len(c) > 2 else None)
            rhs = c[1] if st['k'] == 'CompoundAssignOperator' else (c[2] if len(c) > 2 else None)
            if isinstance(lhs, dict) and lhs.get('k') == 'DeclRefExpr' and lhs.get('local') and rhs is not None and lhs.get('ref') in out:
                out[lhs['ref']] = ('+', out[lhs['ref']], term(rhs))        # what has been appended / added so far
    return out


def split_values(p, term):
    """{canonical term of a `c ? a : b` initialiser: canonical term of the arm this path selected} for the declarations that the path enumeration split."""
    sub = {}
    for st in p.stmts:
        if st.get('k') == 'DeclStmt':
            for d in st.get('c') or ():
                if d.get('k') == 'VarDecl' and d.get('_split_from') is not None and isinstance(d.get('init'), dict):
                    sub[term(d['_split_from'])] = term(d['init'])
    return sub


def subst_terms(t, sub):
    if not sub:
        return t
    if isinstance(t, tuple):
        if t in sub:
            return sub[t]
        return tuple(subst_terms(x, sub) for x in t)
    return sub.get(t, t) if isinstance(t, str) else t


def resolve_values(t, vals, depth=0):
    if isinstance(t, str) and t in vals and depth < 4:
        return resolve_values(vals[t], vals, depth + 1)
    if isinstance(t, tuple):
        return tuple(resolve_values(x, vals, depth) for x in t)
    return t


def region_of(f, n):
    """the innermost loop body / lambda body enclosing node n (else the function body): the unit whose acyclic paths enum_paths enumerates."""
    for a in f.ancestors(n):
        if a.get('k') in ('ForStmt', 'WhileStmt', 'DoStmt', 'CXXForRangeStmt'):
            return a['slots']['body']
        if a.get('k') == 'LambdaExpr':
            return (a.get('c') or [f.body])[0]
    return f.body


def cond_key(c, env=None):
    """printable canonical key of one path condition."""
    kind, node, pol = c
    if kind == 'if':
        return ('if', canon(node, env), pol)
    return ('switch', canon(node, env), tuple((l[0], l[2] if l[2] is not None else l[1]) for l in pol))


# ---------------------------------------------------------------------------
# clause schemas

def is_lit_vector_type(t):
    return t and 'std::vector<smt::lit' in t


class VecBuilder:
    """Summary of how a local std::vector<lit> is filled inside one function:
    list of items ('one', term) / ('each', range-term, guard-terms, term)."""

    def __init__(self, fn, env, subst=False):
        self.fn = fn
        self.env = env
        self.subst = subst
        self.items = {}      # dloc -> [item]
        self.unrec = {}      # dloc -> [node]
        self.declnode = {}   # dloc -> VarDecl node (None for parameters)
        self._scan()

    def _scan(self):
        fn, env = self.fn, self.env
        for prm in fn.get('params') or ():
            if is_lit_vector_type(prm.get('t')):
                self.items[prm['loc']] = [('all', env.rename.get(prm['loc'], prm['name']) if env is not None else prm['name'])]
                self.declnode[prm['loc']] = None
        for n in fn.nodes():
            if n.get('k') == 'VarDecl' and is_lit_vector_type(n.get('t')):
                self.items.setdefault(n['loc'], [])
                self.declnode[n['loc']] = n
                init = n.get('init')
                if isinstance(init, dict):
                    its = self._init_items(init)
                    if its is None:
                        self.unrec.setdefault(n['loc'], []).append(init)
                    else:
                        self.items[n['loc']].extend(its)
        for n in fn.nodes():
            if n.get('k') != 'CXXMemberCallExpr':
                continue
            me = n['c'][0]
            if me.get('k') != 'MemberExpr':
                continue
            base = (me.get('c') or [None])[0]
            if base is None or base.get('k') != 'DeclRefExpr' or base.get('dloc') not in self.items:
                continue
            d = base['dloc']
            m = me['member'].rsplit('::', 1)[-1]
            if m in ('push_back', 'emplace_back'):
                args = n['c'][1:]
                if m == 'emplace_back' and len(args) != 1:
                    from .expr import _lit
                    term = _lit([canon(a, env, subst=self.subst) for a in args])
                else:
                    term = canon(args[0], env, subst=self.subst)
                ctxs = self._loop_context(n, self.declnode.get(d))
                self.items[d].append(self._wrap(term, ctxs))
            elif m in ('reserve', 'size', 'empty', 'begin', 'end', 'cbegin', 'cend', 'at', 'back', 'front', 'data'):
                pass
            elif m == 'resize' and self.declnode.get(d, 0) is None:
                pass        # parameter vector compacted in place by the filtering idiom (ls[j++] = p; ls.resize(j)): still 'all(ls)'
            elif m in ('insert', 'assign', 'clear', 'pop_back', 'erase', 'resize', 'swap'):
                self.unrec.setdefault(d, []).append(n)

    def _init_items(self, init):
        k = init.get('k')
        if k in ('CXXConstructExpr', 'CXXTemporaryObjectExpr'):
            c = init.get('c') or []
            if not c:
                return []
            c = [x for x in c if x.get('k') != 'CXXDefaultArgExpr']
            if not c:
                return []
            if len(c) == 1 and c[0].get('k') == 'InitListExpr':
                return [('one', canon(x, self.env, subst=self.subst)) for x in c[0].get('c') or ()]
            if len(c) == 1 and is_lit_vector_type(c[0].get('t')):
                inner = c[0]
                if inner.get('k') == 'InitListExpr':
                    return [('one', canon(x, self.env, subst=self.subst)) for x in inner.get('c') or ()]
                return [('all', canon(inner, self.env, subst=self.subst))]
            if len(c) >= 1 and all(x.get('t') in ('smt::lit', 'const smt::lit') for x in c):
                return [('one', canon(x, self.env, subst=self.subst)) for x in c]
            return None
        if k == 'InitListExpr':
            return [('one', canon(x, self.env, subst=self.subst)) for x in init.get('c') or ()]
        return None

    def _loop_context(self, n, decl=None):
        """enclosing loops / guards between the push and the scope of the vector's declaration (or the function body)."""
        ctx = []
        stop = set()
        if decl is not None:
            stop = {id(a) for a in self.fn.ancestors(decl)}
        for a in self.fn.ancestors(n):
            if id(a) in stop:
                break
            k = a.get('k')
            if k == 'CXXForRangeStmt':
                ctx.append(('each', canon(a['slots']['range'], self.env, subst=self.subst), a['slots']['var'].get('name'), id(a)))
            elif k in ('ForStmt', 'WhileStmt', 'DoStmt'):
                ctx.append(('loop', canon(a['slots'].get('cond'), self.env, subst=self.subst), None, id(a)))
            elif k == 'IfStmt':
                sl = a['slots']
                pol = _inside(sl.get('then'), n)
                ctx.append(('if', canon(sl.get('cond'), self.env, subst=self.subst), pol, id(a)))
            elif k in ('SwitchStmt',):
                ctx.append(('switch', canon(a['slots'].get('cond'), self.env, subst=self.subst), None, id(a)))
            elif k == 'LambdaExpr':
                ctx.append(('lambda', None, None, id(a)))
        ctx.reverse()
        return ctx

    def _wrap(self, term, ctxs):
        if not ctxs:
            return ('one', term)
        return ('ctx', tuple(ctxs), term)

    def summary(self, ref):
        d = ref.get('dloc')
        if d not in self.items:
            return None
        if self.unrec.get(d):
            return None
        return list(self.items[d])


def _inside(sub, n):
    if sub is None:
        return False
    for m in walk(sub):
        if m is n:
            return True
    return False


def clause_of_call(fn, call, env, vb):
    """schema of the clause passed to new_clause/record at `call`: list of
    items, or None when unrecognised."""
    args = call['c'][1:]
    if not args:
        return None
    a = args[0]
    # look through copy construction / std::move
    while True:
        if a.get('k') in ('CXXConstructExpr', 'CXXTemporaryObjectExpr') and len(a.get('c') or []) == 1 and is_lit_vector_type(a['c'][0].get('t')) and a['c'][0].get('k') != 'InitListExpr':
            a = a['c'][0]
            continue
        if a.get('k') == 'CallExpr' and a.get('callee_name') == 'std::move':
            a = a['c'][1]
            continue
        break
    if a.get('k') == 'InitListExpr':
        return [('one', canon(x, env, subst=vb.subst)) for x in a.get('c') or ()]
    if a.get('k') in ('CXXConstructExpr', 'CXXTemporaryObjectExpr'):
        c = [x for x in (a.get('c') or []) if x.get('k') != 'CXXDefaultArgExpr']
        if len(c) == 1 and c[0].get('k') == 'InitListExpr':
            return [('one', canon(x, env, subst=vb.subst)) for x in c[0].get('c') or ()]
        if not c:
            return []
        return None
    if a.get('k') == 'DeclRefExpr':
        s = vb.summary(a)
        if s is None and a.get('refk') == 'ParmVar':
            return [('all', canon(a, env, subst=False))]
        if s is None:
            return None
        # contexts shared by the call itself are not part of the schema
        common = {id(x) for x in fn.ancestors(call)}
        out = []
        for it in s:
            if it[0] == 'ctx':
                cs = tuple(c for c in it[1] if c[3] not in common)
                out.append(('ctx', cs, it[2]) if cs else ('one', it[2]))
            else:
                out.append(it)
        return out
    if a.get('k') == 'MemberExpr':
        return [('all', canon(a, env, subst=vb.subst))]
    return None


def fmt_items(items):
    if items is None:
        return '<unrecognised>'
    out = []
    for it in items:
        if it[0] == 'one':
            out.append(show(it[1]))
        elif it[0] == 'all':
            out.append('all(%s)' % show(it[1]))
        else:
            ctx = ' '.join('%s %s%s' % (c[0], show(c[1]) if c[1] is not None else '', '' if c[2] in (None, True) else (' [else]' if c[2] is False else ' as ' + str(c[2]))) for c in it[1])
            out.append('[%s: %s]' % (ctx, show(it[2])))
    return '{' + ', '.join(out) + '}'
