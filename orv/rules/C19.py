"""C19 - the executor dispatches the plan in time order and keeps it valid (DESIGN 4, C19): path rules over executor::tick & co.

R1  time advances exactly once per tick(), outside every loop, after the pulse loop.
R2  within the pulse loop `starting` precedes `start` and `ending` precedes `end`.
R3  delays (conditional constant propagation of the local flag): once a delay has been taken in an iteration, neither start / end
    notifications nor the pulse erase are reachable in that iteration; the only way on is propagate() && solve() (else throw) and
    back to the loop head.
R4  the pulse is erased exactly once per iteration, as the last step, and the loop runs while the earliest pulse is due.
R5  error discipline: every failed bound assertion is analysed (swap_conflict + backtrack_analyze_and_backjump, failure throws);
    failure() negates every failed atom and re-solves.
R6  an atom whose time point is a constant cannot be delayed: execution_exception.
R7  build_timelines: active atoms only; starts in the past are not scheduled, ends in the past drop the atom; impulses in both maps.
R8  flaw_created posts {!sigma, !xi, sigma_xi}; propagate re-imposes every stored bound of the active adaptations.
"""
from ..expr import LocalEnv, canon, show
from ..facts import AnalysisBroken, short, src, walk, walk_nolambda
from ..schema import posted, show_clause
from ..tables import enum_paths, region_of
from .. import cfg

EX = 'ratio::executor::'
LRA_Q = 'smt::lra_theory::'
LST = 'ratio::executor_listener::'


def _within(root, n):
    for m in walk(root):
        if m is n:
            return True
    return False


def tick_rules(ctx, fs):
    f = fs.fn(EX + 'tick')
    env = LocalEnv(f)
    g = cfg.Graph(f)
    wl = [n for n in f.nodes() if n.get('k') == 'WhileStmt' and 'pulses' in show(canon(n['slots']['cond'], env, subst=False))]
    if len(wl) != 1:
        raise AnalysisBroken('%s: pulse loop not found' % f.id)
    loop = wl[0]
    head = {n for n in g.nodes if g.tree(n) is not None and _within(loop['slots']['cond'], g.tree(n))}
    ev = lambda name: g.events(lambda t: t.get('callee_name') == name)
    STARTING, ENDING, START, END = ev(LST + 'starting'), ev(LST + 'ending'), ev(LST + 'start'), ev(LST + 'end')
    TICKN = ev(LST + 'tick')
    ERASE = g.events(lambda t: t.get('k') == 'CXXMemberCallExpr' and (t.get('callee_name') or '').endswith('::erase') and canon(t['c'][0]['c'][0], env, subst=False) == EX + 'pulses')
    TIME = g.events(lambda t: t.get('k') in ('CXXOperatorCallExpr', 'CompoundAssignOperator') and t.get('op') in ('+=', '=', '-=') and canon(t['c'][1] if t['k'] == 'CXXOperatorCallExpr' else t['c'][0], env, subst=False) == EX + 'current_time')
    # restarting the iteration on the same pulse: `goto` to a label in front of the loop, or `continue` of the pulse loop itself
    GOTO = {(bid, None) for bid, b in g.blocks.items() if b.get('termk') == 'GotoStmt'}
    for bid, b in g.blocks.items():
        if b.get('termk') == 'ContinueStmt':
            tn = f.node(b['term']) if b.get('term') is not None else None
            if tn is not None and next((a for a in f.ancestors(tn) if a.get('k') in ('WhileStmt', 'ForStmt', 'DoStmt', 'CXXForRangeStmt')), None) is loop:
                GOTO.add((bid, None))
    PROP = ev('smt::sat_core::propagate')
    SOLVE = ev('ratio::solver::solve')

    # ---- product analysis: delay flag, correlated map look-ups, announcement markers (reset at every new iteration)
    flag = None
    for d, nd in env.decls.items():
        if nd.get('t') == 'bool' and isinstance(nd.get('init'), dict) and nd['init'].get('k') == 'CXXBoolLiteralExpr' and _within(loop, nd):
            flag = nd
    if flag is None:
        raise AnalysisBroken('%s: local delay flag not found' % f.id)

    def effect(t):
        if t.get('k') == 'DeclStmt' and any(d is flag for d in t.get('c') or ()):
            return {'delay': bool(flag['init'].get('val'))}
        if t.get('k') == 'BinaryOperator' and t.get('op') == '=' and t['c'][0].get('k') == 'DeclRefExpr' and t['c'][0].get('dloc') == flag['loc']:
            v = t['c'][1]
            return {'delay': bool(v.get('val')) if v.get('k') == 'CXXBoolLiteralExpr' else 'top'}
        nm = t.get('callee_name')
        if t.get('k') == 'CXXForRangeStmt' and canon(t['slots']['range'], env, subst=False) == EX + 'listeners':
            # the announcement loop: reached = announced to every listener there is (an empty listener list has nobody to start either)
            inner = {m.get('callee_name') for m in walk(t['slots']['body'])}
            if LST + 'starting' in inner:
                return {'seen_starting': True}
            if LST + 'ending' in inner:
                return {'seen_ending': True}
        if nm == 'smt::sat_core::propagate':
            return {'prop': True}
        if nm == 'ratio::solver::solve':
            return {'solve': True}
        return None

    def branch(c):
        if c is None:
            return None
        if c.get('k') == 'DeclRefExpr' and c.get('dloc') == flag['loc']:
            return 'delay'
        s_ = show(canon(c, env))
        if (s_.startswith('(!= ') and 'find' in s_ or s_.startswith('(mcall ') and '::count ' in s_.split(')')[0] + ' ') and 'pulses' in s_:     # `find(k) != end()` is canonically `count(k)`
            if 'executor::s_atms' in s_ and 'executor::e_atms' not in s_:
                return 'C_s'
            if 'executor::e_atms' in s_ and 'executor::s_atms' not in s_:
                return 'C_e'
        return None

    def reset(t):
        if _within(loop['slots']['cond'], t) or t.get('k') in ('LabelStmt', 'GotoStmt'):
            return ('C_s', 'C_e', 'seen_starting', 'seen_ending', 'prop', 'solve')
        return ()
    P = cfg.Product(g, effect, branch, reset)

    # ---- R1
    rid = 'C19.R1'
    ctx.rule(rid, 'executor::tick: `current_time += units_per_tick` exactly once on every normal entry->exit path, in no cycle, after the pulse loop; listeners told the new time afterwards', floor=2)
    cnt = g.count(TIME, normal=True)
    adv = [canon(g.tree(n), env, subst=False) for n in TIME]
    in_loop = [n for n in TIME if _within(loop, g.tree(n))]
    ctx.instance(rid, [f.id, 'advance'], {'time_updates_on_normal_paths (min,max)': cnt, 'updates': [show(a) for a in adv], 'inside_pulse_loop': len(in_loop)})
    if cnt != (1, 1) or in_loop or adv != [('+=', EX + 'current_time', EX + 'units_per_tick')]:
        ctx.finding(rid, f.id, 'advance', 'executor::tick must advance the current time by exactly one tick unit, once per call and outside the pulse loop (found %s on paths, %s)' % (cnt, [show(a) for a in adv]),
                    node=g.tree(sorted(TIME)[0]) if TIME else None, loc=f.loc, expect='current_time += units_per_tick; after the loop')
    okn = bool(TICKN) and g.always_before(TIME, TICKN)
    ctx.instance(rid, [f.id, 'notify'], {'tick_notified_after_advance': okn})
    if not okn:
        ctx.finding(rid, f.id, 'notify', 'executor::tick must notify the new time after advancing it', loc=f.loc)

    # ---- R2
    rid = 'C19.R2'
    ctx.rule(rid, 'executor::tick: in every iteration of the pulse loop `starting` is announced before `start` and `ending` before `end` (same look-up of the pulse in s_atms / e_atms, correlated); start precedes end', floor=3)
    for evs, key, na, nb in ((START, 'seen_starting', 'starting', 'start'), (END, 'seen_ending', 'ending', 'end')):
        bad = [n for n, st in P.states_at(evs) if st.get(key) is not True]
        ctx.instance(rid, [f.id, na + '<' + nb], {'notifications': len(evs), 'reachable_without_announcement': len(bad)})
        if not evs or bad:
            ctx.finding(rid, f.id, na + '<' + nb, 'executor::tick notifies `%s` on a path of the iteration that has not announced `%s`: the client could not ask for a delay' % (nb, na),
                        node=g.tree(bad[0]) if bad else None, loc=f.loc)
    bad = False
    for n in END:
        for s_ in g.succ.get(n, ()):
            if g.reach(s_, avoid=frozenset(head)) & START:
                bad = True
    ctx.instance(rid, [f.id, 'start<end'], {'end_before_start_in_one_iteration': bad})
    if bad:
        ctx.finding(rid, f.id, 'start<end', 'executor::tick can notify `end` before `start` within one pulse', loc=f.loc)

    # ---- R3
    rid = 'C19.R3'
    ctx.rule(rid, 'executor::tick, conditional constant propagation of the local delay flag: with the flag set, start / end notifications and pulses.erase are unreachable; the iteration is only restarted (goto) after '
                  'propagate() and solve(), whose failure throws', floor=7)
    for name, evs in (('start', START), ('end', END), ('erase', ERASE)):
        bad = sorted(n for n, st in P.states_at(evs) if st.get('delay') in (True, 'top'))
        ctx.instance(rid, [f.id, 'no-' + name], {'reachable_with_delay_flag_set': len(bad)})
        if bad:
            ctx.finding(rid, f.id, 'no-' + name, 'executor::tick: `%s` is reachable in an iteration in which an atom was delayed: the delayed atom is %s' % (
                src(g.tree(bad[0])), 'started / ended anyway' if name != 'erase' else 'dropped from the agenda'), node=g.tree(bad[0]), expect='after a delay: propagate, re-solve, start the iteration again')
    flagtest = set()
    for bid, b in g.blocks.items():
        tn = f.node(b['term']) if b.get('term') is not None else None
        if tn is not None and tn.get('k') == 'IfStmt' and tn['slots']['cond'].get('k') == 'DeclRefExpr' and tn['slots']['cond'].get('dloc') == flag['loc']:
            flagtest.add((bid, None))
    for name, evs in (('start', START), ('end', END), ('erase', ERASE)):
        # within one iteration: from the loop condition, the notification is only reachable through the test of the flag
        okb = bool(flagtest) and all(not (g.reach(h2, avoid=frozenset(flagtest)) & evs) for h in head for h2 in g.succ.get(h, ()) if h2 not in head)
        ctx.instance(rid, [f.id, 'after-requests:' + name], {'only_after_the_delay_requests_were_examined': okb})
        if not okb:
            ctx.finding(rid, f.id, 'after-requests:' + name, 'executor::tick: `%s` can happen in an iteration before the delay requests of that pulse have been examined' % name, loc=f.loc,
                        expect='collect the delays, test the flag, only then start / end / erase')
    gst = P.states_at(GOTO)
    okg = bool(gst) and all(st.get('prop') is True and st.get('solve') is True and st.get('delay') is True for _, st in gst)
    # the failure of either call throws: whatever the test is spelled like (one `||` condition, two ifs), the statements run when it fails contain a throw
    from ..schema import failure_block
    chk = bool(PROP | SOLVE)
    for n in PROP | SOLVE:
        t = g.tree(n)
        if not _within(loop, t):
            continue
        fb = failure_block(f, t)
        if fb is None or not any(m.get('k') == 'CXXThrowExpr' for m in walk(fb[0])):
            chk = False
    sets_true = [n for n in g.nodes if g.tree(n) is not None and (effect(g.tree(n)) or {}).get('delay') is True]
    ctx.instance(rid, [f.id, 'replan'], {'delay_sites': len(sets_true), 'restart_only_after_propagate_and_solve': okg, 'failure_throws': chk})
    if not okg or not chk or len(sets_true) < 2:
        ctx.finding(rid, f.id, 'replan', 'executor::tick: after a delay the plan must be propagated and re-solved (failure -> execution_exception) before the pulse is examined again', loc=f.loc)
    # a delayed atom is removed from the request set and flagged, in both loops
    for which in ('dont_start', 'dont_end'):
        er = [n for n in f.nodes() if n.get('k') == 'CXXMemberCallExpr' and (n.get('callee_name') or '').endswith('::erase') and canon(n['c'][0]['c'][0], env, subst=False) == EX + which]
        ctx.instance(rid, [f.id, which], {'request_consumed': len(er)})
        if len(er) != 1:
            ctx.finding(rid, f.id, which, 'executor::tick must consume each delay request of %s exactly once' % which, loc=f.loc)

    # ---- R4
    rid = 'C19.R4'
    ctx.rule(rid, 'executor::tick: the loop runs while the earliest pulse is due (!pulses.empty() && *pulses.cbegin() <= current_time); pulses.erase(pulses.cbegin()) is the last statement of the body, the only erase, '
                  'and follows the notifications', floor=2)
    cond = canon(loop['slots']['cond'], env, subst=False)
    want = ('&&', ('!', ('mcall', 'std::set<smt::inf_rational>::empty', EX + 'pulses')), ('<=', ('mcall', 'std::set<smt::inf_rational>::cbegin', EX + 'pulses'), EX + 'current_time'))
    want = (want[0],) + tuple(sorted(want[1:], key=repr))
    ctx.instance(rid, [f.id, 'guard'], {'loop_guard': show(cond)})
    if cond != want:
        ctx.finding(rid, f.id, 'guard', 'executor::tick must process exactly the pulses that are due: while (!pulses.empty() && *pulses.cbegin() <= current_time); found %s' % show(cond), node=loop['slots']['cond'])
    body = loop['slots']['body']
    last = (body.get('c') or [None])[-1]
    okl = last is not None and any(g.tree(n) is last for n in ERASE) and len(ERASE) == 1 and canon(last, env, subst=False)[-1] == ('mcall', 'std::set<smt::inf_rational>::cbegin', EX + 'pulses')
    ctx.instance(rid, [f.id, 'erase'], {'erase_calls': len(ERASE), 'erase_is_last_statement_of_the_iteration': okl})
    if not okl:
        ctx.finding(rid, f.id, 'erase', 'executor::tick must drop the processed pulse exactly once, as the last step of the iteration (after start / end)', node=last or loop)
    return f, g


def r5(ctx, fs):
    rid = 'C19.R5'
    ctx.rule(rid, 'executor: every lra_theory::set / set_lb / set_ub whose failure is handled locally is followed by swap_conflict(lra) and backtrack_analyze_and_backjump(), whose failure throws execution_exception; '
                  'propagate_bounds reports the failure to its caller after swap_conflict; failure(atoms) pushes lit(sigma,false) of every atom and throws unless back-jump and solve() succeed', floor=8)
    # what the executor freezes with: set(x, v, p) imposes BOTH bounds (it fails as soon as one of them does), set_lb / set_ub the bound of their name
    LRA = 'smt::lra_theory::'
    want = {'set': ('&&', ('mcall', LRA + 'set_lb', 'this', '$p0', '$p1', '$p2'), ('mcall', LRA + 'set_ub', 'this', '$p0', '$p1', '$p2')),
            'set_lb': ('mcall', LRA + 'assert_lower', 'this', '$p0', '$p1', '$p2'), 'set_ub': ('mcall', LRA + 'assert_upper', 'this', '$p0', '$p1', '$p2')}
    for nm, w in want.items():
        g = fs.fn(LRA + nm)
        genv = LocalEnv(g)
        genv.param_roles(['$p0', '$p1', '$p2'])
        rets = [canon(r['c'][0], genv, subst=False) for r in g.nodes() if r.get('k') == 'ReturnStmt' and r.get('c')]
        okb = len(rets) == 1 and rets[0] == w
        ctx.instance(rid, [g.id, 'bound-setter'], {'function': g.id, 'returns': [show(r) for r in rets], 'ok': okb})
        if not okb:
            ctx.finding(rid, g.id, 'bound-setter', 'lra_theory::%s must be %s (found %s): the executor freezes started / ended atoms with it, a bound that is not imposed lets an executed atom move' % (
                nm, show(w), [show(r) for r in rets]), loc=g.loc, expect=show(w))
    for f in fs.defined():
        if f.get('class') != 'ratio::executor':
            continue
        env = LocalEnv(f)
        for n in f.nodes():
            if n.get('callee_name') not in ('smt::lra_theory::set', 'smt::lra_theory::set_lb', 'smt::lra_theory::set_ub'):
                continue
            # decided on the paths of the enclosing region, on atomic decisions: the call is tested (it is a decision of the path), and every path on which it
            # failed takes the conflict over (swap_conflict) and - propagate_bounds: answers false; elsewhere: analyses it, throwing when that fails
            region = region_of(f, n)
            try:
                ps = enum_paths(region)
            except AnalysisBroken:
                ps = []
            failing = [p for p in ps if any(c[0] == 'if' and c[1] is n and c[2] is False for c in p.conds)]
            okc = bool(failing) and any(c[0] == 'if' and c[1] is n and c[2] is True for p in ps for c in p.conds)
            handled = bool(failing)
            for p in failing:
                names = [m.get('callee_name') for st in p.stmts if not st.get('as') for m in walk(st) if m.get('callee_name')]
                swap = 'smt::theory::swap_conflict' in names
                if f.name.endswith('propagate_bounds'):
                    ok1 = swap and p.end == 'return' and p.endnode.get('c') and canon(p.endnode['c'][0], env) == 'false'
                else:
                    after = False
                    bj = None
                    for c in p.conds:
                        if c[0] == 'if' and c[1] is n:
                            after = True
                        elif after and c[0] == 'if' and c[1].get('callee_name') == 'smt::theory::backtrack_analyze_and_backjump':
                            bj = c[2]
                            break
                    ok1 = swap and bj is not None and (bj is True or p.end == 'throw')
                handled = handled and bool(ok1)
            ctx.instance(rid, [f.id, n.get('callee_name'), short(n.get('loc'))], {'function': f.id, 'call': src(n)[:120], 'failure_tested': okc, 'conflict_swapped_and_analysed': handled})
            if not okc or not handled:
                ctx.finding(rid, f.id, 'bound:' + _ctx(f, n), '%s: a failed %s must be tested, the conflict taken over from the LRA theory (swap_conflict) and analysed (backtrack_analyze_and_backjump, failure -> execution_exception)' % (
                    f.name, n.get('callee_name').rsplit('::', 1)[-1]), node=n)
    f = fs.fn(EX + 'failure')
    env = LocalEnv(f)
    env.param_roles(['atoms'])
    okp = False
    for n in f.nodes():
        if n.get('k') == 'CXXForRangeStmt' and canon(n['slots']['range'], env, subst=False) == 'atoms':
            v = n['slots']['var'].get('name')
            ps = [canon(m, env, subst=False) for m in walk(n['slots']['body']) if m.get('k') == 'CXXMemberCallExpr' and (m.get('callee_name') or '').endswith('::push_back')]
            cond = any(m.get('k') in ('IfStmt', 'ContinueStmt', 'BreakStmt') for m in walk(n['slots']['body']))
            okp = len(ps) == 1 and ps[0][2] == 'smt::theory::cnfl' and ps[0][3] == ('!', ('lit', ('mcall', 'ratio::atom::get_sigma', v))) and not cond
    # decided on the atomic decisions of the paths: throw iff the back-jump fails or (it succeeds and) the re-solve fails; solve() only after a successful back-jump
    okt = True
    seen = set()
    for p in enum_paths(f.body):
        B = S = None
        for kind, node, pol in p.conds:
            if kind != 'if':
                continue
            c = canon(node, env, subst=False)
            if isinstance(c, tuple) and c[:2] == ('mcall', 'smt::theory::backtrack_analyze_and_backjump'):
                B = pol
            elif isinstance(c, tuple) and c[:2] == ('mcall', 'ratio::solver::solve'):
                if B is not True:
                    okt = False         # re-solving without (or before) a successful back-jump
                S = pol
        seen.add((B, S))
        want_throw = (B is False) or (B is True and S is False)
        if (p.end == 'throw') != want_throw or B is None:
            okt = False
    okt = okt and seen == {(False, None), (True, False), (True, True)}
    ctx.instance(rid, [f.id, 'failure'], {'every_failed_atom_negated': okp, 'backjump_and_resolve_or_throw': okt})
    if not okp or not okt:
        ctx.finding(rid, f.id, 'failure', 'executor::failure must exclude every failed atom (lit(sigma, false)) and throw unless the conflict can be analysed and the problem re-solved', loc=f.loc)


def _disj(t):
    if isinstance(t, tuple) and t and t[0] == '||':
        for x in t[1:]:
            yield from _disj(x)
    else:
        yield t


def _ctx(f, n):
    names = []
    for a in f.ancestors(n):
        if a.get('k') == 'IfStmt' and a['slots'].get('init') is not None:
            for d in a['slots']['init'].get('c') or ():
                if d.get('k') == 'VarDecl':
                    names.append(d['name'])
    return '/'.join(reversed(names[:2])) or 'body'


def r6(ctx, fs, f):
    rid = 'C19.R6'
    ctx.rule(rid, 'executor::tick: in both delay loops (dont_start / dont_end) a time point without variables cannot be moved: execution_exception is thrown before anything is changed', floor=2)
    env = LocalEnv(f)
    n_ok = 0
    for n in f.nodes():
        if n.get('k') == 'IfStmt' and n['slots'].get('init') is not None and any(x in show(canon(n['slots']['init'], env, subst=False)) for x in ('dont_start', 'dont_end')):
            which = 'dont_start' if 'dont_start' in show(canon(n['slots']['init'], env, subst=False)) else 'dont_end'
            body = n['slots']['then']
            stmts = body.get('c') or []
            # decided on the paths of the block: a path that has seen `vars.empty()` hold throws and has done nothing but compute locals before; a path
            # that changes anything has seen it fail
            def local_only(st):
                if st.get('k') == 'DeclStmt' or st.get('as'):
                    return True
                if st.get('k') in ('BinaryOperator', 'CXXOperatorCallExpr') and st.get('op') == '=':
                    c0 = st['c'][0] if st['k'] == 'BinaryOperator' else (st['c'][1] if len(st.get('c') or ()) > 1 else None)
                    return isinstance(c0, dict) and c0.get('k') == 'DeclRefExpr' and bool(c0.get('local')) and c0.get('refk') == 'Var' and c0.get('ref') != flag_name
                return st.get('k') == 'CXXThrowExpr'
            flag_name = None
            ok = True
            thrown = False
            for p in enum_paths(body):
                e = None
                for c in p.conds:
                    if c[0] == 'if':
                        t = show(canon(c[1], env, subst=False))
                        if 'vars' in t and '::empty' in t:
                            e = c[2]
                            break
                if e is True:
                    thrown = thrown or p.end == 'throw'
                    if p.end != 'throw' or not all(local_only(st) for st in p.stmts):
                        ok = False
                elif e is None and not all(local_only(st) for st in p.stmts):
                    ok = False
            ok = ok and thrown
            ctx.instance(rid, [f.id, which], {'loop': which, 'constant_time_point_rejected_first': ok})
            n_ok += 1
            if not ok:
                ctx.finding(rid, f.id, which, 'executor::tick: delaying an atom whose time point is a constant must throw execution_exception before any bound is changed (%s loop)' % which, node=n)
    if n_ok != 2:
        raise AnalysisBroken('%s: the two delay loops were not found' % f.id)


def r7(ctx, fs):
    rid = 'C19.R7'
    ctx.rule(rid, 'executor::build_timelines: only atoms with sigma == True of the relevant predicates; impulse: skipped when at < current_time, else in both maps; interval: skipped when end < current_time, '
                  'start scheduled only when start >= current_time, end always', floor=5)
    f = fs.fn(EX + 'build_timelines')
    env = LocalEnv(f)
    CT = 'ratio::executor::current_time'
    loops = [n for n in f.nodes() if n.get('k') == 'CXXForRangeStmt' and any((m.get('callee_name') or '').endswith('::insert') for m in walk(n['slots']['body']))]
    if not loops:
        raise AnalysisBroken('%s: the loop over the atoms was not found' % f.id)
    loop = loops[-1] if len(loops) == 1 else sorted(loops, key=lambda n: -len(list(walk(n))))[-1]
    # innermost loop that contains all the inserts
    loop = [l for l in loops if sum(1 for m in walk(l['slots']['body']) if (m.get('callee_name') or '').endswith('::insert')) ==
            max(sum(1 for m in walk(x['slots']['body']) if (m.get('callee_name') or '').endswith('::insert')) for x in loops)][-1]
    facts = {'active atoms only': True, 'past impulses skipped': True, 'past intervals skipped (end < now)': True, 'start scheduled only if not in the past': True,
             'impulse in both maps, interval end always scheduled': True}
    n_ins_paths = 0
    seen_kinds = set()
    for p in enum_paths(loop['slots']['body']):
        A = {}
        for kind, node, pol in p.conds:
            if kind != 'if':
                continue
            c = canon(node, env)
            sc = show(c)
            if isinstance(c, tuple) and c[0] in ('==', '!=') and 'True' in sc and 'get_sigma' in sc and 'sat_core::value' in sc:
                A['act'] = (c[0] == '==') == pol
            elif isinstance(c, tuple) and c[0] == 'mcall' and str(c[1]).endswith('::is_impulse'):
                A['imp'] = pol
            elif isinstance(c, tuple) and c[0] == 'mcall' and str(c[1]).endswith('::is_interval'):
                A['int'] = pol
            elif isinstance(c, tuple) and c[0] in ('<', '<=') and len(c) == 3 and CT in (c[1], c[2]):
                other = c[2] if c[1] == CT else c[1]
                so = show(other)
                which = 'at' if "'at'" in so else ('end' if "'end'" in so else ('start' if "'start'" in so else None))
                if which is None:
                    continue
                # value REL now, as "value < now" (past) true/false
                if c[1] == CT:      # now < v  /  now <= v
                    past = (not pol) if c[0] == '<=' else None      # now <= v  false  ->  v < now
                    notpast = pol if c[0] == '<=' else None
                else:               # v < now / v <= now
                    past = pol if c[0] == '<' else None
                    notpast = (not pol) if c[0] == '<' else None
                if past is True:
                    A[which + '_past'] = True
                elif past is False or notpast is True:
                    A[which + '_past'] = False
        ins = [show(canon(m, env)) for st in p.stmts for m in walk(st) if m.get('k') == 'CXXMemberCallExpr' and (m.get('callee_name') or '').endswith('::insert')]
        S = sum(1 for x in ins if 'executor::s_atms' in x)
        E = sum(1 for x in ins if 'executor::e_atms' in x)
        if ins:
            n_ins_paths += 1
            if A.get('act') is not True:
                facts['active atoms only'] = False
        if A.get('at_past') is True and ins:
            facts['past impulses skipped'] = False
        if A.get('end_past') is True and ins:
            facts['past intervals skipped (end < now)'] = False
        if any('executor::s_atms' in x and "'start'" in x for x in ins) and A.get('start_past') is not False:
            facts['start scheduled only if not in the past'] = False
        if A.get('act') is True and A.get('imp') is True and A.get('at_past') is False:
            seen_kinds.add('imp')
            if not (S == 1 and E == 1):
                facts['impulse in both maps, interval end always scheduled'] = False
        if A.get('act') is True and A.get('imp') is False and A.get('int', True) is True and A.get('end_past') is False:
            seen_kinds.add('int')
            if E != 1 or S != (1 if A.get('start_past') is False else 0):
                facts['impulse in both maps, interval end always scheduled'] = False
    if n_ins_paths == 0 or seen_kinds != {'imp', 'int'}:
        facts['impulse in both maps, interval end always scheduled'] = False
    for k, v in facts.items():
        ctx.instance(rid, [f.id, k], {'fact': k, 'holds': v})
        if not v:
            ctx.finding(rid, f.id, k, 'executor::build_timelines: "%s" does not hold' % k, loc=f.loc)


def r8(ctx, fs):
    rid = 'C19.R8'
    ctx.rule(rid, 'executor::flaw_created: for every atom flaw a fresh sigma_xi with the clause {!sigma, !xi, sigma_xi}, sigma bound to the executor; executor::propagate(xi) re-imposes every stored bound of every active adaptation, '
                  'propagate(sigma) those of the activated atom, reporting failure', floor=2)
    f = fs.fn(EX + 'flaw_created')
    env = LocalEnv(f, fs)
    _, cl = posted(fs, f, env=env)
    got = [c for c, _, _ in cl]
    ok = len(got) == 1 and got[0][0] == () and len(got[0][1]) == 3 and ('!', EX + 'xi') in got[0][1] and any(isinstance(l, tuple) and l[0] == '!' and l[1][0] == 'lit' and 'sigma' in show(l) for l in got[0][1]) and \
        any(isinstance(l, tuple) and l[0] == 'lit' and ('sat_core::new_var' in show(l) or any('sat_core::new_var' in show(canon(d['init'], env, subst=False)) and show(l) == '(lit %s)' % d['name'] for d in f.nodes() if d.get('k') == 'VarDecl' and isinstance(d.get('init'), dict))) for l in got[0][1])      # sigma_xi is a fresh variable
    binds = [canon(n, env, subst=False) for n in f.nodes() if n.get('callee_name') == 'smt::theory::bind']
    ctx.instance(rid, [f.id, 'clause'], {'posted': [show_clause(c) for c in got], 'binds': [show(b) for b in binds]})
    if not ok or len(binds) != 1:
        ctx.finding(rid, f.id, 'clause', 'executor::flaw_created must post {!sigma, !xi, sigma_xi} and bind sigma (found %s)' % [show_clause(c) for c in got], loc=f.loc)
    f = fs.fn(EX + 'propagate', params=['lit'])
    env = LocalEnv(f)
    env.param_roles(['p'])
    calls = [n for n in f.nodes() if n.get('callee_name') == EX + 'propagate_bounds']
    okc = len(calls) == 2
    for n in calls:
        iff = None
        for a in f.ancestors(n):
            if a.get('k') == 'IfStmt' and _within(a['slots']['cond'], n):
                iff = a
                break
        rets = [canon(r['c'][0], env) for r in walk(iff['slots']['then']) if r.get('k') == 'ReturnStmt'] if iff is not None else []
        if rets != ['false']:
            okc = False
    loops = [show(canon(n['slots']['range'], env, subst=False)) for n in f.nodes() if n.get('k') == 'CXXForRangeStmt']
    ctx.instance(rid, [f.id, 're-impose'], {'propagate_bounds_calls': len(calls), 'failures_reported': okc, 'loops': loops})
    if not okc or not any('adaptations' in l for l in loops) or sum(1 for l in loops if l.endswith('bounds)')) != 2:
        ctx.finding(rid, f.id, 're-impose', 'executor::propagate must re-impose every stored bound (all adaptations when xi becomes true, the atom\'s own when it is activated) and report a failing one', loc=f.loc)


# solution_found: accepted, reasoned exception to C01.R4 / C19.R5
SOLUTION_FOUND_NOTE = ('executor::solution_found ignores the result of its nested slv.solve(): that call is only reached when xi is still undefined after take_decision(xi) - a failed nested solve() has already '
                       'notified inconsistent_problem(), which clears the timelines; no input reaching it with a wrong outcome is known')


def r9(ctx, fs, f):
    """what propagate_bounds re-imposes after a back-jump is what tick() imposed: the bounds stored in the atom's adaptation equal the bound handed to the LRA theory."""
    rid = 'C19.R9'
    ctx.rule(rid, 'executor::tick: next to every lra_theory::set(x, V, sigma_xi) the adaptation stores [V, V] for that expression, both when the entry is new and when it exists '
                  '(lb = V and ub = V); next to every set_lb(x, L, sigma_xi) it stores lb = L in both cases - so that the bounds re-imposed after back-tracking keep a started / ended atom where it was', floor=5)
    env = LocalEnv(f)
    n_sites = 0
    seen_locs = {}
    for n in f.nodes():
        cn = n.get('callee_name') or ''
        if cn not in ('smt::lra_theory::set', 'smt::lra_theory::set_lb', 'smt::lra_theory::set_ub'):
            continue
        t = canon(n, env, subst=False)
        V = t[4]
        # the enclosing block that also holds the emplace into the adaptation's bounds
        blk = None
        for a in f.ancestors(n):
            if a.get('k') == 'CompoundStmt' and any((m.get('callee_name') or '').endswith('::emplace') and 'bounds' in show(canon(m, env, subst=False)) for m in walk(a)
                                                  if m.get('k') == 'CXXMemberCallExpr'):
                blk = a
                break
        if blk is None:
            raise AnalysisBroken('%s: no adaptation entry is stored next to %s' % (f.id, src(n)))
        news, asg = [], {}
        for m in walk(blk):
            if m.get('k') == 'CXXNewExpr' and (m.get('t') or '').endswith('atom_adaptation::arith_bounds *'):
                c = canon(m, env, subst=False)
                inner = c[2] if isinstance(c, tuple) and len(c) > 2 else None
                if isinstance(inner, tuple) and len(inner) == 4:
                    news.append((inner[2], inner[3]))
            if m.get('k') in ('BinaryOperator', 'CXXOperatorCallExpr') and m.get('op') == '=':
                c = canon(m, env, subst=False)
                if isinstance(c, tuple) and len(c) == 3 and isinstance(c[1], tuple) and c[1][0] == '.' and c[1][2] in ('lb', 'ub') and 'arith_bounds' in show(c[1]):
                    asg.setdefault(c[1][2], []).append(c[2])
        n_sites += 1
        kind = cn.rsplit('::', 1)[-1]
        if kind == 'set':
            ok_new = bool(news) and all(a == V and b == V for a, b in news)
            # an entry that may already exist (emplace(.., nullptr) + added test) must be overwritten on both sides
            exists_branch = any('nullptr' in show(canon(m, env, subst=False)) for m in walk(blk) if m.get('k') == 'CXXMemberCallExpr' and (m.get('callee_name') or '').endswith('::emplace'))
            ok_upd = (not exists_branch) or (asg.get('lb') == [V] and asg.get('ub') == [V])
        elif kind == 'set_lb':
            ok_new = bool(news) and all(a == V for a, b in news)
            ok_upd = asg.get('lb') == [V] and 'ub' not in asg
        else:
            ok_new = bool(news) and all(b == V for a, b in news)
            ok_upd = asg.get('ub') == [V] and 'lb' not in asg
        seen_locs[n.get('loc')] = seen_locs.get(n.get('loc'), 0) + 1        # two inlined copies of one new helper share their source location
        ctx.instance(rid, [f.id, kind, short(n.get('loc')) + ('' if seen_locs[n.get('loc')] == 1 else '#%d' % seen_locs[n.get('loc')])], {'imposed': '%s(.., %s, sigma_xi)' % (kind, show(V)), 'stored_when_new': [[show(a), show(b)] for a, b in news],
                                                             'stored_when_present': {k: [show(x) for x in v] for k, v in asg.items()}, 'ok': ok_new and ok_upd})
        if not (ok_new and ok_upd):
            ctx.finding(rid, f.id, '%s:%s' % (kind, show(V)), 'executor::tick imposes %s(.., %s, ..) but the adaptation kept for re-imposing it after a back-jump stores %s when the entry is new and %s when it '
                        'already exists (an earlier delay): after a failure the bounds re-imposed are not the ones the atom was started / ended / delayed with, so something already executed can move' % (
                            kind, show(V), [[show(a), show(b)] for a, b in news], {k: [show(x) for x in v] for k, v in asg.items()}), node=n)
    if n_sites < 5:
        raise AnalysisBroken('%s: fewer than five bound impositions found (%d)' % (f.id, n_sites))


def r10(ctx, fs):
    """propagate_bounds re-imposes BOTH ends of a stored arithmetic interval: a value frozen as [v, v] must not come back as [v, +inf) after a back-jump."""
    rid = 'C19.R10'
    ctx.rule(rid, 'executor::propagate_bounds: on every path that answers true, the stored lower bound of an arithmetic item is handed to lra_theory::set_lb exactly when its stored upper bound is handed to '
                  'lra_theory::set_ub - same variable, same stored interval, same reason - and at least one such path exists (decided on the calls evaluated along each path, whether they sit in a '
                  'condition or in a statement)', floor=2)
    g = fs.fn(EX + 'propagate_bounds')
    env = LocalEnv(g)

    def calls_of(node):
        out = []
        for m in walk(node):
            cn = m.get('callee_name') or ''
            if cn in (LRA_Q + 'set_lb', LRA_Q + 'set_ub', LRA_Q + 'set'):
                out.append(m)
        return out
    n_true = n_both = 0
    any_call = False
    for p in enum_paths(g.body):
        lbs, ubs = set(), set()
        unknown = False
        for kind, item in p.seq:
            node = item[1] if kind == 'c' else item
            if not isinstance(node, dict):
                continue
            if kind == 's' and node.get('k') in ('IfStmt', 'ForStmt', 'WhileStmt', 'CXXForRangeStmt', 'SwitchStmt', 'DoStmt', 'CompoundStmt'):
                continue            # structured statements are represented by their decisions and leaves
            for m in calls_of(node):
                any_call = True
                if kind == 'c' and item[2] is not True and m is node:
                    continue        # this call failed on the path
                c = canon(m, env)
                cn = m['callee_name'].rsplit('::', 1)[-1]
                if not (isinstance(c, tuple) and len(c) == 6):
                    unknown = True
                    continue
                var, val, why = c[3], c[4], c[5]
                if cn == 'set':
                    lbs.add((var, ('both', val), why)); ubs.add((var, ('both', val), why))
                    continue
                if not (isinstance(val, tuple) and val[0] == '.' and val[2] in ('lb', 'ub')):
                    unknown = True
                    continue
                if (cn == 'set_lb') != (val[2] == 'lb'):
                    ctx.finding(rid, g.id, 'crossed', 'executor::propagate_bounds hands the stored %s to %s' % (val[2], cn), node=m)
                (lbs if cn == 'set_lb' else ubs).add((var, val[1], why))
        if p.end != 'return' or p.endnode is None or canon((p.endnode.get('c') or [None])[0], env) != 'true':
            continue
        if unknown:
            raise AnalysisBroken('%s: a bound is imposed in a form the rule does not read' % g.id)
        n_true += 1
        if lbs or ubs:
            ok = lbs == ubs
            n_both += 1 if ok else 0
            ctx.instance(rid, [g.id, 'true-path', str(n_true)], {'lower': sorted(show(x[1]) for x in lbs), 'upper': sorted(show(x[1]) for x in ubs), 'ok': ok})
            if not ok:
                ctx.finding(rid, g.id, 'one-sided', 'executor::propagate_bounds answers true after re-imposing only one end of a stored interval (lower bounds of %s, upper bounds of %s): after a back-jump '
                            'a value frozen by tick() as [v, v] comes back half-open, so an atom that has started or ended can move and be dispatched again' % (
                                sorted(show(x[1]) for x in lbs), sorted(show(x[1]) for x in ubs)), loc=g.loc)
    if not any_call or (n_both == 0 and n_true == 0):
        raise AnalysisBroken('%s: no lra_theory::set_lb / set_ub / set call found on its paths' % g.id)
    ctx.instance(rid, [g.id, 'summary'], {'paths_answering_true': n_true, 'paths_imposing_both_ends': n_both})


def run(ctx):
    fs = ctx.facts('F')
    f, g = tick_rules(ctx, fs)
    r5(ctx, fs)
    r6(ctx, fs, f)
    r7(ctx, fs)
    r8(ctx, fs)
    r9(ctx, fs, f)
    r10(ctx, fs)
    ctx.note(SOLUTION_FOUND_NOTE)
    # planned times are inf_rational values compared with the rational current time (`*pulses.cbegin() <= current_time`): the comparison operators are decided by C15
    ctx.include('C15')
