"""C12 - difference-logic relation literals and expression queries (DESIGN 4, C12).

R1  every return cell of new_lt/new_leq/new_geq/new_gt/new_eq (IDL and RDL, arity 0/1/2, sign of the
    leading coefficient) against the table *derived algebraically* from  c*x + k ~ 0.
R2  IDL <-> RDL sibling agreement of the expression / variable queries.
R3  one-variable arm of bounds(lin) takes the sign of the coefficient into account.
"""
from ..expr import LocalEnv, canon, show
from ..facts import AnalysisBroken, short, src, walk
from ..tables import enum_paths, path_literals, eq_test, norm_literal
from .. import sib_dl, dual

RELS = {'new_lt': '<', 'new_leq': '<=', 'new_geq': '>=', 'new_gt': '>'}
FLIP = {'<': '>', '<=': '>=', '>=': '<=', '>': '<', '==': '=='}


def expected(rel, neg):
    """(from, to, kcoef, dcoef): the distance constraint  to - from <= kcoef*K + dcoef*delta  equivalent to
    e0 - e1 + K rel' 0 where rel' is rel flipped when the division was by a negative coefficient."""
    r = FLIP[rel] if neg else rel
    return {'<': ('e1', 'e0', -1, -1), '<=': ('e1', 'e0', -1, 0), '>=': ('e0', 'e1', 1, 0), '>': ('e0', 'e1', 1, -1)}[r]


class Arm:
    """symbolic reading of one return path of a relation builder."""

    def __init__(self, f, env, p):
        self.f, self.env, self.p = f, env, p
        self.arity = None
        self.neg = None
        self.normalised = False
        self.bind = {}            # binding name -> ('v'|'c', index)
        self.guards = set()
        self.problems = []
        self._read()

    def _is_first_coef(self, t):
        return isinstance(t, tuple) and len(t) == 3 and t[0] == '.' and t[2] == 'second' and isinstance(t[1], tuple) and \
            t[1][0] == 'mcall' and t[1][1].endswith('::cbegin') and t[1][2] == ('.', 'expr', 'vars')

    def _read(self):
        env = self.env
        cn = lambda n: canon(n, env, subst=False)
        it_idx = None
        # the arity of the path: what its tests of expr.vars.size() against constants say (switch arms, an if chain, early returns - one thing)
        SIZE = lambda t: isinstance(t, tuple) and t[0] == 'mcall' and t[1].endswith('::size') and t[2] == ('.', 'expr', 'vars')
        L = path_literals(self.p, cn)
        EMPTY = lambda t: isinstance(t, tuple) and len(t) == 3 and t[0] == 'mcall' and t[1].endswith('::empty') and t[2] == ('.', 'expr', 'vars')
        for c in L or ():
            if c[0] == 'if' and EMPTY(c[1]):
                # `expr.vars.size() == 0` / case 0 is spelled `expr.vars.empty()`
                if c[2]:
                    self.arity = 0
                elif self.arity is None:
                    self.arity = 'default'
                continue
            if c[0] == 'if':
                ek = eq_test(c[1])
                if ek is not None and SIZE(ek[0]):
                    if c[2]:
                        self.arity = ek[1][1] if isinstance(ek[1], tuple) else ek[1]
                    elif self.arity is None:
                        self.arity = 'default'
            elif c[0] == 'switch' and SIZE(c[1]):
                self.arity = 'multi'
        for c in self.p.conds:
            kind, node, pol = c
            if kind == 'switch':
                continue
            else:
                t = cn(node)
                tt, _pp = norm_literal(t, pol)
                ek = eq_test(tt)
                if (ek is not None and SIZE(ek[0])) or EMPTY(tt):
                    continue            # a test of the arity: read above
                if isinstance(t, tuple) and t[0] in ('<', '<=') and len(t) == 3:
                    a, b = t[1], t[2]
                    if self._is_first_coef(a) and b == 'smt::rational::ZERO':
                        self.neg = pol           # coef < 0 (or <= 0: zero coefficients do not exist in a lin)
                        if self.normalised:
                            self.problems.append('sign of the leading coefficient tested after the normalising division')
                        continue
                    if self._is_first_coef(b) and a == 'smt::rational::ZERO':
                        self.neg = not pol
                        continue
                # guards: conditions that must be false on a returning path
                if pol is False:
                    for g in _disjuncts(t):
                        self.guards.add(g)
                else:
                    # atomic decisions: `t` holds on this path, i.e. the guard `!t` is false
                    self.guards.add(t[1] if isinstance(t, tuple) and len(t) == 2 and t[0] == '!' else ('!', t))
        for s in self.p.stmts:
            if s.get('as'):
                continue
            k = s.get('k')
            if k == 'CXXOperatorCallExpr' and s.get('op') == '=':
                t = cn(s)
                if t[1] == 'expr':
                    rhs = t[2]
                    if isinstance(rhs, tuple) and rhs[0] == '/' and rhs[1] == 'expr' and self._is_first_coef(rhs[2]):
                        self.normalised = True
                    else:
                        self.problems.append('expr re-assigned to something else than expr / leading coefficient: ' + show(rhs))
            elif k in ('UnaryOperator', 'CXXOperatorCallExpr') and s.get('op') == '++' and it_idx is not None and cn(s) in (('++', self.itname), ('post++', self.itname)):
                it_idx += 1         # `++it;` as a statement of its own (`*it++` split in two)
            elif k == 'DeclStmt':
                for d in s.get('c') or ():
                    if d.get('k') != 'VarDecl':
                        continue
                    init = cn(d['init']) if isinstance(d.get('init'), dict) else None
                    if (init and isinstance(init, tuple) and init[0] == 'mcall' and init[1].endswith('::cbegin') and init[2] == ('.', 'expr', 'vars') and not d.get('bindings')):
                        self.itname = d['name']
                        it_idx = 0
                    elif d.get('bindings') and it_idx is not None:
                        b = d['bindings']
                        if init == ('post++', self.itname):
                            self.bind[b[0]] = ('v', it_idx)
                            self.bind[b[1]] = ('c', it_idx)
                            it_idx += 1
                        elif init == self.itname:
                            self.bind[b[0]] = ('v', it_idx)
                            self.bind[b[1]] = ('c', it_idx)
                        else:
                            self.problems.append('unrecognised structured binding initialiser ' + show(init))

    def var(self, t):
        """classify a from/to argument: 'e0' leading variable, 'e1' second variable / the zero variable."""
        if t == ('num', 0):
            return 'e1' if self.arity == 1 else 'zero?'
        if isinstance(t, tuple) and len(t) == 3 and t[0] == '.' and t[2] == 'first' and isinstance(t[1], tuple) and t[1][0] == 'mcall' and \
                t[1][1].endswith('::cbegin') and t[1][2] == ('.', 'expr', 'vars'):
            return 'e0'
        if isinstance(t, str) and t in self.bind and self.bind[t][0] == 'v':
            return 'e%d' % self.bind[t][1]
        return '?' + show(t)

    def affine(self, t):
        """distance argument as (kcoef, dcoef) over K = expr.known_term and the strictness unit; None if not affine."""
        if t == ('.', 'expr', 'known_term'):
            return (1, 0)
        if isinstance(t, tuple):
            h = t[0]
            if h == 'num':
                return (0, t[1])
            if h == 'mcall' and t[1] == 'smt::rational::numerator':
                return self.affine(t[2])
            if h == 'new' and t[1] == 'smt::inf_rational':
                if len(t) == 3:
                    return self.affine(t[2])
                if len(t) == 4 and isinstance(t[3], tuple) and t[3][0] == 'num':
                    a = self.affine(t[2])
                    return None if a is None else (a[0], a[1] + t[3][1])
                return None
            if h == 'neg':
                a = self.affine(t[1])
                return None if a is None else (-a[0], -a[1])
            if h in ('+', '-') and len(t) == 3:
                a, b = self.affine(t[1]), self.affine(t[2])
                if a is None or b is None:
                    return None
                return (a[0] + b[0], a[1] + b[1]) if h == '+' else (a[0] - b[0], a[1] - b[1])
            if h == 'cast':
                return self.affine(t[2])
        return None


def _disjuncts(t):
    if isinstance(t, tuple) and t and t[0] in ('||', '|'):
        for x in t[1:]:
            yield from _disjuncts(x)
    else:
        yield t


def _cell_name(theory, fn, arity, neg):
    return '%s::%s arity %s, leading coefficient %s' % (theory, fn, arity, {True: '< 0', False: '>= 0', None: 'any'}[neg])


def check_distance_call(ctx, rid, f, arm, call_t, rel, neg, theory, fname, node, which=None):
    """call_t: canonical (mcall X::new_distance this from to dist)."""
    disc = 'arity%s/%s%s' % (arm.arity, {True: 'neg', False: 'pos', None: 'any'}[neg], '' if which is None else '/' + which)
    nargs = len(call_t) - 3
    if nargs != 3:
        ctx.finding(rid, f.id, disc, '%s: returns the %d-argument overload of new_distance (a min/max pair), not the single distance constraint of the relation' % (
            _cell_name(theory, fname, arm.arity, neg), nargs), node=node,
            expect='new_distance(%s, %s, %s)' % _fmt_exp(expected(rel, neg)))
        return
    fr, to, d = arm.var(call_t[3]), arm.var(call_t[4]), arm.affine(call_t[5])
    exp = expected(rel, neg)
    got = (fr, to) + (d if d is not None else ('?', '?'))
    if d is None:
        raise AnalysisBroken('%s: distance argument %s is not an affine form over expr.known_term' % (f.id, show(call_t[5])))
    if got != exp:
        ctx.finding(rid, f.id, disc, '%s: builds to-from constraint new_distance(%s, %s, %s) but the algebra of the relation requires new_distance(%s, %s, %s)' % (
            (_cell_name(theory, fname, arm.arity, neg),) + _fmt_exp(got) + _fmt_exp(exp)), node=node,
            expect='new_distance(%s, %s, %s)   [dividing c*x + k %s 0 by c%s]' % (_fmt_exp(exp) + (rel, ', flipping the relation' if neg else '')))


def _fmt_exp(e):
    fr, to, kc, dc = e
    names = {'e0': 'lead', 'e1': 'other/0'}
    k = {1: 'K', -1: '-K', 0: '0'}.get(kc, '%s*K' % kc)
    dd = '' if dc == 0 else (' %s %s*unit' % ('-' if dc < 0 else '+', abs(dc)))
    return (names.get(fr, fr), names.get(to, to), k + dd)


def r1(ctx, fs):
    rid = 'C12.R1'
    ctx.rule(rid, 'every return cell of {idl,rdl}_theory::new_{lt,leq,geq,gt,eq} (arity 0/1/2 x sign of leading coefficient): the distance constraint '
                  'built (from, to, +-K, strictness) equals the one derived algebraically from c*x + k ~ 0; normalising division present and after the sign test; '
                  'the c1 == -1 guard (and integrality guard in IDL) throws; other arities throw', floor=50)
    for theory in ('idl_theory', 'rdl_theory'):
        for fname, rel in list(RELS.items()) + [('new_eq', '==')]:
            f = fs.fn('smt::%s::%s' % (theory, fname), params=['lin', 'lin'])
            env = LocalEnv(f)
            env.param_roles(['left', 'right'])
            env.local_role('expr', lambda n, i: n.get('t') == 'smt::lin' and i == ('-', 'left', 'right'))
            cn = lambda n: canon(n, env, subst=False)
            seen_cells = set()
            for p in enum_paths(f.body):
                arm = Arm(f, env, p)
                if arm.arity is None:
                    raise AnalysisBroken('%s: a path does not go through switch (expr.vars.size())' % f.id)
                if p.end == 'throw':
                    if arm.arity == 'default':
                        ctx.instance(rid, [f.id, 'default'], {'cell': _cell_name(theory, fname, 'other', None), 'result': 'throw'})
                        seen_cells.add('default')
                    continue
                if p.end != 'return':
                    ctx.finding(rid, f.id, 'fall:%s' % arm.arity, '%s: a path leaves the function without returning a literal' % f.id, loc=f.loc)
                    continue
                ret = p.endnode['c'][0]
                t = cn(ret)
                cell = (arm.arity, arm.neg)
                if arm.arity in ('default', 'multi'):
                    ctx.finding(rid, f.id, 'default', '%s: expressions with more than two variables are not rejected' % f.id, node=ret,
                                expect='throw std::invalid_argument')
                    continue
                if arm.arity == 0:
                    seen_cells.add(cell)
                    ctx.instance(rid, [f.id, 'arity0'], {'cell': _cell_name(theory, fname, 0, None), 'result': show(t)})
                    # K rel 0 ? TRUE : FALSE
                    K, Z = ('.', 'expr', 'known_term'), 'smt::rational::ZERO'
                    want = {'<': ('<', K, Z), '<=': ('<=', K, Z), '>=': ('<=', Z, K), '>': ('<', Z, K), '==': ('==',) + tuple(sorted((K, Z), key=repr))}[rel]
                    # the complement of each test, for layouts that branch on the opposite comparison
                    comp = {'<': ('<=', Z, K), '<=': ('<', Z, K), '>=': ('<', K, Z), '>': ('<=', K, Z), '==': ('!=',) + tuple(sorted((K, Z), key=repr))}[rel]
                    ok = isinstance(t, tuple) and t[0] == '?:' and t[2] == 'smt::TRUE_lit' and t[3] == 'smt::FALSE_lit' and t[1] == want
                    if not ok and t in ('smt::TRUE_lit', 'smt::FALSE_lit'):
                        # `return c ? TRUE : FALSE` arrives as two paths with the atomic decision on c (any if / ternary layout)
                        last = [(cn(n2), pol) for kind, n2, pol in p.conds if kind == 'if']
                        if last:
                            c, pol = last[-1]
                            holds = pol if c == want else ((not pol) if c == comp else None)
                            ok = holds is not None and (t == 'smt::TRUE_lit') == holds
                    if not ok:
                        ctx.finding(rid, f.id, 'arity0', '%s: constant case does not fold to (known_term %s 0 ? TRUE : FALSE)' % (f.id, rel), node=ret,
                                    expect='expr.known_term %s rational::ZERO ? TRUE_lit : FALSE_lit' % rel)
                    continue
                if arm.arity not in (1, 2):
                    raise AnalysisBroken('%s: unexpected arity label %r' % (f.id, arm.arity))
                for pr in arm.problems:
                    ctx.finding(rid, f.id, 'arity%s/%s/normalise' % (arm.arity, arm.neg), '%s: %s' % (f.id, pr), node=ret)
                if not arm.normalised:
                    ctx.finding(rid, f.id, 'arity%s/%s/normalise' % (arm.arity, arm.neg),
                                '%s: expression is not divided by its leading coefficient before the distance is read off' % _cell_name(theory, fname, arm.arity, arm.neg),
                                node=ret, expect='expr = expr / expr.vars.cbegin()->second before the return')
                # guards
                if arm.arity == 2:
                    c1 = [n for n, b in arm.bind.items() if b == ('c', 1)]
                    has_guard = any(isinstance(g, tuple) and g[0] == '!=' and set(g[1:]) == {c1[0] if c1 else None, ('neg', 'smt::rational::ONE')} for g in arm.guards)
                    if not has_guard:
                        ctx.finding(rid, f.id, 'arity2/%s/guard' % arm.neg, '%s: a two-variable expression whose second coefficient is not -1 (not a difference) is accepted' %
                                    _cell_name(theory, fname, 2, arm.neg), node=ret, expect='if (c1 != -rational::ONE) throw std::invalid_argument')
                if theory == 'idl_theory':
                    has_int = any(g == ('!', ('call', 'smt::is_integer', ('.', 'expr', 'known_term'))) for g in arm.guards)
                    if not has_int:
                        ctx.finding(rid, f.id, 'arity%s/%s/integer' % (arm.arity, arm.neg), '%s: a non-integer constant is truncated silently by numerator()' %
                                    _cell_name(theory, fname, arm.arity, arm.neg), node=ret, expect='if (!is_integer(expr.known_term)) throw')
                if rel != '==':
                    if arm.neg is None:
                        raise AnalysisBroken('%s: return path of arity %s without a recognisable sign test of the leading coefficient' % (f.id, arm.arity))
                    seen_cells.add(cell)
                    ctx.instance(rid, [f.id, arm.arity, arm.neg], {'cell': _cell_name(theory, fname, arm.arity, arm.neg), 'returns': show(t),
                                                                  'expected': 'new_distance(%s, %s, %s)' % _fmt_exp(expected(rel, arm.neg))})
                    if not (isinstance(t, tuple) and t[0] == 'mcall' and t[1].endswith('::new_distance')):
                        ctx.finding(rid, f.id, 'arity%s/%s' % (arm.arity, arm.neg), '%s: does not return a distance constraint' % _cell_name(theory, fname, arm.arity, arm.neg), node=ret)
                        continue
                    check_distance_call(ctx, rid, f, arm, t, rel, arm.neg, theory, fname, ret)
                else:
                    # new_eq: either FALSE_lit (pre-test failed) or conj of the <= and >= cells; no sign split (neg irrelevant: equality is symmetric)
                    if t == 'smt::FALSE_lit':
                        seen_cells.add((arm.arity, 'false'))
                        # the pre-test must be: distance(e0,e1).first <= K && K <= .second, failing
                        continue
                    seen_cells.add((arm.arity, 'conj'))
                    ctx.instance(rid, [f.id, arm.arity, 'conj'], {'cell': _cell_name(theory, fname, arm.arity, None), 'returns': show(t)})
                    ds = [x for x in _calls(t, '::new_distance')]
                    if not (isinstance(t, tuple) and t[0] == 'mcall' and t[1] == 'smt::sat_core::new_conj') or len(ds) != 2:
                        ctx.finding(rid, f.id, 'arity%s/conj' % arm.arity, '%s: equality is not the conjunction of two distance constraints' % f.id, node=ret,
                                    expect='new_conj({new_distance(lead, other, K), new_distance(other, lead, -K)})')
                        continue
                    got = set()
                    for dcall in ds:
                        if len(dcall) - 3 != 3:
                            got.add(('overload',))
                            continue
                        got.add((arm.var(dcall[3]), arm.var(dcall[4])) + (arm.affine(dcall[5]) or ('?', '?')))
                    want = {expected('<=', False), expected('>=', False)}
                    if got != want:
                        ctx.finding(rid, f.id, 'arity%s/conj' % arm.arity, '%s arity %s: equality builds %s, the algebra requires %s' % (
                            f.id, arm.arity, sorted('new_distance(%s, %s, %s)' % _fmt_exp(g) if len(g) == 4 else str(g) for g in got),
                            sorted('new_distance(%s, %s, %s)' % _fmt_exp(g) for g in want)), node=ret)
                    # pre-test: on this (conj) path the guard `first <= K && second >= K` holds with distance(lead, other)
                    pre_ok = False
                    for c in p.conds:
                        if c[0] == 'if' and c[2] is True:
                            ct = canon(c[1], env)
                            dcs = list(_calls(ct, '::distance'))
                            if dcs and all(len(x) == 5 and (arm.var(x[3]), arm.var(x[4])) == ('e0', 'e1') for x in dcs):
                                pre_ok = True
                            elif dcs:
                                ctx.finding(rid, f.id, 'arity%s/pretest' % arm.arity, '%s: the bounds pre-test of the equality asks distance(%s) but compares it with the constant of lead - other' % (
                                    f.id, ', '.join(arm.var(y) for y in dcs[0][3:])), node=c[1], expect='distance(lead, other) bounds other - lead; compared with K')
                                pre_ok = True
                    if not pre_ok:
                        ctx.note('%s arity %s: no bounds pre-test recognised (optional)' % (f.id, arm.arity))
            # completeness of the cell set
            need = ({(0, None), (1, True), (1, False), (2, True), (2, False), 'default'} if rel != '==' else
                    {(0, None), (1, 'conj'), (2, 'conj'), 'default'})
            missing = need - seen_cells
            for m in sorted(missing, key=repr):
                ctx.finding(rid, f.id, 'missing:%s' % (m,), '%s: no return/throw for cell %s' % (f.id, m), loc=f.loc,
                            expect='one arm per arity 0/1/2 and sign, default throws')


def _calls(t, suffix):
    if isinstance(t, tuple):
        if t and t[0] == 'mcall' and isinstance(t[1], str) and t[1].endswith(suffix):
            yield t
        for x in t:
            yield from _calls(x, suffix)


QUERY_FNS = ('bounds', 'distance', 'equates', 'lb', 'ub')


def r2(ctx, fs):
    rid = 'C12.R2'
    ctx.rule(rid, 'IDL and RDL siblings of bounds/distance/equates/lb/ub have equal normalised path sets under the type map I<->inf_rational '
                  '(integrality tests and finite-sentinel guards erased)', floor=7)
    both, only = sib_dl.pairs(fs)
    for key, fa, fb in both:
        nm = fa.name.rsplit('::', 1)[-1]
        if nm not in QUERY_FNS:
            continue
        sa, sb, oa, ob = sib_dl.compare(fs, fa, fb)
        ctx.instance(rid, fa.id, {'idl': fa.id, 'rdl': fb.id, 'paths': [len(sa), len(sb)]})
        if oa or ob:
            pa, pb = dual.first_difference(oa, ob)
            ca, ea, cb, eb = dual.eff_diff(pa, pb) if pa and pb else ((), (), (), ())
            ctx.finding(rid, fa.id, 'sibling', 'idl_theory::%s and rdl_theory::%s disagree on a path (one of them is wrong): IDL has %s %s ; RDL has %s %s' % (
                nm, nm, [dual._show_cond(c) for c in ca], [dual._show_eff(e) for e in ea], [dual._show_cond(c) for c in cb], [dual._show_eff(e) for e in eb]),
                loc=fa.loc, construct='%s | %s' % (fa.loc, fb.loc), expect='identical structure under I <-> inf_rational')


def _sign_test(t, pol):
    """(coef term, 'pos'|'neg') if t is a sign test of a coefficient, else None."""
    Z = 'smt::rational::ZERO'
    if isinstance(t, tuple):
        if t[0] == 'call' and len(t) == 3 and t[1] in ('smt::is_positive', 'smt::is_positive_or_zero'):
            return t[2], 'pos' if pol else 'neg'
        if t[0] == 'call' and len(t) == 3 and t[1] in ('smt::is_negative', 'smt::is_negative_or_zero'):
            return t[2], 'neg' if pol else 'pos'
        if t[0] in ('<', '<=') and len(t) == 3:
            if t[2] == Z:
                return t[1], 'neg' if pol else 'pos'
            if t[1] == Z:
                return t[2], 'pos' if pol else 'neg'
        if t[0] == '!' and len(t) == 2:
            return _sign_test(t[1], not pol)
    return None


def _bound_products(t):
    """yield ('lb'|'ub', coef term) for every  lb(v) * c / ub(v) * c  inside t."""
    if isinstance(t, tuple):
        if t[0] == '*' and len(t) == 3:
            for a, b in ((t[1], t[2]), (t[2], t[1])):
                if isinstance(a, tuple) and a[0] == 'mcall' and isinstance(a[1], str) and a[1].rsplit('::', 1)[-1] in ('lb', 'ub'):
                    c = b
                    if isinstance(c, tuple) and c[0] == 'mcall' and c[1] == 'smt::rational::numerator':
                        c = c[2]
                    yield a[1].rsplit('::', 1)[-1], c
        for x in t:
            yield from _bound_products(x)


def r3(ctx, fs):
    rid = 'C12.R3'
    ctx.rule(rid, 'bounds(lin), one variable: the bound of c*x is taken from lb(x) or ub(x) according to the sign of c on every path '
                  '(as lra_theory::lb/ub(lin) do with is_positive(c))', floor=4)
    for theory in ('idl_theory', 'rdl_theory'):
        f = fs.fn('smt::%s::bounds' % theory, params=['lin'])
        env = LocalEnv(f)
        env.param_roles(['l'])
        accs = sorted((d for d, nd in env.decls.items() if nd.get('t') in ('long', 'smt::inf_rational') and not nd.get('bindings')), key=lambda d: tuple(int(x) for x in d.rsplit(':', 2)[1:]))
        if len(accs) < 2:
            raise AnalysisBroken('%s: the two accumulators (lower, upper) were not found' % f.id)
        env.rename[accs[0]], env.rename[accs[1]] = 'c_lb', 'c_ub'
        n = 0
        for p in enum_paths(f.body):
            signs = {}
            for c in p.conds:
                if c[0] == 'if':
                    st = _sign_test(canon(c[1], env), c[2])
                    if st:
                        signs[st[0]] = st[1]
            for s in p.stmts:
                if s.get('as'):
                    continue
                t = canon(s, env)
                if not (isinstance(t, tuple) and t[0] in ('+=', '=') and t[1] in ('c_lb', 'c_ub')):
                    continue
                for which, coef in _bound_products(t[2]):
                    n += 1
                    sg = signs.get(coef)
                    target = 'lb' if t[1] == 'c_lb' else 'ub'
                    disc = '%s<-%s' % (t[1], which)
                    ctx.instance(rid, [f.id, disc, sg], {'function': f.id, 'store': show(t), 'sign_of_coefficient_on_path': sg})
                    if sg is None:
                        ctx.finding(rid, f.id, disc + '/unsigned', '%s::bounds: %s is accumulated from %s(x) * c without a test of the sign of c: for c < 0 the interval comes out inverted' % (
                            theory, t[1], which), node=s, expect='lower bound from lb(x) when c > 0 and from ub(x) when c < 0 (cf. lra_theory::lb(const lin &))')
                    elif (sg == 'pos') != (which == target):
                        ctx.finding(rid, f.id, disc + '/' + sg, '%s::bounds: with c %s, %s must come from %s(x)' % (
                            theory, '> 0' if sg == 'pos' else '< 0', t[1], target if sg == 'pos' else ('ub' if target == 'lb' else 'lb')), node=s)
        if n == 0:
            raise AnalysisBroken('%s: no lb(x)*c / ub(x)*c accumulation found in the one-variable arm' % f.id)


def run(ctx):
    fs = ctx.facts('P')
    r1(ctx, fs)
    r2(ctx, fs)
    r3(ctx, fs)
    # R4: what a relation literal means when it is FALSE (shared with C10.R2): the negation table of propagate(lit)
    from .C10 import r2 as negation_table
    negation_table(ctx, fs, rid='C12.R4')
    # a relation literal that is left open is decided later by the propagation of the difference-logic theory: what it then means rests on the structural
    # clauses of C10 (sibling agreement of the two theories, explanation walks, the literal being explained), evaluated here under their own rule ids
    ctx.include('C10')
    # the RIDDLE relations on tp operands reach these builders through core::lt/leq/eq/geq/gt (C11.R6), evaluated here as C12.R5
    from .C11 import r6 as routing
    routing(ctx, fs, rid='C12.R5')
