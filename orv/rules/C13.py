"""C13 - reified boolean constructs (DESIGN 4, C13).

R1  clause schemas of new_eq / new_conj / new_disj / new_at_most_one / new_exct_one against the Tseitin specification.
R2  the literal *defined* by the posted clauses is fresh (created by new_var() in the same call) - never a cached literal of another construct.
R3  root-value shortcut table of new_eq (9 cells).
R4  cache discipline: distinct tag per constructor, key extended exactly where a literal is kept, looked up before and stored after the clauses.
R5  core::{eq,conj,disj,exct_one,negate} route to the namesakes.
"""
from ..expr import LocalEnv, canon, show
from ..facts import AnalysisBroken, short, src, walk
from ..tables import VecBuilder, clause_of_call, enum_paths, fmt_items, path_literals, value_of
from ..schema import call_ctx, norm_clause, posted, _rename, _contains

SC = 'smt::sat_core::'
FRESH = ('lit', ('mcall', SC + 'new_var', 'this'))


def N(x):
    return ('!', x)


STR_T = 'std::basic_string<char>'


def roles(fs, f, params):
    """structural naming of the parameters and locals the specifications talk about."""
    env = LocalEnv(f)
    env.param_roles(params)
    is_lit_t = lambda n: n.get('t') in ('const smt::lit', 'smt::lit')
    # the literal a constructor DEFINES is the one it returns / stores in the expression cache (a named operand such as `amo = new_at_most_one(ls)` is not)
    defined = set()
    for n in f.nodes():
        if n.get('k') == 'ReturnStmt' and n.get('c'):
            x = n['c'][0]
            while x.get('k') in ('CXXConstructExpr',) and len(x.get('c') or ()) == 1:
                x = x['c'][0]
            if x.get('k') == 'DeclRefExpr' and x.get('local'):
                defined.add(x.get('dloc'))
        if n.get('k') == 'CXXMemberCallExpr' and (n.get('callee_name') or '').endswith('::emplace'):
            for a in (n.get('c') or [])[1:]:
                x = a
                while x.get('k') in ('CXXConstructExpr',) and len(x.get('c') or ()) == 1:
                    x = x['c'][0]
                if x.get('k') == 'DeclRefExpr' and x.get('local'):
                    defined.add(x.get('dloc'))
    env.local_role('ctr', lambda n, i: is_lit_t(n) and n.get('loc') in defined and i is not None and (i == FRESH or (isinstance(i, tuple) and i[0] == 'mcall' and i[1].startswith(SC + 'new_'))), many=True)
    env.local_role('s_expr', lambda n, i: n.get('t') in (STR_T, 'const ' + STR_T), many=True)
    return env


def size_of(v):
    return ('mcall', 'std::vector<smt::lit>::size', v)


def _show_clause(c):
    loops, lits = c
    s = '{' + ', '.join(sorted(show(l) for l in lits)) + '}'
    for lp in reversed(loops):
        s = '%s %s: %s' % (lp[0], ' '.join(show(x) for x in lp[1:]), s)
    return s


def check_set(ctx, rid, f, name, got, want, nodes):
    """compare the posted clause set with the specification, one finding per missing / unexpected schema."""
    gs = {g for g in got}
    for w in sorted(want, key=repr):
        disc = name + ':' + _show_clause(w)
        ctx.instance(rid, [f.id, disc], {'constructor': f.name, 'required_clause': _show_clause(w), 'present': w in gs})
        if w not in gs:
            ctx.finding(rid, f.id, 'missing ' + disc, '%s does not post the defining clause %s: the returned literal is not equivalent to the formula' % (f.name, _show_clause(w)),
                        loc=f.loc, construct='posted: ' + ' ; '.join(sorted(_show_clause(g) for g in gs)), expect=_show_clause(w))
    for g in sorted(gs, key=repr):
        if g not in want:
            n = nodes.get(g)
            ctx.finding(rid, f.id, 'unexpected ' + name + ':' + _show_clause(g), '%s posts %s, which is not a clause of the Tseitin definition' % (f.name, _show_clause(g)),
                        node=n, expect='only: ' + ' ; '.join(sorted(_show_clause(w) for w in want)))


def ctr_defs(env):
    return [canon(n['init'], env, subst=False) for d, n in sorted(env.decls.items()) if env.rename.get(d) == 'ctr']


def _uncast(t):
    if isinstance(t, tuple):
        if len(t) == 3 and t[0] == 'cast' and t[1] in ('unsigned long', 'size_t', 'std::size_t', 'const unsigned long'):
            return _uncast(t[2])
        return tuple(_uncast(x) for x in t)
    return t


def _grid_covers(ctx, rid, f, env, ps, qs):
    """the grid of the product encoding has a cell for every literal: rows = ceil(sqrt(n)), columns = ceil(n / rows) (rounded UP)."""
    def strip(n):
        while n is not None and n.get('k') in ('CXXStaticCastExpr', 'CStyleCastExpr', 'CXXFunctionalCastExpr', 'ImplicitCastExpr') and n.get('c'):
            n = n['c'][0]
        return n

    def is_ceil(n):
        return n is not None and n.get('k') == 'CallExpr' and (n.get('callee_name') or '').rsplit('::', 1)[-1] in ('ceil', 'ceilf', 'ceill')
    pi, qi = strip(ps.get('init')), strip(qs.get('init'))
    n_t = size_of('ls')
    rows_ok = is_ceil(pi) and (lambda a: a is not None and a.get('k') == 'CallExpr' and (a.get('callee_name') or '').rsplit('::', 1)[-1] in ('sqrt', 'sqrtf', 'sqrtl')
                               and _uncast(canon(a['c'][1], env, subst=False)) == n_t)(strip(pi['c'][1]) if len(pi.get('c') or ()) > 1 else None)
    cols = None
    if is_ceil(qi) and len(qi.get('c') or ()) > 1:
        d = strip(qi['c'][1])
        if d is not None and d.get('k') == 'BinaryOperator' and d.get('op') == '/':
            floating = (d.get('t') or '') in ('double', 'float', 'long double')
            num, den = _uncast(canon(d['c'][0], env, subst=False)), _uncast(canon(d['c'][1], env, subst=False))
            cols = 'ceil' if floating and num == n_t and den == 'ps' else ('floor' if num == n_t and den == 'ps' else None)
    elif qi is not None and qi.get('k') == 'BinaryOperator' and qi.get('op') == '/':
        num, den = _uncast(canon(qi['c'][0], env, subst=False)), _uncast(canon(qi['c'][1], env, subst=False))
        if den == 'ps' and num == n_t:
            cols = 'floor' if (qi.get('t') or '') not in ('double', 'float', 'long double') or (qs.get('t') or '').replace('const ', '') not in ('double', 'float', 'long double') else None
        elif den == 'ps' and num in (('-', ('+', 'ps', n_t), ('num', 1)), ('+', ('-', n_t, ('num', 1)), 'ps'), ('-', ('+', n_t, 'ps'), ('num', 1)), ('+', n_t, ('-', 'ps', ('num', 1)))):
            cols = 'ceil'
    ctx.instance(rid, [f.id, 'grid-covers'], {'rows': src(ps), 'columns': src(qs), 'rows_are_ceil_sqrt_n': bool(rows_ok), 'columns_round': cols})
    if cols == 'floor':
        ctx.finding(rid, f.id, 'grid-covers', 'new_at_most_one (product encoding): the number of columns is n / rows rounded DOWN (%s): when rows does not divide n the grid has fewer than n cells, the last literals get no '
                    'row / column clauses and the at-most-one (and the exactly-one built on it) no longer constrains them' % src(qs), node=qs, expect='columns = ceil(n / rows)')
    elif not rows_ok or cols != 'ceil':
        raise AnalysisBroken('%s: product encoding: grid dimensions %s / %s are computed in a way the checker does not recognise (expected ceil(sqrt(n)) and ceil(n / rows))' % (f.id, src(ps), src(qs)))


def r1_r2(ctx, fs):
    rid, rid2 = 'C13.R1', 'C13.R2'
    ctx.rule(rid, 'set of clause schemas posted by each constructor == Tseitin definition (eq: 4 clauses; conj/disj: n+1; at-most-one pairwise i<j and product grid; exactly-one = at-most-one + at-least-one)', floor=13)
    ctx.rule(rid2, 'the literal constrained by a constructor\'s defining clauses is created by new_var() in that call (a cached literal of another construct must not acquire new clauses)', floor=5)

    # ---- new_eq
    f = fs.fn(SC + 'new_eq')
    env = roles(fs, f, ['left', 'right'])
    _, cl = posted(fs, f, env=env)
    _fresh(ctx, rid2, f, 'ctr', ctr_defs(env))
    C, L, R = 'ctr', 'left', 'right'
    want = {((), frozenset(s)) for s in ({N(C), N(L), R}, {N(C), L, N(R)}, {C, N(L), N(R)}, {C, L, R})}
    check_set(ctx, rid, f, 'eq', [c for c, _, _ in cl], want, {c: n for c, _, n in cl})

    # ---- conj / disj
    for nm, per, final in (('new_conj', lambda l: {N('ctr'), l}, lambda: {'ctr', ('ctx', (('each', 'ls'),), N('$e0'))}),
                           ('new_disj', lambda l: {N(l), 'ctr'}, lambda: {N('ctr'), ('ctx', (('each', 'ls'),), '$e0')})):
        f = fs.fn(SC + nm)
        env = roles(fs, f, ['ls'])
        _, cl = posted(fs, f, env=env)
        _fresh(ctx, rid2, f, 'ctr', ctr_defs(env))
        want = {((('each', 'ls'),), frozenset(per('$0'))), ((), frozenset(final()))}
        check_set(ctx, rid, f, nm[4:], [c for c, _, _ in cl], want, {c: n for c, _, n in cl})

    # ---- at most one
    f = fs.fn(SC + 'new_at_most_one')
    env = roles(fs, f, ['ls'])
    vecs = sorted(d for d, n in env.decls.items() if n.get('t') == 'std::vector<smt::lit>')
    vecs.sort(key=_posl)
    if len(vecs) != 2:
        raise AnalysisBroken('%s: product encoding: expected two literal vectors (rows, columns)' % f.id)
    env.rename[vecs[0]], env.rename[vecs[1]] = 'u', 'v'
    # the grid dimensions are the bounds of the loops that fill the row / column vectors with fresh variables
    dims = {}
    for n in f.nodes():
        if n.get('k') == 'ForStmt':
            pb = [m for m in walk(n['slots']['body']) if m.get('k') == 'CXXMemberCallExpr' and (m.get('callee_name') or '').endswith(('::push_back', '::emplace_back'))]
            c = n['slots'].get('cond')
            if len(pb) == 1 and c is not None and c.get('k') == 'BinaryOperator' and c.get('op') == '<':
                tgt = canon(pb[0]['c'][0]['c'][0], env, subst=False)
                bound = c['c'][1]
                while bound.get('k') in ('ImplicitCastExpr', 'CXXStaticCastExpr', 'CStyleCastExpr') and bound.get('c'):
                    bound = bound['c'][0]
                if tgt in ('u', 'v') and bound.get('k') == 'DeclRefExpr' and bound.get('dloc') in env.decls:
                    dims[tgt] = bound['dloc']
    if set(dims) != {'u', 'v'} or dims['u'] == dims['v']:
        raise AnalysisBroken('%s: product encoding: the two grid dimensions (bounds of the loops filling the row and column vectors) were not found' % f.id)
    env.rename[dims['u']], env.rename[dims['v']] = 'ps', 'qs'
    _grid_covers(ctx, rid, f, env, env.decls[dims['u']], env.decls[dims['v']])
    _, cl = posted(fs, f, env=env)
    def fewer_than_4(w):
        """the truth of ls.size() < 4 in the context w (None: not tested), whatever the spelling of the test"""
        sz = size_of('ls')
        for c in w:
            if c[0] != 'if' or not isinstance(c[1], tuple) or len(c[1]) != 3:
                continue
            op, a, b = c[1]
            if b == sz and isinstance(a, tuple) and a[0] == 'num' and op in ('<', '<=', '>', '>='):
                op, a, b = {'<': '>', '<=': '>=', '>': '<', '>=': '<='}[op], b, a         # k < size is size > k
            if a != sz or not (isinstance(b, tuple) and b[0] == 'num'):
                continue
            if (op, b[1]) in (('<', 4), ('<=', 3)):
                return bool(c[2])
            if (op, b[1]) in (('>=', 4), ('>', 3)):
                return not c[2]
        return None
    small = [(c, w, n) for c, w, n in cl if fewer_than_4(w) is True]
    big = [(c, w, n) for c, w, n in cl if fewer_than_4(w) is False]
    if len(small) + len(big) != len(cl) or not small or not big:
        raise AnalysisBroken('%s: pairwise / product split (ls.size() < 4) not recognised' % f.id)
    defs = ctr_defs(env)
    n_fresh = sum(1 for x in defs if x == FRESH)
    ctx.instance(rid2, [f.id, 'ctr/pairwise'], {'constructor': f.name, 'defined_literal': [show(x) for x in defs]})
    if n_fresh < 1:
        ctx.finding(rid2, f.id, 'ctr/pairwise', 'new_at_most_one (pairwise) constrains a literal that is not created by new_var()', loc=f.loc)
    i_loop = ('for', ('num', 0), ('<', '$0', size_of('ls')), ('++', '$0'))
    j_loop = ('for', ('+', '$0', ('num', 1)), ('<', '$1', size_of('ls')), ('++', '$1'))
    want = {((i_loop, j_loop), frozenset({N(('[]', 'ls', '$0')), N(('[]', 'ls', '$1')), N('ctr')}))}
    check_set(ctx, rid, f, 'amo-pairwise', [c for c, _, _ in small], want, {c: n for c, _, n in small})
    # product encoding: grid loops i < ps, j < qs, guard k < size with k = i*qs + j (row-major)
    from ..schema import resort
    K = resort(('+', '$1', ('*', '$0', 'qs')))
    gi = ('for', ('num', 0), ('<', '$0', 'ps'), ('++', '$0'))
    gj = ('for', ('num', 0), ('<', '$1', 'qs'), ('++', '$1'))
    guard = ('if', ('<', K, size_of('ls')), True)
    want = {((gi, gj, guard), frozenset({N(('[]', 'ls', K)), ('[]', 'u', '$0'), N('ctr')})),
            ((gi, gj, guard), frozenset({N(('[]', 'ls', K)), ('[]', 'v', '$1'), N('ctr')}))}
    got = []
    nodes = {}
    for c, w, n in big:
        loops = tuple(x for x in c[0] if not (x[0] == 'if' and x[2] is False))      # the `||`-chained second call sits in the condition of the same if
        c = (_uncast(loops), frozenset(_uncast(x) for x in c[1]))          # the cell index may or may not be cast to size_t
        loops = c[0]
        got.append((loops, c[1]))
        nodes[(loops, c[1])] = n
    check_set(ctx, rid, f, 'amo-product', got, want, nodes)
    # ctr of the product encoding = conj(amo(u), amo(v)), u / v filled with fresh variables
    prod = [_strip_alloc(x) for x in defs if x != FRESH]
    want_ctr = ('mcall', SC + 'new_conj', 'this', ('new', 'std::vector<smt::lit>', ('list', ('mcall', SC + 'new_at_most_one', 'this', 'u'), ('mcall', SC + 'new_at_most_one', 'this', 'v'))))
    ctx.instance(rid2, [f.id, 'ctr/product'], {'constructor': f.name, 'defined_literal': [show(x) for x in prod]})
    if prod != [want_ctr]:
        ctx.finding(rid2, f.id, 'ctr/product', 'new_at_most_one (product): the controlling literal is %s, expected new_conj({new_at_most_one(u), new_at_most_one(v)}) over fresh row/column variables' % [show(x) for x in prod], loc=f.loc)
    vb = VecBuilder(f, env)
    for vec, dl, bound in (('u', vecs[0], 'ps'), ('v', vecs[1], 'qs')):
        its = vb.items.get(dl)
        ok = its is not None and not vb.unrec.get(dl) and len(its) == 1 and its[0][0] == 'ctx' and its[0][2] == FRESH and len(its[0][1]) == 1 and its[0][1][0][0] == 'loop' and \
            isinstance(its[0][1][0][1], tuple) and its[0][1][0][1][0] == '<' and its[0][1][0][1][2] == bound
        ctx.instance(rid2, [f.id, 'grid/' + vec], {'constructor': f.name, 'vector': vec, 'filled_with': fmt_items(its)})
        if not ok:
            ctx.finding(rid2, f.id, 'grid/' + vec, 'new_at_most_one (product): %s is not filled with %s fresh variables' % (vec, bound), loc=f.loc)

    # ---- exactly one
    f = fs.fn(SC + 'new_exct_one')
    env = roles(fs, f, ['ls'])
    _, cl = posted(fs, f, env=env)
    ds = ctr_defs(env)
    d = ds[0] if len(ds) == 1 else None
    want = {((), frozenset({('all', 'ls'), N('ctr')}))}
    if d == FRESH:
        want.add(((), frozenset({N('ctr'), ('mcall', SC + 'new_at_most_one', 'this', 'ls')})))
    check_set(ctx, rid, f, 'exct-one', [c for c, _, _ in cl], want, {c: n for c, _, n in cl})
    ctx.instance(rid2, [f.id, 'ctr'], {'constructor': f.name, 'defined_literal': show(d)})
    if d != FRESH:
        ctx.finding(rid2, f.id, 'ctr', 'new_exct_one adds its at-least-one clause to %s - a literal shared through the expression cache: a previously returned at-most-one literal silently becomes an exactly-one' % show(_strip_alloc(d)),
                    loc=f.loc, construct='ctr = %s; ls.push_back(!ctr); new_clause(ls)' % show(_strip_alloc(d)),
                    expect='a fresh ctr = lit(new_var()) with {!ctr, new_at_most_one(ls)} and {ls..., !ctr}')


def _posl(loc):
    p = loc.rsplit(':', 2)
    return (int(p[1]), int(p[2]))


def _strip_alloc(t):
    if isinstance(t, tuple):
        t = tuple(_strip_alloc(x) for x in t if not (isinstance(x, tuple) and x[:2] == ('new', 'std::allocator<smt::lit>')))
    return t


def _fresh(ctx, rid2, f, name, ds):
    ctx.instance(rid2, [f.id, name], {'constructor': f.name, 'defined_literal': [show(d) for d in ds]})
    if ds != [FRESH]:
        ctx.finding(rid2, f.id, name, '%s: the defined literal is %s, not a single fresh lit(new_var())' % (f.name, [show(d) for d in ds]), loc=f.loc)


# ---- R3 --------------------------------------------------------------------------------------------------------------------

def r3(ctx, fs):
    rid = 'C13.R3'
    ctx.rule(rid, 'new_eq root shortcuts: (T,T)->TRUE (T,F)->FALSE (F,T)->FALSE (F,F)->TRUE (T,U)->right (F,U)->!right (U,T)->left (U,F)->!left (U,U)->build; '
                  'value(lit) already accounts for the sign, so no further sign arithmetic is allowed', floor=8)
    f = fs.fn(SC + 'new_eq')
    env = roles(fs, f, ['left', 'right'])
    VL, VR = ('mcall', SC + 'value', 'this', 'left'), ('mcall', SC + 'value', 'this', 'right')
    want = {('True', 'True'): 'smt::TRUE_lit', ('True', 'False'): 'smt::FALSE_lit', ('False', 'True'): 'smt::FALSE_lit', ('False', 'False'): 'smt::TRUE_lit',
            ('True', 'Undefined'): 'right', ('False', 'Undefined'): N('right'), ('Undefined', 'True'): 'left', ('Undefined', 'False'): N('left')}
    seen = {}
    for p in enum_paths(f.body):
        # the cell of the path: what its conditions (switch arms, if chains, early returns - one thing) say about value(left) and value(right)
        lits = path_literals(p, lambda n: canon(n, env, subst=False))
        if lits is None:
            continue            # all three values of an lbool excluded: the fall-out edge does not exist
        cell = {'L': [value_of(lits, VL)], 'R': [value_of(lits, VR)]}
        if cell['L'][0] is None or cell['R'][0] is None:
            continue
        key = (cell['L'][0], cell['R'][0])
        if key in seen:
            continue
        if p.end == 'return' and not [x for x in p.stmts[:-1] if not x.get('as')]:
            seen[key] = (canon(p.endnode['c'][0], env, subst=False), p.endnode)
        else:
            seen[key] = ('build', None)
    for key, w in sorted(want.items()):
        got = seen.get(key)
        ctx.instance(rid, [f.id, key], {'value(left)': key[0], 'value(right)': key[1], 'returns': show(got[0]) if got else None, 'expected': show(w)})
        if got is None:
            ctx.finding(rid, f.id, 'cell %s/%s' % key, 'new_eq: no shortcut for value(left)=%s, value(right)=%s (falls through to another cell)' % key, loc=f.loc, expect=show(w))
        elif got[0] != w:
            ctx.finding(rid, f.id, 'cell %s/%s' % key, 'new_eq with value(left)=%s, value(right)=%s returns %s; the equality is equivalent to %s there (value() of a literal already includes its sign)' % (
                key[0], key[1], show(got[0]), show(w)), node=got[1] or f.body, expect=show(w))
    got = seen.get(('Undefined', 'Undefined'))
    ctx.instance(rid, [f.id, ('Undefined', 'Undefined')], {'returns': show(got[0]) if got else None})
    if got is None or got[0] != 'build':
        ctx.finding(rid, f.id, 'cell Undefined/Undefined', 'new_eq: two undecided literals must reach the clause-building part', loc=f.loc)


# ---- R4 -----------------------------------------------------------------------------------------------------------------------

CTORS = ('new_eq', 'new_conj', 'new_disj', 'new_at_most_one', 'new_exct_one')


def r4(ctx, fs):
    rid = 'C13.R4'
    ctx.rule(rid, 'expression cache: pairwise distinct tag strings; in the filtering loops the key is extended in the very block that keeps a literal; '
                  'exprs.find(key) precedes the clauses, exprs.emplace(key, ctr) follows them and stores the returned literal', floor=12)
    tags = {}
    for nm in CTORS:
        f = fs.fn(SC + nm)
        env = roles(fs, f, ['left', 'right'] if nm == 'new_eq' else ['ls'])
        tag = None
        for n in f.nodes():
            if n.get('k') == 'VarDecl' and env.rename.get(n['loc']) == 's_expr' and isinstance(n.get('init'), dict):
                for m in walk(n['init']):
                    if m.get('k') == 'StringLiteral':
                        tag = m.get('val')
                        break
        tags[nm] = tag
        ctx.instance(rid, [f.id, 'tag'], {'constructor': f.name, 'tag': tag})
        if tag is None:
            raise AnalysisBroken('%s: cache key s_expr with a string tag not found' % f.id)
        # keep-blocks: every `ls[j++] = p` (or ls[lits_size++] = p) has a sibling `s_expr += to_string(p)`
        if nm != 'new_eq':
            keeps = [n for n in f.nodes() if n.get('k') == 'CXXOperatorCallExpr' and n.get('op') == '=' and
                     isinstance(canon(n['c'][1], env, subst=False), tuple) and canon(n['c'][1], env, subst=False)[0] == '[]' and canon(n['c'][1], env, subst=False)[1] == 'ls']
            if not keeps:
                raise AnalysisBroken('%s: filtering idiom ls[j++] = p not found' % f.id)
            for i, kp in enumerate(keeps):
                par = f.parent(kp)
                kept = canon(kp['c'][2], env, subst=False)
                sib = [canon(x, env, subst=False) for x in (par.get('c') or [])] if par else []
                ok = ('+=', 's_expr', ('call', 'smt::to_string', kept)) in sib
                ctx.instance(rid, [f.id, 'keep#%d' % i], {'constructor': f.name, 'keeps': show(kept), 'key_extended_in_same_block': ok})
                if not ok:
                    ctx.finding(rid, f.id, 'keep#%d' % i, '%s keeps literal %s without adding it to the cache key: two different expressions share one cached literal' % (f.name, show(kept)),
                                node=kp, expect='s_expr += to_string(%s) next to it' % show(kept))
        else:
            # key of eq must mention both literals in an order that does not depend on the argument order
            kdef = None
            for n in f.nodes():
                if n.get('k') == 'VarDecl' and env.rename.get(n['loc']) == 's_expr':
                    kdef = canon(n['init'], env, subst=False)
            s = show(kdef)
            ok = '(call to_string left)' in s and '(call to_string right)' in s and '(< left right)' in s
            if not ok:
                # the key may be put together along the path (a declaration, then `s_expr += ..` in the arms of the comparison): every path that looks the key
                # up has compared the two literals and holds a key that mentions both
                from ..tables import path_values
                cnk = lambda n: canon(n, env, subst=False)
                oks = []
                for p in enum_paths(f.body):
                    if not any(c[0] == 'if' and 'exprs' in show(cnk(c[1])) for c in p.conds):
                        continue
                    key = show(path_values(p, cnk).get('s_expr'))
                    cmp_ = any(c[0] == 'if' and show(cnk(c[1])) in ('(< left right)', '(< right left)') for c in p.conds)
                    oks.append('(call to_string left)' in key and '(call to_string right)' in key and cmp_)
                ok = bool(oks) and all(oks)
            ctx.instance(rid, [f.id, 'key'], {'constructor': f.name, 'key': s[:200], 'symmetric': ok})
            if not ok:
                ctx.finding(rid, f.id, 'key', 'new_eq: the cache key must contain both literals in a canonical order', loc=f.loc)
        # find before clauses / emplace after, storing ctr
        finds = [n for n in f.nodes() if n.get('k') == 'CXXMemberCallExpr' and (n.get('callee_name') or '').endswith('::find') and canon(n['c'][0]['c'][0], env, subst=False) == SC + 'exprs']
        emps = [n for n in f.nodes() if n.get('k') == 'CXXMemberCallExpr' and (n.get('callee_name') or '').rsplit('::', 1)[-1] in ('emplace', 'insert', 'try_emplace') and
                canon(n['c'][0]['c'][0], env, subst=False) == SC + 'exprs']
        clauses = [n for n in f.nodes() if n.get('callee_name') == SC + 'new_clause']
        ok_f = len(finds) == 1 and canon(finds[0]['c'][1], env, subst=False) == 's_expr' and all(_pos(finds[0]) < _pos(c) for c in clauses)
        ok_e = bool(emps) and all(canon(e['c'][1], env, subst=False) == 's_expr' and canon(e['c'][2], env, subst=False) == 'ctr' for e in emps)
        ctx.instance(rid, [f.id, 'lookup'], {'constructor': f.name, 'find_before_clauses': ok_f, 'emplace_key_ctr': ok_e, 'emplaces': len(emps)})
        if not ok_f:
            ctx.finding(rid, f.id, 'lookup', '%s does not look the key up in the expression cache before building' % f.name, loc=f.loc)
        if not ok_e:
            ctx.finding(rid, f.id, 'store', '%s does not store (key, returned literal) in the expression cache' % f.name, loc=f.loc)
    vals = list(tags.values())
    if len(set(vals)) != len(vals):
        ctx.finding(rid, SC + 'exprs', 'tags', 'two constructors share the cache tag: %s' % tags, loc='smt/sat_core.cpp')


def _pos(n):
    p = n['loc'].rsplit(':', 2)
    return (int(p[1]), int(p[2]))


# ---- R5 ---------------------------------------------------------------------------------------------------------------------

ROUTES = [
    ('ratio::core::negate', None, ('!', ('.', 'var', 'l'))),
    ('ratio::core::eq', ['bool_expr', 'bool_expr'], SC + 'new_eq'),
    ('ratio::core::conj', None, SC + 'new_conj'),
    ('ratio::core::disj', None, SC + 'new_disj'),
    ('ratio::core::exct_one', None, SC + 'new_exct_one'),
]


def r5(ctx, fs, rid='C13.R5'):
    ctx.rule(rid, 'core::eq(bool,bool) / conj / disj / exct_one build their item from the namesake sat_core constructor applied to the literals of all operands, negate from !l', floor=5)
    for name, params, target in ROUTES:
        f = fs.fn(name, params=params) if params else fs.fn(name)
        env = LocalEnv(f)
        env.param_roles(['left', 'right'] if len(f.get('params') or ()) == 2 else ['var'])        # positional: parameter names are irrelevant
        calls = [n.get('callee_name') for n in f.nodes() if (n.get('callee_name') or '').startswith(SC + 'new_')]
        if isinstance(target, str):
            ok = calls == [target]
            ctx.instance(rid, f.id, {'function': f.id, 'sat_core_calls': calls})
            if not ok:
                ctx.finding(rid, f.id, 'route', '%s must build its literal with %s (found %s)' % (f.name, target.rsplit('::', 1)[-1], calls), loc=f.loc, expect=target)
                continue
            # all operands reach the call: for vector forms the pushed literal is e->l for each e of the parameter
            if name.rsplit('::', 1)[-1] in ('conj', 'disj', 'exct_one'):
                vb = VecBuilder(f, env)
                its = [i for v in vb.items.values() for i in v]
                pname = 'var'
                ok2 = any(i[0] == 'ctx' and i[1] and i[1][0][0] == 'each' and i[1][0][1] == pname and i[2] == ('.', i[1][0][2], 'l') and len(i[1]) == 1 for i in its) and len(its) == 1
                if not ok2:
                    ctx.finding(rid, f.id, 'operands', '%s does not pass the literal of every operand' % f.name, loc=f.loc, expect='for (e : exprs) lits.push_back(e->l)')
            else:
                c = [n for n in f.nodes() if n.get('callee_name') == target][0]
                t = canon(c, env)
                if set(t[3:]) != {('.', 'left', 'l'), ('.', 'right', 'l')}:
                    ctx.finding(rid, f.id, 'operands', 'core::eq(bool,bool) does not pass left->l and right->l', node=c)
        else:
            found = any(canon(n, env) == target for n in f.nodes() if n.get('k') in ('CXXOperatorCallExpr', 'UnaryOperator'))
            ctx.instance(rid, f.id, {'function': f.id, 'negates_literal': found})
            if not found or calls:
                ctx.finding(rid, f.id, 'route', 'core::negate must return the item of !var->l', loc=f.loc)


def run(ctx):
    fs = ctx.facts('P')
    r1_r2(ctx, fs)
    r3(ctx, fs)
    r4(ctx, fs)
    r5(ctx, fs)
    from .C17 import item_eq_tables
    item_eq_tables(ctx, 'C13.R5', fs)
    # every defining clause goes through sat_core::new_clause (root simplification: duplicates, tautologies) and is propagated by the SAT core (C07)
    ctx.include('C07')       # `==` / `!=` of RIDDLE boolean expressions reach sat_core::new_eq through bool_item::new_eq
