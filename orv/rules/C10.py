"""C10 - difference logic: exact distances, conflicts = negative cycles (DESIGN 4, C10).

R1  IDL <-> RDL sibling agreement of every method both theories define (type map I <-> inf_rational).
R2  assertion / negation table of propagate(lit): conflict tests and the edge that is propagated.
R3  the edge -> responsible-constraint map is live: installing a tighter constraint overwrites.
R4  the four explanation walks follow the predecessor row of the source of the tested distance, from its target back to the source,
    and push the literals with the polarity of their current value, plus the asserted / decided literal.
R5  matrix growth: new_var resizes when full; resize initialises like the constructor.
"""
from ..expr import LocalEnv, canon, show
from ..facts import AnalysisBroken, short, src, walk
from .. import sib_dl, dual, effects
from ..tables import enum_paths, path_literals, value_of, norm_literal, eq_test
from ..expr import mentions

ACCEPTED_SIBLING_DIFFS = {
    # method name: reason
    'listen': 'rdl_theory::listen only registers a listener while lb(v) < ub(v) (a fixed real variable never changes); idl registers always - a notification filter, not network state',
}


def r1(ctx, fs):
    rid = 'C10.R1'
    ctx.rule(rid, 'every method defined by both idl_theory and rdl_theory has the same normalised path set under I<->inf_rational '
                  '(k-1 <-> inf_rational(k,-1), integrality tests and finite-sentinel guards erased); methods present in only one theory are listed', floor=20)
    both, only = sib_dl.pairs(fs)
    for key, fa, fb in both:
        nm = fa.name.rsplit('::', 1)[-1]
        if nm in ('bounds', 'distance', 'equates', 'lb', 'ub'):
            continue        # C12.R2
        if not fa.body or not fb.body:
            continue
        sa, sb, oa, ob = sib_dl.compare(fs, fa, fb)
        ctx.instance(rid, fa.id, {'idl': fa.id, 'rdl': fb.id, 'paths': [len(sa), len(sb)]})
        if oa or ob:
            if nm in ACCEPTED_SIBLING_DIFFS:
                ctx.note('R1 accepted difference in %s: %s' % (nm, ACCEPTED_SIBLING_DIFFS[nm]))
                continue
            flags = dual.snapshot_flags(fa) + dual.snapshot_flags(fb)
            if flags:
                raise AnalysisBroken('%s / %s: the sibling comparison does not decide code that branches on a recorded flag (%s) whose test was made before the state it reads was changed' % (fa.id, fb.id, ', '.join(flags)))
            pa, pb = dual.first_difference(oa, ob)
            ca, ea, cb, eb = dual.eff_diff(pa, pb) if pa and pb else ((), (), (), ())
            ctx.finding(rid, fa.id, 'sibling', 'idl_theory::%s and rdl_theory::%s disagree (one of them is wrong): IDL only: %s %s ; RDL only: %s %s' % (
                nm, nm, [dual._show_cond(c) for c in ca], [dual._show_eff(e)[:300] for e in ea], [dual._show_cond(c) for c in cb], [dual._show_eff(e)[:300] for e in eb]),
                loc=fa.loc, construct='%s | %s' % (fa.loc, fb.loc), expect='identical structure under I <-> inf_rational')
    for f in only:
        ctx.note('R1: %s has no sibling in the other theory' % f.id)
        # not a violation by itself; floors on the paired set protect against a vanished sibling
    names = {fa.name.rsplit('::', 1)[-1] for _, fa, _ in both}
    for need in ('propagate', 'set_dist', 'set_pred', 'push', 'pop', 'resize', 'new_distance', 'new_var', 'check'):
        if need not in names:
            raise AnalysisBroken('C10.R1: method %s is no longer defined by both difference-logic theories' % need)


def _D(x, y, T):
    return ('[]', ('[]', T + '::_dists', x), y)


def r2(ctx, fs, rid='C10.R2'):
    ctx.rule(rid, 'propagate(lit): asserted constraint (to - from <= d): conflict iff dist[to][from] < -d, else edge (from,to,d) propagated when dist[from][to] > d; '
                  'negated: conflict iff dist[from][to] <= d, else edge (to,from,-d-unit) when dist[to][from] >= -d (unit = 1 / epsilon)', floor=8)
    for th in ('idl', 'rdl'):
        T = 'smt::%s_theory' % th
        f = fs.fn(T + '::propagate', params=['lit'])
        env = LocalEnv(f)
        env.param_roles(['p'])
        env.local_role('dist', lambda n, i: isinstance(i, tuple) and i[0] == 'mcall' and i[1].endswith('::at') and i[2] == T + '::var_dists')
        dist = env.init_of('dist', subst=True)
        if dist is None:
            raise AnalysisBroken('%s: local `dist` (the constraint controlled by p) not found' % f.id)
        FR, TO, DD = ('.', dist, 'from'), ('.', dist, 'to'), ('.', dist, 'dist')
        # decided on the paths of the function: whatever spells the dispatch on the value of the controlling literal (switch, if chain) and the two tests
        # of the distance matrix (if / else if, early exits), a path is in one arm (True / False) and has seen, in this order, the conflict test and -
        # when that failed - the test that decides whether the edge tightens the matrix
        VAL = ('mcall', 'smt::sat_core::value', 'smt::theory::sat', ('.', dist, 'b'))
        cn = lambda n: canon(n, env)
        arms = {'True': [], 'False': []}
        for p in enum_paths(f.body):
            L = path_literals(p, cn)
            if L is None:
                continue
            v = value_of(L, VAL)
            if v in arms:
                arms[v].append((p, L))
        for val in ('True', 'False'):
            if not arms[val]:
                raise AnalysisBroken('%s: no path on which the controlling literal is %s' % (f.id, val))
            if val == 'True':
                want1 = ('<', _D(TO, FR, T), ('neg', DD))
                want2 = ('<', DD, _D(FR, TO, T))
                wantp = (FR, TO, ('d', 1, 0))
            else:
                want1 = ('<=', _D(FR, TO, T), DD)
                want2 = ('<=', ('neg', DD), _D(TO, FR, T))
                wantp = (TO, FR, ('d', -1, -1))
            w1, w2 = norm_literal(want1, True), norm_literal(want2, True)
            neg = lambda w: (w[0], not w[1])
            firsts, seconds, edges = [], [], []
            shape_ok = True
            for p, L in arms[val]:
                D = [(c[1], c[2], c) for c in L if c[0] == 'if' and mentions(c[1], T + '::_dists')]
                calls = [m for st in p.stmts if not st.get('as') for m in walk(st) if m.get('callee_name') == T + '::propagate']
                if D:
                    firsts.append(D[0])
                if len(D) > 1:
                    seconds.append(D[1])
                lits = [(d[0], d[1]) for d in D]
                if lits == [neg(w1), w2]:
                    edges.append((p, calls))
                elif lits in ([w1], [neg(w1), neg(w2)]):
                    if calls:
                        edges.append((p, calls + [None]))       # an edge propagated although the test says there is nothing to tighten
                else:
                    shape_ok = False

            def as_written(d):
                # the test as the source spells it when it holds
                t, pol = d[0], d[1]
                return t if pol else ('<=', t[2], t[1]) if isinstance(t, tuple) and len(t) == 3 and t[0] == '<' else ('!', t)
            c1 = as_written(firsts[0]) if firsts else None
            # the conflict test is the first test of the matrix on every path of the arm (positive where the conflict is found)
            ok1 = bool(firsts) and all((d[0], d[1]) in (w1, neg(w1)) for d in firsts)
            ok2 = bool(seconds) and all((d[0], d[1]) in (w2, neg(w2)) for d in seconds)
            c2 = as_written(seconds[0]) if seconds else None
            ctx.instance(rid, [f.id, val, 'conflict'], {'arm': val, 'conflict_test': show(firsts[0][0]) if firsts else None})
            if not ok1:
                ctx.finding(rid, f.id, '%s/conflict' % val, '%s, literal %s: conflict test is %s, the semantics of "to - from <= d"%s requires %s' % (
                    f.name, val, show(c1), '' if val == 'True' else ' negated', show(want1)), node=(firsts[0][2][1] if False else arms[val][0][0].endnode) or f.body, expect=show(want1))
            ctx.instance(rid, [f.id, val, 'needs'], {'arm': val, 'propagation_test': show(seconds[0][0]) if seconds else None})
            if not ok2:
                ctx.finding(rid, f.id, '%s/needs' % val, '%s, literal %s: the test deciding whether the edge tightens the matrix is %s, expected %s' % (
                    f.name, val, show(c2), show(want2)), loc=f.loc, expect=show(want2))
            if ok1 and ok2 and not shape_ok:
                ctx.finding(rid, f.id, '%s/shape' % val, '%s, literal %s: a path does not make the conflict test and then, when it fails, the tightening test' % (f.name, val), loc=f.loc)
            # the propagated edge
            ecalls = [c for p, cs in edges for c in cs]
            ctx.instance(rid, [f.id, val, 'edge'], {'arm': val, 'edge_calls': [src(c) for c in ecalls if c is not None]})
            if not edges or any(len(cs) != 1 for p, cs in edges):
                ctx.finding(rid, f.id, '%s/edge' % val, '%s, literal %s: %d calls to propagate(from,to,d) in the tightening branch (expected 1)' % (f.name, val, len([c for c in ecalls if c is not None])),
                            loc=f.loc)
                continue
            for p, cs in edges:
                t = canon(cs[0], env)
                got = (t[3], t[4], _aff(t[5], DD))
                if got != wantp:
                    ctx.finding(rid, f.id, '%s/edge' % val, '%s, literal %s: propagates edge (%s, %s, %s); expected (%s, %s, %s)' % (
                        f.name, val, show(got[0]), show(got[1]), _fmt_aff(got[2]), show(wantp[0]), show(wantp[1]), _fmt_aff(wantp[2])), node=cs[0],
                        expect='asserted: (from, to, d); negated: (to, from, -d - unit)')
                    break


def _aff(t, DD):
    """(d, kcoef, unitcoef) reading of a distance term over DD = dist->dist."""
    def go(t):
        if t == DD:
            return (1, 0)
        if isinstance(t, tuple):
            if t[0] == 'num':
                return (0, t[1])
            if t[0] == 'neg':
                a = go(t[1])
                return None if a is None else (-a[0], -a[1])
            if t[0] in ('+', '-') and len(t) == 3:
                a, b = go(t[1]), go(t[2])
                if a is None or b is None:
                    return None
                return (a[0] + b[0], a[1] + b[1]) if t[0] == '+' else (a[0] - b[0], a[1] - b[1])
            if t[0] == 'new' and t[1] == 'smt::inf_rational':
                if len(t) == 3:
                    return go(t[2]) if t[2] != 'smt::rational::ZERO' else (0, 0)
                if len(t) == 4:
                    a = (0, 0) if t[2] == 'smt::rational::ZERO' else go(t[2])
                    n = {'smt::rational::ONE': 1, 'smt::rational::ZERO': 0}.get(t[3], t[3][1] if isinstance(t[3], tuple) and t[3][0] == 'num' else None)
                    if a is None or n is None:
                        return None
                    return (a[0], a[1] + n)
        return None
    r = go(t)
    return ('d',) + r if r is not None else ('?', show(t))


def _fmt_aff(a):
    if a[0] != 'd':
        return str(a[1])
    return '%s*d %+d*unit' % (a[1], a[2])


def r3(ctx, fs):
    rid = 'C10.R3'
    ctx.rule(rid, 'when propagate(lit) makes a constraint responsible for edge (x,y), the store into dist_constr overwrites a previous entry '
                  '(operator[]= / insert_or_assign; emplace/insert keep the older, weaker constraint and explanations cite the wrong literal)', floor=4)
    for th in ('idl', 'rdl'):
        T = 'smt::%s_theory' % th
        f = fs.fn(T + '::propagate', params=['lit'])
        sts = [s for s in effects.stores(f) if s.fields and s.fields[0] == T + '::dist_constr']
        # the arm a store belongs to: the value that the paths through it give to the controlling literal (switch arm or branch of an if chain)
        env = LocalEnv(f)
        cn = lambda n: canon(n, env)
        is_val = lambda t: isinstance(t, tuple) and t[:3] == ('mcall', 'smt::sat_core::value', 'smt::theory::sat')
        pv = []
        for p in enum_paths(f.body):
            L = path_literals(p, cn)
            if L is None:
                continue
            vs = {value_of(L, ek[0]) for c in L if c[0] == 'if' and c[2] for ek in [eq_test(c[1])] if ek is not None and is_val(ek[0])}
            pv.append((p, next(iter(vs)) if len(vs) == 1 else None))
        i = 0
        for s in sts:
            i += 1
            arms = {v for p, v in pv if any(m is s.node for st in p.stmts for m in walk(st))}
            arm = next(iter(arms)) if len(arms) == 1 else None
            disc = 'install/%s' % arm
            ctx.instance(rid, [f.id, disc], {'function': f.id, 'store': src(s.node), 'how': s.how})
            if s.how in ('emplace', 'insert', 'try_emplace', 'emplace_hint'):
                ctx.finding(rid, f.id, disc, '%s: dist_constr.%s(...) does not replace the constraint already responsible for that edge; with two constraints on one pair the '
                            'explanation of a later conflict/propagation cites the older, weaker one (unsound learnt clause)' % (f.name, s.how), node=s.node,
                            expect='dist_constr[edge] = dist  (or insert_or_assign)')


def r4(ctx, fs):
    rid = 'C10.R4'
    ctx.rule(rid, 'every explanation walk: triggered by a test of dist[X][Y]; starts at Y, ends at X, steps through _preds[X][.], looks edge (_preds[X][c], c) up in dist_constr, '
                  'pushes !b for a true and b for a false responsible literal; the walk is accompanied by the literal being explained', floor=8)
    for th in ('idl', 'rdl'):
        T = 'smt::%s_theory' % th
        for f in fs.fns_named(T + '::propagate'):
            env = LocalEnv(f)
            for w in [n for n in f.nodes() if n.get('k') == 'WhileStmt']:
                cond = canon(w['slots']['cond'], env, subst=False)
                if not (isinstance(cond, tuple) and cond[0] == '!=' and len(cond) == 3):
                    raise AnalysisBroken('%s: unrecognised walk loop condition %s' % (f.id, show(cond)))
                # loop variable: the local that is assigned in the body
                body = w['slots']['body']
                asg = [s for s in effects.stores(_W(body)) if s.kind == 'local' and s.how == '=']
                if len(asg) != 1:
                    raise AnalysisBroken('%s: walk at %s: expected exactly one step assignment' % (f.id, short(w.get('loc'))))
                v = asg[0].root
                END = cond[2] if cond[1] == v else cond[1] if cond[2] == v else None
                if END is None:
                    raise AnalysisBroken('%s: walk at %s: loop condition does not test the walk variable' % (f.id, short(w.get('loc'))))
                END = canon_sub(END, env)
                def res1(t):
                    # the predecessor may be read into a local of the loop body first (`c_pred = _preds[R][v]; ... v = c_pred;`): same value within the iteration
                    if isinstance(t, str):
                        ds = [n for n in walk(body) if n.get('k') == 'VarDecl' and env.rename.get(n.get('loc'), n.get('name')) == t and isinstance(n.get('init'), dict)]
                        if len(ds) == 1:
                            return canon(ds[0]['init'], env, subst=False)
                    return t
                step = res1(canon(asg[0].value, env, subst=False))      # ([] ([] _preds R) v)
                R_step = step[1][2] if isinstance(step, tuple) and step[0] == '[]' and isinstance(step[1], tuple) and step[1][1] == T + '::_preds' and step[2] == v else None
                # start value
                START = None
                tg = asg[0].target
                dn = f.decl(tg.get('dloc')) if isinstance(tg, dict) and tg.get('k') == 'DeclRefExpr' else None      # the declaration of the walk variable itself
                if dn is not None and isinstance(dn.get('init'), dict):
                    START = canon(dn['init'], env)
                # look-up
                finds = [n for n in walk(body) if n.get('k') == 'CXXMemberCallExpr' and (n.get('callee_name') or '').endswith('::find') and
                         canon(n['c'][0]['c'][0], env, subst=False) == T + '::dist_constr']
                R_find = None
                if len(finds) == 1:
                    k = canon(finds[0]['c'][1], env, subst=False)
                    parts = k[1:] if isinstance(k, tuple) and k[0] in ('list',) else (k[2:] if isinstance(k, tuple) and k[0] == 'new' else ())
                    if len(parts) == 1 and isinstance(parts[0], tuple) and parts[0][0] == 'list':
                        parts = parts[0][1:]
                    if len(parts) == 2:
                        parts = (res1(parts[0]), parts[1])
                    if len(parts) == 2 and parts[1] == v and isinstance(parts[0], tuple) and parts[0][0] == '[]' and parts[0][2] == v:
                        R_find = parts[0][1][2]
                R_step_c = canon_sub(R_step, env) if R_step is not None else None
                R_find_c = canon_sub(R_find, env) if R_find is not None else None
                # triggering test: nearest enclosing if whose condition reads _dists[X][Y]
                trig = None
                for a in f.ancestors(w):
                    if a.get('k') == 'IfStmt' and _inside_then(a, w):
                        c = canon(a['slots']['cond'], env)
                        ds = [x for x in _subterms(c) if isinstance(x, tuple) and x[0] == '[]' and isinstance(x[1], tuple) and x[1][0] == '[]' and x[1][1] == T + '::_dists']
                        if ds:
                            trig = (ds[0][1][2], ds[0][2])
                            break
                which = _walk_name(f, w)
                ctx.instance(rid, [f.id, which], {'function': f.id, 'walk': which, 'site': short(w.get('loc')), 'tested_distance': [show(x) for x in trig] if trig else None,
                                                 'start': show(START), 'end': show(END), 'pred_row_step': show(R_step_c), 'pred_row_lookup': show(R_find_c)})
                if trig is None:
                    raise AnalysisBroken('%s: walk at %s is not guarded by a test of a distance' % (f.id, short(w.get('loc'))))
                X, Y = trig
                bad = []
                if START != Y:
                    bad.append('starts at %s instead of the target %s of the tested distance' % (show(START), show(Y)))
                if END != X:
                    bad.append('stops at %s instead of the source %s of the tested distance' % (show(END), show(X)))
                if R_step_c != X:
                    bad.append('steps through _preds[%s][.] instead of _preds[%s][.]' % (show(R_step_c), show(X)))
                if R_find_c != X:
                    bad.append('looks up edge (_preds[%s][c], c) instead of (_preds[%s][c], c)' % (show(R_find_c), show(X)))
                for b in bad:
                    ctx.finding(rid, f.id, which + '/' + b.split(' ')[0], '%s, %s walk: %s - the explanation does not follow the shortest path that produced dist[%s][%s]' % (
                        f.name, which, b, show(X), show(Y)), node=w, expect='c = Y; while (c != X) { edge (_preds[X][c], c); c = _preds[X][c]; }')
                # polarity of the pushed literals
                pol_ok = _polarity_ok(body, env)
                if not pol_ok:
                    ctx.finding(rid, f.id, which + '/polarity', '%s, %s walk: a responsible literal is not pushed negated-if-true / plain-if-false' % (f.name, which), node=w,
                                expect='value(b)==True -> cnfl.emplace_back(!b); value(b)==False -> cnfl.emplace_back(b)')


class _W:
    def __init__(self, s):
        self.s = s

    def nodes(self):
        return walk(self.s)


def canon_sub(t_or_name, env):
    """canonical term with locals substituted, for a term that was produced with subst=False."""
    if isinstance(t_or_name, str):
        # local name -> its definition
        for d, nm in env.names.items():
            if nm == t_or_name and d in env.defs and d not in env.assigned:
                init = env.definition({'dloc': d})
                if init is not None:
                    return canon(init, env)
        return t_or_name
    if isinstance(t_or_name, tuple):
        return tuple(canon_sub(x, env) for x in t_or_name)
    return t_or_name


def _before(a, b):
    def pos(n):
        try:
            p = n['loc'].rsplit(':', 2)
            return (int(p[1]), int(p[2]))
        except Exception:
            return (0, 0)
    # nearest preceding declaration: same function, earlier position, closest
    return pos(a) < pos(b) and pos(b)[0] - pos(a)[0] < 4


def _inside_then(ifn, n):
    for m in walk(ifn['slots'].get('then')):
        if m is n:
            return True
    return False


def _subterms(t):
    yield t
    if isinstance(t, tuple):
        for x in t:
            yield from _subterms(x)


def _walk_name(f, w):
    """stable name of a walk: the case arm / comparison that guards it."""
    for a in f.ancestors(w):
        if a.get('k') == 'IfStmt' and _inside_then(a, w):
            c = a['slots']['cond']
            op = c.get('op')
            if op in ('<', '<=', '>', '>='):
                case = None
                for b in f.ancestors(a):
                    if b.get('k') == 'CaseStmt':
                        case = b.get('case_name')
                        break
                return '%s%s' % ((case + '/') if case else '', {'<': 'inconsistent', '<=': 'redundant'}.get(op, op))
    return 'walk'


def _polarity_ok(body, env):
    """in the walk body: if (value(X) == True) emplace_back(!X) ; else if (value(X) == False) emplace_back(X)."""
    n_ok = 0
    for n in walk(body):
        if n.get('k') != 'IfStmt':
            continue
        c = canon(n['slots']['cond'], env, subst=False)
        if isinstance(c, tuple) and c[0] == '==' and len(c) == 3 and 'smt::True' in c or isinstance(c, tuple) and c[0] == '==' and 'smt::False' in c:
            val = 'smt::True' if 'smt::True' in c else 'smt::False'
            other = c[1] if c[2] == val else c[2]
            if not (isinstance(other, tuple) and other[0] == 'mcall' and other[1] == 'smt::sat_core::value'):
                continue
            b = other[3]
            pushes = [m for m in walk(n['slots']['then']) if m.get('k') == 'CXXMemberCallExpr' and (m.get('callee_name') or '').endswith('::emplace_back')]
            for m in pushes:
                arg = canon(m['c'][1], env, subst=False)
                want = ('!', b) if val == 'smt::True' else b
                if arg != want:
                    return False
                n_ok += 1
    return n_ok >= 2


def r5(ctx, fs):
    rid = 'C10.R5'
    ctx.rule(rid, 'new_var grows the matrices when they are full (size() == index of the new variable); resize gives every new row/column the initial values of the constructor '
                  '(diagonal distance 0, predecessor row i, no predecessor on the diagonal)', floor=6)
    for th in ('idl', 'rdl'):
        T = 'smt::%s_theory' % th
        f = fs.fn(T + '::new_var')
        env = LocalEnv(f)
        ok = False
        for n in f.nodes():
            if n.get('k') == 'IfStmt':
                c = canon(n['slots']['cond'], env)
                calls = [m for m in walk(n['slots']['then']) if m.get('callee_name') == T + '::resize']
                if calls and isinstance(c, tuple) and c[0] == '==' and any(isinstance(x, tuple) and x[0] == 'mcall' and x[1].endswith('::size') and x[2] == T + '::_dists' for x in c[1:]) \
                        and any(x == ('post++', T + '::n_vars') for x in c[1:]):
                    ok = True
        ctx.instance(rid, [f.id, 'grow'], {'function': f.id, 'resizes_when_full': ok})
        if not ok:
            ctx.finding(rid, f.id, 'grow', '%s does not resize the matrices exactly when the new index equals their size' % f.name, loc=f.loc,
                        expect='var tp = n_vars++; if (_dists.size() == tp) resize(...)')
        # constructor vs resize: same initialisation effects
        ctor = fs.fn(T + '::%s_theory' % th, params=['sat_core', 'unsigned long'])
        rs = fs.fn(T + '::resize')
        for g, what in ((ctor, 'constructor'), (rs, 'resize')):
            genv = LocalEnv(g)
            diag0 = diagmax = fillrow = False
            for s in effects.stores(g):
                if not s.fields:
                    continue
                t = canon(s.target, genv, subst=False) if s.target is not None else None
                if s.how == '=' and s.fields[0] == T + '::_dists' and isinstance(t, tuple) and t[0] == '[]' and isinstance(t[1], tuple) and t[1][2] == t[2]:
                    v = canon(s.value, genv)
                    diag0 = v in (('num', 0), ('new', 'smt::inf_rational', 'smt::rational::ZERO'), ('new', 'smt::inf_rational'))
                if s.how == '=' and s.fields[0] == T + '::_preds' and isinstance(t, tuple) and t[0] == '[]' and isinstance(t[1], tuple) and t[1][2] == t[2]:
                    diagmax = 'max' in show(canon(s.value, genv))
                if s.how == 'fill' and s.fields[0] == T + '::_preds':
                    a = [canon(x, genv, subst=False) for x in s.value]
                    if len(a) == 3 and isinstance(a[0], tuple) and a[0][0] == 'mcall' and isinstance(a[0][2], tuple) and a[0][2][0] == '[]' and a[0][2][2] == a[2]:
                        fillrow = True
            ctx.instance(rid, [g.id, 'init'], {'function': g.id, 'diagonal_zero': diag0, 'pred_row_is_i': fillrow, 'pred_diagonal_none': diagmax})
            for okk, msg in ((diag0, 'does not set the distance of a new variable to itself to 0'), (fillrow, 'does not initialise the predecessor row of new variable i to i'),
                             (diagmax, 'does not clear the predecessor of (i,i)')):
                if not okk:
                    ctx.finding(rid, g.id, 'init/' + msg.split(' ')[4], '%s %s' % (g.name, msg), loc=g.loc)


def r6(ctx, fs):
    rid = 'C10.R6'
    ctx.rule(rid, 'besides the walk, every explanation contains the literal it is about with the right polarity: conflict on asserting p -> !p and return false; '
                  'undecided constraint found inconsistent -> !b, found redundant -> b, then record(cnfl) and cnfl.clear()', floor=8)
    for th in ('idl', 'rdl'):
        T = 'smt::%s_theory' % th
        for f in fs.fns_named(T + '::propagate'):
            env = LocalEnv(f)
            is_lit = 'lit' in f['params'][0]['t']
            if is_lit:
                env.param_roles(['p'])
            for w in [n for n in f.nodes() if n.get('k') == 'WhileStmt']:
                which = _walk_name(f, w)
                blk = None
                for a in f.ancestors(w):
                    if a.get('k') == 'IfStmt' and _inside_then(a, w):
                        blk = a['slots']['then']
                        break
                pushes = []
                for n in walk(blk):
                    if n.get('k') == 'CXXMemberCallExpr' and (n.get('callee_name') or '').rsplit('::', 1)[-1] in ('emplace_back', 'push_back') and \
                            canon(n['c'][0]['c'][0], env, subst=False) == 'smt::theory::cnfl' and not _inside_node(w, n):
                        pushes.append(canon(n['c'][1], env, subst=False))
                if is_lit:
                    want = ('!', 'p')
                    tail_ok = any(n.get('k') == 'ReturnStmt' and canon((n.get('c') or [None])[0], env) == 'false' for n in walk(blk))
                    tail = 'return false'
                else:
                    b = [x for x in pushes]
                    # the constraint variable is the range-for variable of the innermost enclosing loop
                    want = None
                    for a in f.ancestors(w):
                        if a.get('k') == 'CXXForRangeStmt':
                            v = a['slots']['var'].get('name')
                            want = ('!', ('.', v, 'b')) if 'inconsistent' in which else ('.', v, 'b')
                            break
                    calls = [canon(n, env, subst=False) for n in walk(blk) if n.get('k') == 'CXXMemberCallExpr' and n.get('callee_name') in ('smt::theory::record',)]
                    clears = [n for n in walk(blk) if n.get('k') == 'CXXMemberCallExpr' and (n.get('callee_name') or '').endswith('::clear') and canon(n['c'][0]['c'][0], env, subst=False) == 'smt::theory::cnfl']
                    tail_ok = len(calls) == 1 and calls[0][3] == 'smt::theory::cnfl' and len(clears) == 1
                    tail = 'record(cnfl); cnfl.clear()'
                ctx.instance(rid, [f.id, which], {'function': f.id, 'explanation': which, 'own_literal_pushes': [show(x) for x in pushes], 'expected': show(want), 'tail': tail, 'tail_ok': tail_ok})
                if pushes != [want]:
                    ctx.finding(rid, f.id, which + '/own', '%s, %s explanation: pushes %s for the literal being explained, expected exactly %s' % (
                        f.name, which, [show(x) for x in pushes], show(want)), node=blk, expect=show(want))
                if not tail_ok:
                    ctx.finding(rid, f.id, which + '/tail', '%s, %s explanation is not followed by `%s`' % (f.name, which, tail), node=blk, expect=tail)


def _inside_node(root, n):
    for m in walk(root):
        if m is n:
            return True
    return False


def run(ctx):
    fs = ctx.facts('P')
    r6(ctx, fs)
    r1(ctx, fs)
    r2(ctx, fs)
    r3(ctx, fs)
    r4(ctx, fs)
    r5(ctx, fs)
