"""C06 - active atoms are temporally well-formed within [origin, horizon] (DESIGN 4, C06).

R1  the constraints exist: INIT_STRING of the configured build (LA and DL forms) contains, as linear atoms, the temporal rule of
    Impulse and Interval and the global origin / horizon constraints (supersets and re-orderings pass).
R2  every activation path applies the rule: goals (C03.R3), inherited rules first, the fact arm of every smart type's new_atom
    brackets apply_rule of the right temporal predicate with set_ni(lit(sigma)) / restore_ni(), the synthetic predicates of the
    smart types are Intervals; facts on plain predicates.
"""
import re

from ..expr import LocalEnv, canon, show
from ..facts import walk_nolambda, AnalysisBroken, UNSUPPORTED, init_h, short, src, walk
from ..tables import enum_paths
from .. import cfg

TOK = re.compile(r'\s*(>=|<=|==|[A-Za-z_][A-Za-z_0-9]*|\d+\.\d+|\d+|[-+*/(){};,:])')


def tokenize(s):
    out = []
    i = 0
    while i < len(s):
        m = TOK.match(s, i)
        if not m:
            if s[i:].strip() == '':
                break
            raise AnalysisBroken('INIT_STRING: cannot tokenise at %r' % s[i:i + 20])
        out.append(m.group(1))
        i = m.end()
    return out


def linear(tokens):
    """sum of +-terms (identifier | number) -> ({var: coef}, const)."""
    vs, k = {}, 0.0
    sign = 1
    i = 0
    while i < len(tokens):
        t = tokens[i]
        if t == '+':
            sign = 1
        elif t == '-':
            sign = -1
        elif re.match(r'^\d', t):
            k += sign * float(t)
            sign = 1
        elif re.match(r'^[A-Za-z_]', t):
            vs[t] = vs.get(t, 0) + sign
            sign = 1
        else:
            raise AnalysisBroken('INIT_STRING: unsupported token %r in a constraint' % t)
        i += 1
    return vs, k


def atom_of(stmt):
    """statement tokens `lhs OP rhs` -> canonical linear atom (frozenset of (var, coef)), const, op in {'>=', '=='}."""
    for op in ('>=', '<=', '=='):
        if op in stmt:
            i = stmt.index(op)
            l, lk = linear(stmt[:i])
            r, rk = linear(stmt[i + 1:])
            d = dict(l)
            for v, c in r.items():
                d[v] = d.get(v, 0) - c
            k = lk - rk
            if op == '<=':
                d = {v: -c for v, c in d.items()}
                k = -k
                op = '>='
            d = {v: c for v, c in d.items() if c != 0}
            if op == '==':
                first = sorted(d)[0] if d else None
                if first is not None and d[first] < 0:
                    d = {v: -c for v, c in d.items()}
                    k = -k
            return (frozenset(d.items()), k, op)
    return None


def parse_init(s):
    m = re.search(r'#define\s+INIT_STRING\s+"(.*)"', s)
    if not m:
        raise AnalysisBroken('INIT_STRING not found in the generated init.h')
    toks = tokenize(m.group(1))
    preds = {}
    glob = []
    decls = []
    i = 0
    while i < len(toks):
        if toks[i] == 'predicate':
            name = toks[i + 1]
            j = toks.index(')', i)
            params = [t for t in toks[i + 3:j] if t != ',']
            b0 = toks.index('{', j)
            b1 = toks.index('}', b0)
            body = toks[b0 + 1:b1]
            stmts = []
            cur = []
            for t in body:
                if t == ';':
                    if cur:
                        stmts.append(cur)
                    cur = []
                else:
                    cur.append(t)
            preds[name] = (params, [atom_of(x) for x in stmts])
            i = b1 + 1
        else:
            j = toks.index(';', i)
            st = toks[i:j]
            a = atom_of(st)
            if a is None:
                decls.append(tuple(st))
            else:
                glob.append(a)
            i = j + 1
    return preds, glob, decls, m.group(1)


def A(op, k=0.0, **vs):
    d = {v: c for v, c in vs.items()}
    if op == '==':
        first = sorted(d)[0]
        if d[first] < 0:
            d = {v: -c for v, c in d.items()}
            k = -k
    return (frozenset(d.items()), float(k), op)


REQ = {
    'LA': {
        'Impulse': (['real', 'at'], [A('>=', at=1, origin=-1), A('>=', horizon=1, at=-1)]),
        'Interval': (['real', 'start', 'real', 'end', 'real', 'duration'],
                     [A('>=', start=1, origin=-1), A('>=', horizon=1, end=-1), A('==', duration=1, end=-1, start=1), A('>=', duration=1)]),
        'global': [A('>=', origin=1), A('>=', horizon=1, origin=-1)],
        'decls': {('real', 'origin'), ('real', 'horizon')},
    },
    'DL': {
        'Impulse': (['tp', 'at'], [A('>=', at=1, origin=-1), A('>=', horizon=1, at=-1)]),
        'Interval': (['tp', 'start', 'tp', 'end'], [A('>=', start=1, origin=-1), A('>=', end=1, start=-1), A('>=', horizon=1, end=-1)]),
        'global': [A('>=', origin=1), A('>=', horizon=1, origin=-1)],
        'decls': {('tp', 'origin'), ('tp', 'horizon')},
    },
}


def fmt_atom(a):
    vs, k, op = a
    s = ' '.join('%+g*%s' % (c, v) for v, c in sorted(vs))
    return '%s %+g %s 0' % (s, k, op)


def r1(ctx, fs):
    rid = 'C06.R1'
    ctx.rule(rid, 'INIT_STRING of the configured build, both temporal-network forms: Impulse {at >= origin, at <= horizon}; Interval LA {start >= origin, end <= horizon, duration == end - start, duration >= 0} / '
                  'DL {start >= origin, start <= end, end <= horizon}; origin >= 0, origin <= horizon; parameters and globals declared (linear atoms, sign-normalised; supersets pass)', floor=16)
    for form, text in (('LA', fs.init_h), ('DL', init_h(UNSUPPORTED['DL']))):
        if not text:
            raise AnalysisBroken('generated init.h missing for %s' % form)
        preds, glob, decls, raw = parse_init(text)
        req = REQ[form]
        for pname in ('Impulse', 'Interval'):
            if pname not in preds:
                ctx.finding(rid, 'INIT_STRING/' + form, pname, 'INIT_STRING (%s) does not define predicate %s' % (form, pname), loc='solver/CMakeLists.txt')
                continue
            params, atoms = preds[pname]
            wp, wa = req[pname]
            ctx.instance(rid, [form, pname, 'params'], {'form': form, 'predicate': pname, 'parameters': params})
            if params != wp:
                ctx.finding(rid, 'INIT_STRING/' + form, pname + '/params', 'INIT_STRING (%s): %s is declared with parameters %s, expected %s' % (form, pname, params, wp), loc='solver/CMakeLists.txt')
            for a in wa:
                ok = a in atoms
                ctx.instance(rid, [form, pname, fmt_atom(a)], {'form': form, 'predicate': pname, 'required': fmt_atom(a), 'present': ok})
                if not ok:
                    ctx.finding(rid, 'INIT_STRING/' + form, pname + ': ' + fmt_atom(a), 'INIT_STRING (%s): the rule of %s lacks the constraint %s (it has %s): active %s atoms are not temporally well-formed' % (
                        form, pname, fmt_atom(a), [fmt_atom(x) for x in atoms if x], pname), loc='solver/CMakeLists.txt', construct=raw[:300])
        for a in req['global']:
            ok = a in glob
            ctx.instance(rid, [form, 'global', fmt_atom(a)], {'form': form, 'required': fmt_atom(a), 'present': ok})
            if not ok:
                ctx.finding(rid, 'INIT_STRING/' + form, 'global: ' + fmt_atom(a), 'INIT_STRING (%s) lacks the global constraint %s' % (form, fmt_atom(a)), loc='solver/CMakeLists.txt', construct=raw[:300])
        missing = req['decls'] - set(decls)
        if missing:
            ctx.finding(rid, 'INIT_STRING/' + form, 'decls', 'INIT_STRING (%s) does not declare %s' % (form, sorted(missing)), loc='solver/CMakeLists.txt')
    # the string is what solver::init reads, and the predicates are looked up by the names used in it
    f = fs.fn('ratio::solver::init')
    s = ' '.join(show(canon(n)) for n in f.nodes() if n.get('k') in ('CXXMemberCallExpr', 'CallExpr'))
    ok = 'solver::read this' in s and "'Impulse'" in s and "'Interval'" in s
    ctx.instance(rid, [f.id, 'reads'], {'reads_init_string_and_binds_predicates': ok})
    if not ok:
        ctx.finding(rid, f.id, 'reads', 'solver::init must read INIT_STRING and bind the Impulse / Interval predicates', loc=f.loc)


SMART = {
    'ratio::state_variable': {'get_interval'},
    'ratio::reusable_resource': {'u_pred'},
    'ratio::consumable_resource': {'p_pred', 'c_pred'},
    'ratio::agent': {'get_impulse', 'get_interval'},
}

# accepted design decision, recorded as a known finding (see known_findings.json): key below
PLAIN_FACT_KEY = 'plain-fact'


def r2(ctx, fs):
    rid = 'C06.R2'
    ctx.rule(rid, 'every path on which an atom becomes active applies its temporal rule under the atom\'s sigma: goals through activate_goal (C03.R3); facts of the four smart types in new_atom '
                  '(set_ni(lit(sigma)); <temporal predicate>.apply_rule(atm); restore_ni(), guarded only by is_fact); the synthetic predicates are Intervals; facts on plain predicates', floor=9)
    for cls, preds in SMART.items():
        f = fs.fn(cls + '::new_atom')
        env = LocalEnv(f)
        env.param_roles(['f'])
        # decided on the paths of new_atom (helpers unknown to the inventory are inlined): on every path taken for a fact the sequence is
        # set_ni(lit(sigma of the atom)); exactly one <temporal predicate>.apply_rule(atom); restore_ni() - and on no other path
        SET, RULE, REST = 'ratio::smart_type::set_ni', 'ratio::predicate::apply_rule', 'ratio::smart_type::restore_ni'
        used = set()
        ok = True
        detail = []
        n_fact_paths = 0
        for p in enum_paths(f.body):
            if p.end == 'throw':
                continue
            fact = None
            other = []
            for kind, node, pol in p.conds:
                if kind != 'if':
                    continue
                c = canon(node, env, subst=False)
                if c == ('.', 'f', 'is_fact'):
                    fact = pol
            seq = []
            for st in p.stmts:
                for m in walk_nolambda(st):
                    if m.get('callee_name') in (SET, RULE, REST) and not m.get('as'):
                        seq.append((m.get('callee_name'), m))
            names = [x[0] for x in seq]
            if fact:
                n_fact_paths += 1
                if names != [SET, RULE, REST]:
                    ok = False
                    detail.append('fact path: %s' % [x.rsplit('::', 1)[-1] for x in names])
                else:
                    a0 = canon(seq[0][1], env)
                    if not (isinstance(a0[3], tuple) and a0[3][0] == 'lit' and 'sigma' in show(a0[3]) and 'get_atom' in show(a0[3])):
                        ok = False
                        detail.append('set_ni(%s)' % show(a0[3]))
                    rs = show(canon(seq[1][1], env)[2])
                    for pr in preds:
                        if pr in rs:
                            used.add(pr)
            elif names:
                ok = False
                detail.append('non-fact path: %s' % [x.rsplit('::', 1)[-1] for x in names])
        ctx.instance(rid, [f.id, 'fact-rule'], {'smart_type': cls, 'rule_predicates': sorted(used), 'fact_paths': n_fact_paths, 'problems': detail[:4]})
        if not (ok and n_fact_paths and used == preds):
            ctx.finding(rid, f.id, 'fact-rule', '%s: a fact on this type must get the temporal rule of %s applied exactly once between set_ni(lit(sigma)) and restore_ni(), under no other condition than is_fact '
                        '(found predicates %s, %s)' % (f.name, sorted(preds), sorted(used), '; '.join(detail[:4]) or 'no fact path'), loc=f.loc)
    # goals get the temporal rule through predicate::apply_rule, which must reach the inherited rules unconditionally
    from .C03 import apply_rule_shape
    apply_rule_shape(ctx, rid, fs)
    # the facts only reach new_atom of their smart type if solver::new_atom finds it among ALL supertypes
    from . import _smart
    _smart.notify_smart_types(ctx, rid, fs)
    # synthetic predicates of the resources are Intervals
    for fn in ('ratio::reusable_resource::use_predicate::use_predicate', 'ratio::consumable_resource::produce_predicate::produce_predicate', 'ratio::consumable_resource::consume_predicate::consume_predicate'):
        f = fs.fn(fn)
        calls = [show(canon(n)) for n in f.nodes() if n.get('callee_name') == 'ratio::type::new_supertypes']
        ok = any("'Interval'" in c for c in calls)
        ctx.instance(rid, [f.id, 'interval'], {'predicate': fn.rsplit('::', 1)[-1], 'is_interval': ok})
        if not ok:
            ctx.finding(rid, f.id, 'interval', '%s must have Interval as supertype' % fn.rsplit('::', 1)[-1], loc=f.loc)
    # agent: Impulse rule iff the predicate is an Impulse
    f = fs.fn('ratio::agent::new_atom')
    env = LocalEnv(f)
    for n in f.nodes():
        if n.get('k') == 'IfStmt' and 'is_assignable_from' in show(canon(n['slots']['cond'], env, subst=False)):
            c = show(canon(n['slots']['cond'], env, subst=False))
            t = ' '.join(show(canon(m, env)) for m in walk(n['slots']['then']) if m.get('callee_name') == 'ratio::predicate::apply_rule')
            e = ' '.join(show(canon(m, env)) for m in walk(n['slots'].get('else')) if m.get('callee_name') == 'ratio::predicate::apply_rule')
            ok = 'get_impulse' in c and 'get_impulse' in t and 'get_interval' in e
            ctx.instance(rid, [f.id, 'impulse-or-interval'], {'test': c[:160], 'ok': ok})
            if not ok:
                ctx.finding(rid, f.id, 'impulse-or-interval', 'agent::new_atom must apply the Impulse rule to impulse atoms and the Interval rule to the others', node=n)
    # facts on plain predicates: activate_fact::apply must reach apply_rule
    f = fs.fn('ratio::atom_flaw::activate_fact::apply')
    reach = any(n.get('callee_name') == 'ratio::predicate::apply_rule' for n in f.nodes())
    g = fs.fn('ratio::atom_flaw::activate_goal::apply')
    reach_goal = any(n.get('callee_name') == 'ratio::predicate::apply_rule' for n in g.nodes())
    ctx.instance(rid, [f.id, PLAIN_FACT_KEY], {'activate_fact_applies_rule': reach, 'activate_goal_applies_rule': reach_goal})
    if not reach_goal:
        ctx.finding(rid, g.id, 'goal-rule', 'activate_goal::apply must apply the rule of the goal (temporal constraints included)', loc=g.loc)
    if not reach:
        ctx.finding(rid, f.id, PLAIN_FACT_KEY, 'activate_fact::apply does not apply the (inherited) rule of the fact\'s predicate: a fact on a plain Interval predicate is active with unconstrained start / end / duration '
                    '(`predicate P() : Interval {} fact f = new P(start: 5.0, end: 3.0);` is reported solved)', loc=f.loc, expect='the Interval / Impulse rule applied to every active atom')


def run(ctx):
    fs = ctx.facts('P')
    r1(ctx, fs)
    r2(ctx, fs)
