"""C04 - atoms on a state variable never overlap (DESIGN 4, C04).

R1  solution gate (C01.R1 re-evaluated: shared code).
R2  every peak pair is reported: peak test size() > 1, one report per 2-combination, unconditionally, with both orderings offered.
R3  sweep agreement between the checker and the timeline extractor.
R4  ordering literals mean what their index says (store_variables).
R5  listener exhaustiveness.
R6  new_predicate adds the Interval supertype and the tau field; new_atom stores variables against every existing atom.
"""
from ..expr import LocalEnv, canon, show
from ..facts import AnalysisBroken, short, src, walk, walk_nolambda
from . import _smart
from .C01 import gate

SV = 'ratio::state_variable'


def r2(ctx, fs):
    rid = 'C04.R2'
    ctx.rule(rid, 'state_variable::get_current_incs: active atoms only; a pulse is a peak iff more than one atom overlaps; for every 2-combination of the overlapping atoms exactly one choice set is appended, '
                  'unconditionally (an empty one forces back-tracking); the choices offer leqs[a0][a1] and leqs[a1][a0] unless already False', floor=5)
    f = fs.fn(SV + '::get_current_incs')
    env = LocalEnv(f)
    _smart.active_partition(ctx, rid, f, SV)
    peak = None
    comb = None
    for n in f.nodes():
        if n.get('k') == 'IfStmt':
            c = canon(n['slots']['cond'], env, subst=False)
            if isinstance(c, tuple) and c[0] == '<' and 'overlapping_atoms' in show(c) and 'size' in show(c):
                peak = (c, n)
                for m in walk(n['slots']['then']):
                    if m.get('k') == 'CXXForRangeStmt' and 'combinations' in show(canon(m['slots']['range'], env, subst=False)):
                        comb = m
    okp = peak is not None and peak[0] == ('<', ('num', 1), ('mcall', 'std::set<ratio::atom *>::size', 'overlapping_atoms'))
    ctx.instance(rid, [f.id, 'peak'], {'peak_test': show(peak[0]) if peak else None})
    if not okp:
        ctx.finding(rid, f.id, 'peak', 'state_variable::get_current_incs: a pulse is inconsistent as soon as two atoms overlap (overlapping_atoms.size() > 1); found %s' % (show(peak[0]) if peak else None),
                    node=peak[1] if peak else None, loc=f.loc)
    if comb is None:
        raise AnalysisBroken('%s: loop over the 2-combinations of the overlapping atoms not found' % f.id)
    r = canon(comb['slots']['range'], env, subst=False)
    okc = isinstance(r, tuple) and r[0] == 'call' and r[1] == 'ratio::combinations' and r[-1] == ('num', 2) and 'overlapping_atoms' in show(r[2])
    ctx.instance(rid, [f.id, 'pairs'], {'range': show(r)[:200]})
    if not okc:
        ctx.finding(rid, f.id, 'pairs', 'state_variable::get_current_incs must examine every pair of overlapping atoms (combinations(overlapping_atoms, 2)); found %s' % show(r)[:200], node=comb)
    body = comb['slots']['body']
    direct = [s for s in (body.get('c') or []) if s.get('k') == 'CXXMemberCallExpr' and (s.get('callee_name') or '').endswith(('::emplace_back', '::push_back')) and canon(s['c'][0]['c'][0], env, subst=False) == 'incs']
    jumps = [m for m in walk_nolambda(body) if m.get('k') in ('ContinueStmt', 'ReturnStmt', 'GotoStmt') or (m.get('k') == 'BreakStmt' and not any(a.get('k') in ('SwitchStmt', 'ForStmt', 'WhileStmt', 'CXXForRangeStmt') and a is not comb for a in f.ancestors(m) if _inside(body, a)))]
    alls = [m for m in walk(body) if m.get('k') == 'CXXMemberCallExpr' and (m.get('callee_name') or '').endswith(('::emplace_back', '::push_back')) and canon(m['c'][0]['c'][0], env, subst=False) == 'incs']
    oku = len(direct) == 1 and len(alls) == 1 and not jumps and canon(direct[0]['c'][1], env, subst=False) == 'choices'
    ctx.instance(rid, [f.id, 'report'], {'unconditional_reports_per_pair': len(direct), 'conditional_reports': len(alls) - len(direct), 'early_exits': len(jumps)})
    if not oku:
        ctx.finding(rid, f.id, 'report', 'state_variable::get_current_incs must append exactly one choice set per overlapping pair, unconditionally (also when it is empty: that is what makes the solver back-track)', node=comb,
                    expect='incs.emplace_back(choices) as last statement of the pair loop, no continue / break before it')
    # both orderings offered
    ch = [canon(m, env, subst=False) for m in walk(body) if m.get('k') == 'CXXMemberCallExpr' and (m.get('callee_name') or '').endswith('::emplace_back') and canon(m['c'][0]['c'][0], env, subst=False) == 'choices']
    its = {}
    for n in walk(body):
        if n.get('k') == 'IfStmt' and n['slots'].get('init') is not None:
            for d in n['slots']['init'].get('c') or ():
                if d.get('k') == 'VarDecl' and isinstance(d.get('init'), dict):
                    its[d['name']] = canon(d['init'], env, subst=False)
    def resolve(t, depth=0):
        if isinstance(t, str) and t in its and depth < 6:
            return resolve(its[t], depth + 1)
        if isinstance(t, tuple):
            return tuple(resolve(x, depth) for x in t)
        return t
    offered = set()
    for c in ch:
        s = show(resolve(c[3]))
        if '::leqs' in s:
            v = comb['slots']['var'].get('name')
            i0, i1 = s.find('([] %s 0)' % v), s.find('([] %s 1)' % v)
            if i0 >= 0 and i1 >= 0:
                offered.add('a0<a1' if i0 < i1 else 'a1<a0')
    ctx.instance(rid, [f.id, 'orders'], {'orderings_offered': sorted(offered)})
    if offered != {'a0<a1', 'a1<a0'}:
        ctx.finding(rid, f.id, 'orders', 'state_variable::get_current_incs must offer both orderings of an overlapping pair (found %s)' % sorted(offered), node=comb)
    conds = [canon(n['slots']['cond'], env, subst=False) for n in walk(body) if n.get('k') == 'IfStmt' and 'sat_core::value' in show(canon(n['slots']['cond'], env, subst=False)) and '->second' not in '']
    lq = [c for c in conds if '::leqs' in show(resolve(c))]         # the tests of the value of a stored ordering literal, whatever the iterators are called
    if len(lq) != 2 or any(not (c[0] == '!=' and 'smt::False' in c) for c in lq):
        ctx.finding(rid, f.id, 'orders/filter', 'an ordering may only be left out of the choices when its literal is already False (found %s)' % [show(c) for c in lq], node=comb)


def _inside(root, n):
    for m in walk(root):
        if m is n:
            return True
    return False


def r3(ctx, fs):
    rid = 'C04.R3'
    ctx.rule(rid, 'state_variable::get_current_incs and ::extract_timelines sweep the timeline the same way: active atoms only, start / end = arith_value(get(start|end)), starting atoms added before ending atoms are removed', floor=6)
    for nm in ('get_current_incs', 'extract_timelines'):
        f = fs.fn(SV + '::' + nm)
        if nm == 'extract_timelines':
            _smart.active_partition(ctx, rid, f, SV)
        _smart.sweep(ctx, rid, f, SV)


def r4(ctx, fs):
    rid = 'C04.R4'
    ctx.rule(rid, 'state_variable::store_variables: each of the 8 stores leqs[X][Y] = new_leq(end of X, start of Y); each of the four tau cases stores both directions; '
                  'sv_flaw::compute_resolvers offers both orders and the forbid / place alternatives, dropping only literals that are False', floor=9)
    f = fs.fn(SV + '::store_variables')
    _smart.ordering_stores(ctx, rid, f, SV, 'new_leq')
    _smart.resolvers_both_orders(ctx, rid, fs.fn(SV + '::sv_flaw::compute_resolvers'), SV)


def r5(ctx, fs):
    rid = 'C04.R5'
    ctx.rule(rid, 'sv_atom_listener forwards the four value-change callbacks to something_changed(), which marks every state variable the atom may be on; atom_listener listens on every parameter kind', floor=2)
    _smart.listeners(ctx, rid, fs, SV + '::sv_atom_listener', 'to_check')
    _smart.listener_base(ctx, rid, fs)


def r6(ctx, fs):
    rid = 'C04.R6'
    ctx.rule(rid, 'state_variable::new_predicate makes every predicate of a state variable an Interval and gives it the tau field; new_atom applies the Interval rule to facts under sigma, '
                  'stores ordering variables against every existing atom and registers the atom', floor=3)
    f = fs.fn(SV + '::new_predicate')
    env = LocalEnv(f)
    env.param_roles(['pred'])
    calls = [canon(n, env) for n in f.nodes() if n.get('k') in ('CXXMemberCallExpr', 'CallExpr') and n.get('callee_name') in ('ratio::type::new_supertypes', 'ratio::scope::new_fields', 'ratio::type::new_fields')]
    s = ' '.join(show(c) for c in calls)
    ok = 'new_supertypes pred' in s and 'get_interval' in s and 'new_fields pred' in s and "'tau'" in s
    ctx.instance(rid, [f.id, 'interval'], {'calls': s[:300]})
    if not ok:
        ctx.finding(rid, f.id, 'interval', 'state_variable::new_predicate must add the Interval predicate as supertype (temporal rule, start/end parameters) and the tau field', loc=f.loc)
    _smart.new_atom(ctx, rid, fs.fn(SV + '::new_atom'), SV, 'get_interval')
    _smart.notify_smart_types(ctx, rid, fs)
    _smart.recheck_set_grow_only(ctx, rid, fs, SV)


def run(ctx):
    fs = ctx.facts('P')
    ctx.rule('C04.R1', 'solution gate of solver::solve (see C01.R1): success only after the inconsistency check that follows the last decision, with an empty agenda', floor=2)
    for c in ('P', 'F'):
        gate(ctx, 'C04.R1', ctx.facts(c), c)
    ctx.cfg = 'P'
    r2(ctx, fs)
    r3(ctx, fs)
    r4(ctx, fs)
    r5(ctx, fs)
    r6(ctx, fs)
