"""C15 - exact rational / infinitesimal / linear-expression arithmetic (DESIGN 4, C15).

R1  field dependency with polarity: for every arithmetic operator of lin and inf_rational (member, compound, friend, I-mixed),
    the symbolic value of each result field on every path equals the algebra of the operator
    (component-wise sums with the operator's sign, every coefficient and the constant scaled by the scalar).
R2  const / compound sibling agreement is implied: both are compared with the same algebraic signature.
R3  must-write: checked per path (a path that leaves a field untouched shows the field's old value, which differs from the algebra).
R4  `.at(k)` on a container that is default-constructed in the same function and never inserted into always throws.
R5  rational: comparison operators are mutual duals, subtraction = addition of the negation, division = multiplication by the
    sign-normalised reciprocal, unary minus negates the numerator only, normalize() reduces by the gcd and makes the denominator positive.
"""
from ..expr import LocalEnv, canon, show
from ..facts import AnalysisBroken, short, src, walk
from ..tables import enum_paths, norm_literal

# ---------------------------------------------------------------------------------------------------------------------------
# tiny symbolic algebra: a value is a frozenset of terms (sign, atom, scale); atom = 'P0.rat', 'this.known_term', 'P1' ...
# scale = None | ('*', atom) | ('/', atom).  OPAQUE marks something the engine does not model.


class Opaque(Exception):
    pass


def neg(v):
    return frozenset((-s, a, sc) for s, a, sc in v)


def add(a, b):
    # a term and its negation do not cancel structurally here; the code never relies on that
    return frozenset(a) | frozenset(b)


def scale(v, op, by):
    if len(by) != 1:
        raise Opaque('scaling by a compound value')
    (s, atom, sc), = tuple(by)
    if sc is not None:
        raise Opaque('scaling by a scaled value')
    out = set()
    for (ts, ta, tsc) in v:
        if tsc is not None:
            raise Opaque('double scaling')
        out.add((ts * s, ta, (op, atom)))
    return frozenset(out)


ZERO = frozenset()


def fmt(v):
    if v is None:
        return '<unmodelled>'
    if not v:
        return '0'
    parts = []
    for s, a, sc in sorted(v, key=repr):
        t = a + ('' if sc is None else ' %s %s' % sc)
        parts.append(('+ ' if s > 0 else '- ') + t)
    return ' '.join(parts)


class Interp:
    """symbolic interpreter of one operator function of a value class with `fields`.
    Objects: 'this', parameters (P0..), local results.  Object state: {field: value}."""

    def __init__(self, fs, f, fields, cls, container=None):
        self.fs, self.f, self.fields, self.cls, self.container = fs, f, fields, cls, container
        self.env = LocalEnv(f)
        self.pname = {}
        self.ptype = {}
        for i, p in enumerate(f['params']):
            self.pname[p['name']] = 'P%d' % i
            self.ptype[p['name']] = p['t']

    def is_cls(self, t):
        return (t or '').replace('const ', '').replace(' &', '').strip() == self.cls

    def obj_state(self, name):
        return {fl: frozenset({(1, '%s.%s' % (name, fl), None)}) for fl in self.fields}

    # ---- expressions ---------------------------------------------------------------------------------------------
    def val(self, n, st):
        """symbolic value of a scalar-valued expression."""
        k = n.get('k')
        c = n.get('c') or []
        if k == 'MemberExpr' and n.get('is_field'):
            fl = n['member'].rsplit('::', 1)[-1]
            base = c[0] if c else None
            obj = self.obj_of(base, st)
            if obj is None or fl not in self.fields:
                raise Opaque('field access %s' % show(canon(n)))
            return st[obj][fl]
        if k == 'DeclRefExpr':
            nm = n.get('ref')
            if n.get('refk') == 'ParmVar' and not self.is_cls(self.ptype.get(nm)):
                return frozenset({(1, self.pname[nm], None)})
            if n.get('refk') == 'Binding' and ('bind', nm) in st:
                return st[('bind', nm)]
            if n.get('refk') == 'Var' and ('local', nm) in st:
                return st[('local', nm)]
            if n.get('ref') in ('smt::rational::ZERO',):
                return ZERO
            raise Opaque('reference %s' % nm)
        if k in ('IntegerLiteral',) and n.get('val') == 0:
            return ZERO
        if k == 'UnaryOperator' and n.get('op') == '-':
            return neg(self.val(c[0], st))
        if k == 'CXXOperatorCallExpr':
            op = n.get('op')
            args = c[1:]
            if op == '-' and len(args) == 1:
                return neg(self.val(args[0], st))
            if op in ('+', '-') and len(args) == 2:
                a, b = self.val(args[0], st), self.val(args[1], st)
                return add(a, b if op == '+' else neg(b))
            if op in ('*', '/') and len(args) == 2:
                a, b = self.val(args[0], st), self.val(args[1], st)
                # which side is the scalar?  the one that is a single plain parameter atom
                def plain(v):
                    return len(v) == 1 and tuple(v)[0][2] is None and tuple(v)[0][1].startswith('P') and '.' not in tuple(v)[0][1]
                if plain(b):
                    return scale(a, op, b)
                if plain(a) and op == '*':
                    return scale(b, op, a)
                if plain(a) and op == '/':
                    raise Opaque('scalar / value')
                raise Opaque('product of two values')
        if k == 'BinaryOperator' and n.get('op') in ('+', '-', '*', '/'):
            fake = {'k': 'CXXOperatorCallExpr', 'op': n['op'], 'c': [None] + c}
            return self.val(fake, st)
        if k in ('CXXConstructExpr', 'CXXFunctionalCastExpr', 'CXXTemporaryObjectExpr') and len(c) == 1:
            return self.val(c[0], st)
        if k == 'MemberExpr' and not n.get('is_field'):
            raise Opaque('method reference')
        if k == 'CXXMemberCallExpr':
            me = c[0]
            nm = (me.get('member') or '').rsplit('::', 1)[-1]
            if nm in ('second',):
                pass
        raise Opaque('expression %s' % show(canon(n))[:80])

    def obj_of(self, n, st):
        """name of the object an expression denotes ('this', 'P1', local name) or None."""
        if n is None or n.get('k') == 'CXXThisExpr':
            return 'this'
        k = n.get('k')
        if k == 'UnaryOperator' and n.get('op') == '*':
            return self.obj_of(n['c'][0], st)
        if k == 'DeclRefExpr':
            nm = n.get('ref')
            if n.get('refk') == 'ParmVar' and self.is_cls(self.ptype.get(nm)):
                return self.pname[nm]
            if nm in st and isinstance(st[nm], dict):
                return nm
        return None

    def obj_val(self, n, st):
        """state of a class-typed expression: copy of an object, negation of one, or a constructor call listing the fields."""
        k = n.get('k')
        c = n.get('c') or []
        o = self.obj_of(n, st)
        if o is not None:
            return dict(st[o])
        if k in ('CXXConstructExpr', 'CXXTemporaryObjectExpr', 'CXXFunctionalCastExpr'):
            if len(c) == 1 and (self.is_cls(c[0].get('t')) or self.obj_of(c[0], st)):
                return self.obj_val(c[0], st)
            if k == 'CXXFunctionalCastExpr' and len(c) == 1:
                return self.obj_val(c[0], st)
            if not c:
                return {fl: ZERO for fl in self.fields}
            if len(c) == len(self.fields) and self.container is None:
                return {fl: self.val(a, st) for fl, a in zip(self.fields, c)}
            if len(c) == 1 and self.container is None:
                # inf_rational(rat): infinitesimal part zero
                return {self.fields[0]: self.val(c[0], st), self.fields[1]: ZERO}
            if len(c) == 1 and self.container is not None and len(self.fields) == 2:
                # lin(k): no variables, the constant k
                other = [fl for fl in self.fields if fl != self.container][0]
                return {self.container: ZERO, other: self.val(c[0], st)}
            raise Opaque('construction %s' % show(canon(n))[:80])
        if k == 'CXXOperatorCallExpr' and n.get('op') in ('+', '-', '*', '/') and len(c) == 3:
            # a binary operator of the class used inside another one (delegation, `return rhs * lhs;`): by the algebra - the operator called is checked on its own
            a, b = c[1], c[2]
            op = n.get('op')
            a_obj = self.is_cls(a.get('t')) or self.obj_of(a, st) is not None
            b_obj = self.is_cls(b.get('t')) or self.obj_of(b, st) is not None
            if op in ('*', '/') and a_obj != b_obj and not (op == '/' and b_obj):
                o, sc = (self.obj_val(a, st), self.val(b, st)) if a_obj else (self.obj_val(b, st), self.val(a, st))
                return {fl: scale(v, op, sc) for fl, v in o.items()}
            if op in ('+', '-') and a_obj and b_obj:
                x, y = self.obj_val(a, st), self.obj_val(b, st)
                return {fl: add(x[fl], y[fl] if op == '+' else neg(y[fl])) for fl in self.fields}
            if op in ('+', '-') and a_obj != b_obj:
                o = self.obj_val(a if a_obj else b, st)
                sc = self.val(b if a_obj else a, st)
                tgt = [fl for fl in self.fields if fl != self.container][0] if self.container is not None else self.fields[0]
                r = dict(o) if (a_obj or op == '+') else {fl: neg(v) for fl, v in o.items()}
                r[tgt] = add(r[tgt], sc if (op == '+' or not a_obj) else neg(sc))
                return r
        if k == 'CXXOperatorCallExpr' and n.get('op') == '-' and len(c) == 2:
            inner = self.obj_val(c[1], st)
            callee = self.fs.fns.get(n.get('callee', ''))
            # unary minus of the class: use the algebra (its own implementation is checked separately)
            return {fl: neg(v) for fl, v in inner.items()}
        raise Opaque('object expression %s' % show(canon(n))[:80])

    # ---- statements ----------------------------------------------------------------------------------------------------
    def run_path(self, p):
        st = {'this': self.obj_state('this')}
        for nm, pn in self.pname.items():
            if self.is_cls(self.ptype[nm]):
                st[pn] = self.obj_state(pn)
        ret = None
        for s in p.stmts:
            if s.get('as'):
                continue
            r = self.stmt(s, st)
            if r is not None:
                ret = r
        return st, ret

    def target(self, n, st):
        """(object, field) an lvalue denotes."""
        if n.get('k') == 'MemberExpr' and n.get('is_field'):
            fl = n['member'].rsplit('::', 1)[-1]
            base = (n.get('c') or [None])[0]
            obj = self.obj_of(base, st)
            if obj is not None and fl in self.fields:
                return obj, fl
        return None

    def stmt(self, s, st):
        k = s.get('k')
        c = s.get('c') or []
        if k == 'DeclStmt':
            for d in c:
                if d.get('k') != 'VarDecl':
                    continue
                if self.is_cls(d.get('t')):
                    st[d['name']] = self.obj_val(d['init'], st) if isinstance(d.get('init'), dict) else {fl: ZERO for fl in self.fields}
                elif isinstance(d.get('init'), dict):
                    try:
                        st[('local', d['name'])] = self.val(d['init'], st)
                    except Opaque:
                        st[('local', d['name'])] = None
            return None
        if k == 'ReturnStmt':
            e = c[0] if c else None
            if e is None:
                return ('void',)
            if e.get('k') == 'CXXConstructExpr' and len(e.get('c') or []) == 1 and self.obj_of(e['c'][0], st):
                e = e['c'][0]
            o = self.obj_of(e, st)
            if o is not None:
                return ('obj', dict(st[o]))
            return ('obj', self.obj_val(e, st))
        if k in ('CXXOperatorCallExpr', 'BinaryOperator', 'CompoundAssignOperator') and s.get('op') in ('=', '+=', '-=', '*=', '/='):
            args = c[1:] if k == 'CXXOperatorCallExpr' else c
            tgt = self.target(args[0], st)
            if tgt is None:
                # assignment to a binding of the own container's element: handled by the loop interpreter
                raise Opaque('store to %s' % show(canon(args[0]))[:60])
            obj, fl = tgt
            if self.container and fl == self.container:
                raise Opaque('whole-container store')
            rhs = self.val(args[1], st)
            cur = st[obj][fl]
            op = s['op']
            st[obj][fl] = rhs if op == '=' else add(cur, rhs) if op == '+=' else add(cur, neg(rhs)) if op == '-=' else scale(cur, op[0], rhs)
            return None
        if k == 'CXXForRangeStmt':
            self.loop(s, st)
            return None
        if k == 'CXXMemberCallExpr':
            me = c[0]
            nm = (me.get('member') or '').rsplit('::', 1)[-1]
            base = (me.get('c') or [None])[0]
            t = self.target(base, st) if base is not None else None
            if t and self.container and t[1] == self.container and nm == 'clear':
                st[t[0]][t[1]] = ZERO
                return None
            if nm == 'normalize':
                return None
            raise Opaque('call %s' % show(canon(s))[:60])
        if k in ('NullStmt',):
            return None
        raise Opaque('statement %s' % k)

    def loop(self, s, st):
        """range-for over a container field: element-wise accumulation into / scaling of another (or the same) container."""
        sl = s['slots']
        rng = sl['range']
        src_t = self.target(rng, st)
        if rng.get('k') in ('CXXConstructExpr', 'CXXTemporaryObjectExpr', 'CXXFunctionalCastExpr') and len(rng.get('c') or []) == 1:
            src_t = self.target(rng['c'][0], st)
        if src_t is None or src_t[1] != self.container:
            raise Opaque('loop over %s' % show(canon(rng))[:60])
        sobj, _ = src_t
        var = sl['var']
        elem = st[sobj][self.container]          # symbolic "every coefficient of the source"
        if var.get('bindings'):
            keyn, valn = var['bindings'][0], var['bindings'][1]
        else:
            keyn, valn = None, var.get('name')
        body = sl['body']
        for n in walk(body):
            if n.get('as'):
                continue
            kk = n.get('k')
            cc = n.get('c') or []
            # c *= s  /  c /= s  on the elements of the own container
            if kk in ('CXXOperatorCallExpr', 'CompoundAssignOperator') and n.get('op') in ('*=', '/=', '+=', '-=', '='):
                args = cc[1:] if kk == 'CXXOperatorCallExpr' else cc
                tgt = args[0]
                if tgt.get('k') == 'DeclRefExpr' and tgt.get('ref') == valn and n['op'] in ('*=', '/='):
                    st[sobj][self.container] = scale(st[sobj][self.container], n['op'][0], self.val(args[1], st))
                    continue
                # trm_it->second += term.second  (accumulate source element into the destination container)
                dst = self.elem_container(tgt, st)
                if dst is not None:
                    v = self.elem_val(args[1], st, elem, valn)
                    if n['op'] == '+=':
                        st[dst][self.container] = add(st[dst][self.container], v)
                    elif n['op'] == '-=':
                        st[dst][self.container] = add(st[dst][self.container], neg(v))
                    elif n['op'] == '=':
                        st[dst][self.container] = add(st[dst][self.container], v)
                    else:
                        raise Opaque('element scaling in an accumulation loop')
                    continue
            if kk == 'CXXMemberCallExpr':
                me = cc[0]
                nm = (me.get('member') or '').rsplit('::', 1)[-1]
                base = (me.get('c') or [None])[0]
                t = self.target(base, st) if base is not None and base.get('k') == 'MemberExpr' else None
                if t and t[1] == self.container:
                    if nm == 'insert':
                        st[t[0]][self.container] = add(st[t[0]][self.container], self.elem_val(cc[1], st, elem, valn, whole=True))
                    elif nm in ('emplace', 'insert_or_assign', 'try_emplace'):
                        st[t[0]][self.container] = add(st[t[0]][self.container], self.elem_val(cc[2], st, elem, valn))
                    elif nm in ('find', 'cend', 'end', 'erase', 'count', 'at', 'cbegin', 'begin'):
                        pass
                    else:
                        raise Opaque('container call %s' % nm)

    def elem_container(self, tgt, st):
        """object whose container an element lvalue (trm_it->second, res.vars.at(v), res.vars[v]) belongs to."""
        for m in walk(tgt):
            t = self.target(m, st) if m.get('k') == 'MemberExpr' else None
            if t and t[1] == self.container:
                return t[0]
        # iterator local initialised from a find on a container
        for m in walk(tgt):
            if m.get('k') == 'DeclRefExpr' and m.get('refk') == 'Var':
                d = self.env.definition(m)
                if d is not None:
                    for x in walk(d):
                        t = self.target(x, st) if x.get('k') == 'MemberExpr' else None
                        if t and t[1] == self.container:
                            return t[0]
        return None

    def elem_val(self, n, st, elem, valn, whole=False):
        """value of an expression over the loop element: c, term.second, -c, term (whole pair)."""
        k = n.get('k')
        c = n.get('c') or []
        if k == 'DeclRefExpr' and n.get('ref') == valn:
            return elem
        if k == 'MemberExpr' and n['member'].endswith('::second') and c and c[0].get('k') == 'DeclRefExpr' and c[0].get('ref') == valn:
            return elem
        if k in ('UnaryOperator', 'CXXOperatorCallExpr') and n.get('op') == '-' and len([x for x in c if x is not None]) in (1, 2):
            inner = c[-1]
            return neg(self.elem_val(inner, st, elem, valn))
        if k in ('CXXConstructExpr', 'CXXTemporaryObjectExpr', 'CXXFunctionalCastExpr') and len(c) == 1:
            return self.elem_val(c[0], st, elem, valn, whole)
        raise Opaque('element expression %s' % show(canon(n))[:60])


# ---- expected algebra -------------------------------------------------------------------------------------------------------

def A(obj, fl, s=1, sc=None):
    return frozenset({(s, '%s.%s' % (obj, fl), sc)})


def S(p, s=1):
    return frozenset({(s, p, None)})


def expect(cls_fields, op, kinds, compound, scalar_field):
    """expected field values of the result.  kinds: tuple of operand kinds in order ('obj' | 'scalar'); the left operand of a member is 'this'.
    scalar_field: the field a bare scalar operand of + / - is added to (constant term / rational part)."""
    f0 = scalar_field
    scalar_only_first = True
    out = {}
    left, right = kinds
    L = 'this' if left[0] == 'this' else left[1]
    R = right[1] if right else None
    for fl in cls_fields:
        first = (fl == f0)
        if op == 'neg':
            out[fl] = neg(A(L, fl))
            continue
        lv = A(L, fl) if left[0] in ('this', 'obj') else (S(L) if first or not scalar_only_first else ZERO)
        if right[0] == 'obj':
            rv = A(R, fl)
        else:
            rv = S(R) if (first or not scalar_only_first) else ZERO
        if op == '+':
            out[fl] = add(lv, rv)
        elif op == '-':
            out[fl] = add(lv, neg(rv))
        elif op in ('*', '/'):
            if left[0] in ('this', 'obj') and right[0] == 'scalar':
                out[fl] = scale(A(L, fl), op, S(R))
            elif left[0] == 'scalar' and right[0] == 'obj' and op == '*':
                out[fl] = scale(A(R, fl), op, S(L))
            else:
                return None
    return out


OPS = {'operator+': '+', 'operator-': '-', 'operator*': '*', 'operator/': '/', 'operator+=': '+', 'operator-=': '-', 'operator*=': '*', 'operator/=': '/'}


def check_class(ctx, fs, rid, cls, fields, container, scalar_types, scalar_field):
    n = 0
    for f in sorted(fs.defined(), key=lambda f: f.id):
        nm = f.name.rsplit('::', 1)[-1]
        if nm not in OPS:
            continue
        member = f.get('class') == cls
        ptypes = [(p['t'] or '').replace('const ', '').replace(' &', '').strip() for p in f['params']]
        if member:
            if len(ptypes) == 0 and nm == 'operator-':
                op, kinds = 'neg', (('this', 'this'), None)
            elif len(ptypes) == 1 and (ptypes[0] == cls or ptypes[0] in scalar_types):
                op, kinds = OPS[nm], (('this', 'this'), ('obj', 'P0') if ptypes[0] == cls else ('scalar', 'P0'))
            else:
                continue
        else:
            if f.name.rsplit('::', 1)[0] != cls.rsplit('::', 1)[0] or len(ptypes) != 2 or cls not in ptypes:
                continue
            if not all(t == cls or t in scalar_types for t in ptypes):
                continue
            op = OPS[nm]
            kinds = tuple(('obj', 'P%d' % i) if t == cls else ('scalar', 'P%d' % i) for i, t in enumerate(ptypes))
        compound = nm.endswith('=')
        want = expect(fields, op, kinds, compound, scalar_field)
        if want is None:
            ctx.note('%s: %s is outside the linear algebra modelled (declined)' % (rid, f.id))
            continue
        it = Interp(fs, f, fields, cls, container)
        paths = enum_paths(f.body)
        for pi, p in enumerate(paths):
            if p.end not in ('return',):
                continue
            try:
                st, ret = it.run_path(p)
            except Opaque as e:
                raise AnalysisBroken('%s: %s uses a construct the dependency engine does not model: %s' % (rid, f.id, e))
            if ret is None or ret[0] != 'obj':
                raise AnalysisBroken('%s: %s returns something unmodelled' % (rid, f.id))
            got = ret[1]
            conds = [(canon(c[1], it.env), c[2]) for c in p.conds if c[0] == 'if']
            special = _special_value_path(conds, it)
            n += 1
            ctx.instance(rid, [f.id, 'path%d' % pi], {'operator': f.id, 'path_condition': [('' if pol else 'not ') + show(c) for c, pol in conds],
                                                    'result': {fl: fmt(got.get(fl)) for fl in fields}, 'algebra': {fl: fmt(want[fl]) for fl in fields}})
            for fl in fields:
                if got.get(fl) == want[fl]:
                    continue
                if special and got.get(fl) == ZERO:
                    continue        # x * 0 = 0, x / inf = 0 fast paths: the field is reset to zero under an explicit special-value test
                disc = '%s%s' % (fl, '' if not conds else '/' + ','.join(('' if pol else '!') + show(c) for c, pol in conds)[:80])
                ctx.finding(rid, f.id, disc, '%s: result field `%s` is  %s  ; the algebra of the operator requires  %s%s' % (
                    f.id.replace('smt::', ''), fl, fmt(got.get(fl)), fmt(want[fl]),
                    '' if not conds else '  (on the path where %s)' % ' and '.join(('' if pol else 'not ') + show(c) for c, pol in conds)),
                    loc=f.loc, construct=src(p.endnode), expect='%s = %s' % (fl, fmt(want[fl])))
    return n


def _special_value_path(conds, it):
    for c, pol in conds:
        if not pol:
            continue
        s = show(c)
        if ('rational::ZERO' in s and '==' in s) or 'is_infinite' in s:
            return True
    return False


def r1(ctx, fs):
    rid = 'C15.R1'
    ctx.rule(rid, 'symbolic field values of every +,-,*,/ operator (const, compound, friend, I-mixed) of smt::lin {vars, known_term} and smt::inf_rational {rat, inf} on every path == '
                  'the algebra: sums component-wise with the operator sign, scalar added to the constant / rational part only, every coefficient and the constant scaled by the factor; '
                  'unary minus negates all fields', floor=45)
    n1 = check_class(ctx, fs, rid, 'smt::lin', ['vars', 'known_term'], 'vars', {'smt::rational'}, 'known_term')
    n2 = check_class(ctx, fs, rid, 'smt::inf_rational', ['rat', 'inf'], None, {'smt::rational', 'long'}, 'rat')
    ctx.extra['R1_paths'] = {'lin': n1, 'inf_rational': n2}


def r4(ctx, fs):
    rid = 'C15.R4'
    ctx.rule(rid, 'no `.at(k)` on a std container that is default-constructed in the same function and not yet inserted into (throws std::out_of_range on every call)', floor=1)
    n_at = 0
    for f in fs.defined():
        if not (f.name.startswith('smt::') or f.name.startswith('ratio::') or f.name.startswith('riddle::')):
            continue
        fresh = {}
        for n in f.nodes():
            if n.get('k') == 'VarDecl':
                init = n.get('init')
                empty = init is None or (isinstance(init, dict) and init.get('k') in ('CXXConstructExpr',) and not (init.get('c') or []))
                if empty:
                    fresh[n['loc']] = n
        if not fresh:
            continue
        # containers reachable from a fresh local: the local itself (std::map...) or a field of a fresh object
        muts = set()
        ats = []
        for n in f.nodes():
            if n.get('k') != 'CXXMemberCallExpr':
                continue
            me = n['c'][0]
            nm = (me.get('member') or '').rsplit('::', 1)[-1]
            if not (me.get('member') or '').startswith('std::'):
                continue
            base = (me.get('c') or [None])[0]
            root = base
            path = []
            while root is not None and root.get('k') == 'MemberExpr':
                path.append(root['member'])
                root = (root.get('c') or [None])[0]
            if root is None or root.get('k') != 'DeclRefExpr' or root.get('dloc') not in fresh:
                continue
            key = (root['dloc'], tuple(path))
            if nm == 'at':
                ats.append((key, n))
            elif nm in ('insert', 'emplace', 'try_emplace', 'insert_or_assign', 'push_back', 'emplace_back', 'operator[]', 'resize', 'assign', 'swap'):
                muts.add(key)
        for n in f.nodes():
            if n.get('k') == 'CXXOperatorCallExpr' and n.get('op') in ('[]', '='):
                tgt = n['c'][1]
                root = tgt
                path = []
                while root is not None and root.get('k') == 'MemberExpr':
                    path.append(root['member'])
                    root = (root.get('c') or [None])[0]
                if root is not None and root.get('k') == 'DeclRefExpr' and root.get('dloc') in fresh:
                    muts.add((root['dloc'], tuple(path)))      # whole-object assignment has the empty path
        for key, n in ats:
            n_at += 1
            ctx.instance(rid, [f.id, short(n.get('loc'))], {'function': f.id, 'at_on_fresh_container': src(n), 'filled_before': key in muts or (key[0], ()) in muts})
            if key in muts or (key[0], ()) in muts:
                continue
            ctx.finding(rid, f.id, 'at:' + '.'.join(x.rsplit('::', 1)[-1] for x in key[1]), '%s calls .at() on a container that was default-constructed in this function and never filled: it throws std::out_of_range on every call' % f.name,
                        node=n, expect='operator[] / emplace to create the entry')
    ctx.instance(rid, 'scan', {'functions_scanned': len(fs.defined()), 'at_calls_on_fresh_locals': n_at})


def r5(ctx, fs):
    rid = 'C15.R5'
    ctx.rule(rid, 'rational / inf_rational: operator> is operator< with the operands swapped (same for >=/<=), in all three operand kinds; rational a-b = a+(-b), a-=b likewise; '
                  'a/b and a/=b multiply by the reciprocal with the sign moved to the numerator; -a negates the numerator only; normalize() divides by the sign-corrected gcd and makes den positive', floor=14)
    for cls in ('smt::rational', 'smt::inf_rational'):
        for lt, gt in (('operator<', 'operator>'), ('operator<=', 'operator>=')):
            L = {tuple(p['t'] for p in f['params']): f for f in fs.fns_named(cls + '::' + lt)}
            G = {tuple(p['t'] for p in f['params']): f for f in fs.fns_named(cls + '::' + gt)}
            for sig, fl in sorted(L.items()):
                fg = G.get(sig)
                if fg is None:
                    raise AnalysisBroken('%s::%s%s has no dual %s' % (cls, lt, sig, gt))
                tl, tg = _ret(fl), _ret(fg)
                dual = _flip(tl)
                ctx.instance(rid, [fl.id, 'dual'], {'less': show(tl), 'greater': show(tg)})
                # `a > b` may also simply be written as `b < a` (delegation to the dual operator with the operands swapped)
                pn = (fg['params'][0].get('name') if fg.get('params') else None)
                deleg = isinstance(tg, tuple) and len(tg) == 3 and tg[0] == {'operator<': '<', 'operator<=': '<='}[lt] and tg[1] == pn and tg[2] == 'this' and sig and cls.rsplit('::', 1)[-1] in sig[0]
                if dual != tg and not deleg:
                    ctx.finding(rid, fg.id, 'dual', '%s is not %s with the comparisons reversed: %s  vs  %s' % (fg.id.replace('smt::', ''), lt, show(tg), show(tl)), loc=fg.loc,
                                expect='a > b  <=>  b < a')
    R = 'smt::rational::'
    for nm, inner in (('operator-', 'operator+'), ('operator-=', 'operator+=')):
        for f in fs.fns_named(R + nm):
            if len(f['params']) != 1:
                continue
            t = _ret(f)
            pn = f['params'][0]['name']
            ok = isinstance(t, tuple) and t[0] == 'mcall' and t[1] == R + inner and t[3] in (('neg', pn), ('num-neg', pn)) or (isinstance(t, tuple) and t[:3] == ('mcall', R + inner, 'this') and t[3] == ('neg', pn))
            ctx.instance(rid, [f.id, 'sub'], {'function': f.id, 'returns': show(t)})
            if not ok:
                ctx.finding(rid, f.id, 'sub', '%s must be %s of the negated operand (found %s)' % (f.id.replace('smt::', ''), inner, show(t)), loc=f.loc)
    for nm, inner in (('operator/', 'operator*'), ('operator/=', 'operator*=')):
        for f in fs.fns_named(R + nm):
            env = LocalEnv(f)
            pn = f['params'][0]['name']
            is_rat = 'rational' in f['params'][0]['t']
            num_t = ('.', pn, 'num') if is_rat else pn
            den_t = ('.', pn, 'den') if is_rat else ('num', 1)
            got = {}
            for p in enum_paths(f.body):
                sign = None
                for c in p.conds:
                    if c[0] == 'if':
                        ct, pol = norm_literal(canon(c[1], env, subst=False), c[2])      # `num >= 0` is a failed `num < 0`
                        if ct == ('<', num_t, ('num', 0)):
                            sign = not pol
                vals = {}
                for s in p.stmts:
                    t = canon(s, env, subst=False)
                    if isinstance(t, tuple) and t[0] == '=' and isinstance(t[1], tuple) and t[1][0] == '.' and t[1][2] in ('num', 'den'):
                        vals[t[1][2]] = t[2]
                ret = canon(p.endnode['c'][0], env, subst=False) if p.end == 'return' else None
                got[sign] = (vals.get('num'), vals.get('den'), ret)
            rec = None
            for d, n in env.decls.items():
                if n.get('t') == 'smt::rational':
                    rec = n['name']
            want = {True: (den_t, num_t), False: (('neg', den_t) if den_t != ('num', 1) else ('num', -1), ('neg', num_t))}
            ok = all(got.get(k) is not None and got[k][0] == want[k][0] and got[k][1] == want[k][1] and
                     isinstance(got[k][2], tuple) and got[k][2][:2] == ('mcall', R + inner) and got[k][2][3] == rec for k in (True, False))
            ctx.instance(rid, [f.id, 'div'], {'function': f.id, 'reciprocal': {str(k): [show(x) for x in v] for k, v in got.items()}})
            if not ok:
                ctx.finding(rid, f.id, 'div', '%s must multiply by the reciprocal den/num of the divisor with the sign moved to the numerator (found %s)' % (
                    f.id.replace('smt::', ''), {str(k): [show(x) for x in v] for k, v in got.items()}), loc=f.loc)
    f = fs.fn(R + 'operator-', params=[])
    env = LocalEnv(f)
    sts = [canon(s, env, subst=False) for s in f.nodes() if s.get('k') in ('BinaryOperator', 'CXXOperatorCallExpr') and s.get('op') == '=']
    res = [n['name'] for n in env.decls.values() if n.get('t') == 'smt::rational']
    ok = len(res) == 1 and sts == [('=', ('.', res[0], 'num'), ('neg', ('.', res[0], 'num')))] and canon(env.decls[list(env.decls)[0]]['init'], env, subst=False) in ('this', ('new', 'smt::rational', 'this'))
    ctx.instance(rid, [f.id, 'neg'], {'stores': [show(s) for s in sts]})
    if not ok:
        ctx.finding(rid, f.id, 'neg', 'rational::operator-() must copy *this and negate the numerator only', loc=f.loc)
    f = fs.fn(R + 'normalize')
    env = LocalEnv(f)
    effs = [canon(s, env, subst=False) for s in f.nodes() if s.get('k') in ('BinaryOperator', 'CompoundAssignOperator') and s.get('op') in ('=', '/=')]
    g = [n['name'] for n in env.decls.values() if 'gcd' in show(canon(n.get('init'), env, subst=False)) if isinstance(n.get('init'), dict)]
    NUM, DEN = R + 'num', R + 'den'
    facts = {
        'gcd of num and den': bool(g) and canon(env.decls[[d for d, n in env.decls.items() if n['name'] == g[0]][0]]['init'], env, subst=False) == ('call', 'std::gcd', NUM, DEN),
        'both divided by it': bool(g) and ('/=', NUM, g[0]) in effs and ('/=', DEN, g[0]) in effs,
        'negative denominator flipped': ('=', DEN, ('neg', DEN)) in effs and ('=', NUM, ('neg', NUM)) in effs,
    }
    for k, v in facts.items():
        ctx.instance(rid, [f.id, k], {'fact': k, 'holds': v})
        if not v:
            ctx.finding(rid, f.id, k, 'rational::normalize: "%s" does not hold - results are no longer canonical' % k, loc=f.loc)


def _ret(f):
    rets = [n for n in f.nodes() if n.get('k') == 'ReturnStmt']
    if len(rets) != 1:
        raise AnalysisBroken('%s: expected a single return' % f.id)
    return canon(rets[0]['c'][0], LocalEnv(f), subst=False)


def _flip(t):
    if isinstance(t, tuple):
        t = tuple(_flip(x) for x in t)
        if t and t[0] in ('<', '<=') and len(t) == 3:
            return (t[0], t[2], t[1])
        if t and t[0] == 'call' and len(t) == 3 and isinstance(t[1], str):
            sw = {'smt::is_negative': 'smt::is_positive', 'smt::is_positive': 'smt::is_negative', 'smt::is_negative_or_zero': 'smt::is_positive_or_zero',
                  'smt::is_positive_or_zero': 'smt::is_negative_or_zero'}
            if t[1] in sw:
                return ('call', sw[t[1]], t[2])
    return t


def r6(ctx, fs):
    rid = 'C15.R6'
    ctx.rule(rid, 'smt::rational: `a op= b` distinguishes exactly the cases that `a op b` distinguishes (zero / infinite / integer special cases, same tests in the same roles), for + with a rational '
                  'and with an integer operand; the general case of += normalises the result', floor=3)
    from .. import dual
    R = 'smt::rational::'
    for op in ('operator+',):       # the two forms of * test their special cases in a different order and compute the sign differently: not comparable this way
        B = {tuple(p['t'] for p in f['params']): f for f in fs.fns_named(R + op) if len(f['params']) == 1 and f.get('class') == 'smt::rational'}
        C = {tuple(p['t'] for p in f['params']): f for f in fs.fns_named(R + op + '=') if len(f['params']) == 1}
        for sig, fb in sorted(B.items()):
            fc = C.get(sig)
            if fc is None:
                continue
            gb = {frozenset(p[0]) for p in dual.Summ(fs, fb, subst=False).summary()}
            gc = {frozenset(p[0]) for p in dual.Summ(fs, fc, subst=False).summary()}
            ctx.instance(rid, [fb.id, 'cases'], {'binary': fb.id, 'compound': fc.id, 'cases': len(gb), 'same_cases': gb == gc})
            if gb != gc:
                ob, oc = sorted(gb - gc, key=repr), sorted(gc - gb, key=repr)
                ctx.finding(rid, fc.id, 'cases', 'rational::%s= and rational::%s distinguish different cases (one of them is wrong): only in %s: %s ; only in %s=: %s' % (
                    op, op, op, [sorted(dual._show_cond(c) for c in g) for g in ob][:2], op, [sorted(dual._show_cond(c) for c in g) for g in oc][:2]), loc=fc.loc,
                    expect='the same special cases in both forms')
    f = fs.fn(R + 'operator+=', params=['rational'])
    env = LocalEnv(f)
    # the general case (the path that computes the common denominator) normalises
    ok = False
    for p in enum_paths(f.body):
        names = [m.get('callee_name') for st in p.stmts for m in walk(st) if m.get('callee_name')]
        if 'std::lcm' in names:
            ok = R + 'normalize' in names
    ctx.instance(rid, [f.id, 'normalised'], {'general_case_normalises': ok})
    if not ok:
        ctx.finding(rid, f.id, 'normalised', 'rational::operator+=: the general case does not normalise its result: equal values get different representations (1/2 + 1/2 != 1)', loc=f.loc)


def r7(ctx, fs):
    rid = 'C15.R7'
    ctx.rule(rid, 'smt::lin keeps no zero coefficient: every `it->second += c` / `-= c` on a term found in `vars` is followed, on every path, by the test `it->second == ZERO`, and the term is erased '
                  'when it holds (a cancelled variable that stays in the expression with coefficient 0 is multiplied with its - possibly infinite - bounds)', floor=4)
    from ..tables import region_of, path_literals
    n_sites = 0
    for f in fs.defined():
        if f.get('class') != 'smt::lin' and not (f.name.startswith('smt::operator') and any('smt::lin' in (p.get('t') or '') for p in f.get('params') or ())):
            continue
        env = LocalEnv(f)
        cn = lambda n: canon(n, env, subst=False)
        for u in f.nodes():
            if u.get('k') not in ('CXXOperatorCallExpr', 'CompoundAssignOperator', 'BinaryOperator') or u.get('op') not in ('+=', '-='):
                continue
            t = cn(u)
            tgt = t[1] if isinstance(t, tuple) and len(t) == 3 else None
            if not (isinstance(tgt, tuple) and len(tgt) == 3 and tgt[0] == '.' and tgt[2] == 'second'):
                continue
            it = tgt[1]
            n_sites += 1
            ok = True
            seen = False
            for p in enum_paths(region_of(f, u)):
                if not any(m is u for st in p.stmts for m in walk(st)):
                    continue
                seen = True
                L = path_literals(p, cn) or []
                z = [c for c in L if c[0] == 'if' and c[1] in (('==', tgt, 'smt::rational::ZERO'), ('==', 'smt::rational::ZERO', tgt))]
                erased = any(m.get('k') == 'CXXMemberCallExpr' and (m.get('callee_name') or '').endswith('::erase') and cn(m)[-1] == it for st in p.stmts for m in walk(st))
                if not z or (z[-1][2] is True and not erased) or (z[-1][2] is False and erased):
                    ok = False
            ok = ok and seen
            ctx.instance(rid, [f.id, short(u.get('loc'))], {'function': f.id, 'update': show(t)[:160], 'zero_coefficient_erased': ok})
            if not ok:
                ctx.finding(rid, f.id, 'zero:%s' % show(t)[:60], '%s updates the coefficient %s without removing the term when it becomes zero: the expression keeps a variable with coefficient 0, and every '
                            'bound computation multiplies it with the (possibly infinite) bounds of that variable' % (f.id.replace('smt::', ''), show(tgt)), node=u,
                            expect='if (it->second == rational::ZERO) vars.erase(it);')
    if n_sites < 4:
        raise AnalysisBroken('C15.R7: only %d coefficient updates of smt::lin found (expected >= 4)' % n_sites)


def _leaves(t, out):
    """operands of a chain of string concatenations (the order is not kept by the canonical form)"""
    if isinstance(t, tuple) and t and t[0] == '+' and len(t) == 3:
        _leaves(t[1], out)
        _leaves(t[2], out)
    elif isinstance(t, tuple) and t and t[0] == 'new' and len(t) == 3 and 'basic_string' in str(t[1]):
        _leaves(t[2], out)
    else:
        out.append(t)


def r8(ctx, fs):
    rid = 'C15.R8'
    ctx.rule(rid, 'to_string(const lin&) - the key under which the LRA theory shares slack variables - prints every term with the sign of ITS coefficient: " + " and the coefficient when it is positive, '
                  '" - " and its negation when it is not (" + x" / " - x" for +-1); decided on the paths of the loop over the terms', floor=4)
    f = [g for g in fs.fns_named('smt::to_string') if g.is_def and len(g['params']) == 1 and 'smt::lin' in g['params'][0]['t']]
    if len(f) != 1:
        raise AnalysisBroken('to_string(const lin&) not found')
    f = f[0]
    env = LocalEnv(f)
    cn = lambda n: canon(n, env, subst=False)
    loops = [n for n in f.nodes() if n.get('k') in ('ForStmt', 'CXXForRangeStmt', 'WhileStmt')]
    if not loops:
        raise AnalysisBroken('%s: loop over the terms not found' % f.id)
    from ..tables import path_literals
    ONE = 'smt::rational::ONE'
    n = 0
    for p in enum_paths(loops[0]['slots']['body']):
        L = path_literals(p, cn) or []
        # path-local definitions (a local whose initialiser was selected by a ?: on this path)
        local = {}
        for st in p.stmts:
            if st.get('k') == 'DeclStmt':
                for d in st.get('c') or ():
                    if d.get('k') == 'VarDecl' and isinstance(d.get('init'), dict):
                        local[d['name']] = cn(d['init'])

        def res(t, depth=0):
            if isinstance(t, str) and t in local and depth < 4:
                return res(local[t], depth + 1)
            if isinstance(t, tuple):
                return tuple(res(x, depth) for x in t)
            return t
        C = None
        for c in L:
            if c[0] == 'if' and isinstance(c[1], tuple) and c[1][0] == '==' and ONE in c[1][1:]:
                C = [x for x in c[1][1:] if x != ONE][0]
        if C is None:
            continue
        one = any(c[0] == 'if' and c[2] and c[1] in (('==', C, ONE), ('==', ONE, C)) for c in L)
        mone = any(c[0] == 'if' and c[2] and isinstance(c[1], tuple) and c[1][0] == '==' and C in c[1][1:] and ('neg', ONE) in c[1][1:] for c in L)
        pos = None
        for c in L:
            if c[0] == 'if' and isinstance(c[1], tuple) and c[1][0] == 'call' and str(c[1][1]).endswith('is_positive') and res(c[1][2]) == C:
                pos = c[2]
        first = any(c[0] == 'if' and c[2] and isinstance(c[1], tuple) and c[1][0] == '==' and any(isinstance(x, tuple) and x and x[0] == 'mcall' and str(x[1]).endswith('::cbegin') for x in c[1][1:]) for c in L)
        pieces = []
        for st in p.stmts:
            t = cn(st)
            if isinstance(t, tuple) and t and t[0] == '+=' and len(t) == 3:
                _leaves(res(t[2]), pieces)
        strs = [x[1] for x in pieces if isinstance(x, tuple) and x[0] == 'str']
        plus, minus = any('+' in x for x in strs), any('-' in x for x in strs)
        mags = [x[2] for x in pieces if isinstance(x, tuple) and len(x) == 3 and x[0] == 'call' and x[1] == 'smt::to_string']
        n += 1
        # (whether a separator is printed - first term or not, however that is tracked - does not matter for the sign)
        if one:
            good = not mags and not minus
        elif mone:
            good = not mags and minus and not plus
        elif pos is True:
            good = mags == [C] and not minus
        elif pos is False:
            good = mags == [('neg', C)] and minus and not plus
        else:
            good = mags == [C] and not plus and not minus      # prints the signed coefficient itself (the leading term)
        ctx.instance(rid, [f.id, 'path#%d' % n], {'coefficient': 'ONE' if one else '-ONE' if mone else 'positive' if pos else 'not positive' if pos is False else 'any (leading term)',
                                                  'prints': sorted(strs) + [show(m) for m in mags], 'ok': good})
        if not good:
            ctx.finding(rid, f.id, 'term:%s/%s/%s' % (one, mone, pos), 'to_string(const lin&): a term whose coefficient is %s is printed as %s: two different expressions get the same text, and lra_theory::new_var(lin) '
                        'gives them the same slack variable' % ('+1' if one else '-1' if mone else 'positive' if pos else 'negative' if pos is False else 'of unknown sign', sorted(strs) + [show(m) for m in mags]),
                        node=p.stmts[-1] if p.stmts else loops[0])


def run(ctx):
    fs = ctx.facts('P')
    r1(ctx, fs)
    r4(ctx, fs)
    r5(ctx, fs)
    r6(ctx, fs)
    r7(ctx, fs)
    r8(ctx, fs)
