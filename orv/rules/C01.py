"""C01 - a reported solution satisfies every asserted constraint (DESIGN 4, C01): the gate and the plumbing.

R1  solution gate of solver::solve(), in every build configuration: no path from a decision (take_decision / next) to `return true`
    that avoids solve_inconsistencies(), and none from solve_inconsistencies() to `return true` that avoids a test of flaws.empty().
R2  solve_inconsistencies: loops while inconsistencies exist, every arm re-collects them; get_incs asks every smart type;
    reset_smart_types finds every smart type (complete BFS over nested types).
R3  facts are posted as written, under the controlling literal: assert_facts clauses {!ni, f}; who may set ni; the literal of an
    expression statement is the evaluated one, un-negated.
R4  no inconsistency signal is dropped: the bool result of new_clause / propagate / assume / next / simplify_db / check /
    backtrack_analyze_and_backjump / set* / solve is used at every call site of the program.
R5  the values exposed are the theories' values: arith_value / arith_bounds / value_to_json route on the type tp -> RDL else LRA;
    bool_value / enum_value read the SAT core and the object-variable theory.
"""
from ..expr import LocalEnv, canon, show
from ..facts import AnalysisBroken, CONFIGS, short, src, walk, walk_nolambda
from ..schema import posted, show_clause
from ..tables import enum_paths
from .. import cfg, cg, effects

MUST_CHECK = {
    'smt::sat_core::new_clause', 'smt::sat_core::propagate', 'smt::sat_core::assume', 'smt::sat_core::next', 'smt::sat_core::simplify_db',
    'smt::sat_core::check', 'smt::theory::backtrack_analyze_and_backjump', 'smt::lra_theory::set', 'smt::lra_theory::set_lb', 'smt::lra_theory::set_ub',
    'ratio::solver::solve', 'smt::sat_core::enqueue', 'smt::constr::enqueue',
}

# call sites where the result is discarded and that is accepted: (function name, callee) -> reason
R4_ACCEPTED = {
    ('smt::sat_core::sat_core', 'smt::sat_core::simplify_db'): 'copy constructor: cannot report; the source core had just propagated (its queue is asserted empty)',
    ('ratio::h_1::add_layer', 'smt::sat_core::simplify_db'): 'every expansion and every new_flaw(.., false) on the paths before it ends in a checked propagate(): the queue is empty, simplify_db cannot fail here (build() checks it because gr.init may have posted gamma)',
    ('ratio::h_2::add_layer', 'smt::sat_core::simplify_db'): 'same as h_1::add_layer',
    ('ratio::state_variable::forbid_resolver::apply', 'smt::sat_core::new_clause'): 'the clause contains !rho of the resolver created in the same expansion and still undefined: it can only become unit, never empty',
    ('ratio::reusable_resource::forbid_resolver::apply', 'smt::sat_core::new_clause'): 'same as state_variable::forbid_resolver::apply',
}


def gate(ctx, rid, fs, cfgname):
    f = fs.fn('ratio::solver::solve')
    env = LocalEnv(f)
    g = cfg.Graph(f)
    D = g.events(lambda t: t.get('callee_name') in ('ratio::solver::take_decision', 'ratio::solver::next'))
    S = g.events(lambda t: t.get('callee_name') == 'ratio::solver::solve_inconsistencies')
    E = g.events(lambda t: t.get('k') == 'CXXMemberCallExpr' and (t.get('callee_name') or '').endswith('::empty') and canon(t['c'][0]['c'][0], env, subst=False) == 'ratio::solver::flaws' and not t.get('as'))
    T = cfg.returns(g, True)
    if not D or not S or not E or not T:
        raise AnalysisBroken('%s [%s]: decisions (%d), solve_inconsistencies (%d), flaws.empty() (%d) or return true (%d) not found' % (f.id, cfgname, len(D), len(S), len(E), len(T)))
    bad_d = []
    for d in D:
        for s in g.succ.get(d, ()):
            if g.reach(s, avoid=frozenset(S)) & T:
                bad_d.append(d)
    bad_s = []
    for s0 in S:
        for s in g.succ.get(s0, ()):
            if g.reach(s, avoid=frozenset(E)) & T:
                bad_s.append(s0)
    # and there is no way to a success return that avoids the inconsistency check altogether
    skip = bool(g.reach(g.start, avoid=frozenset(S)) & T)
    ctx.instance(rid, ['solve', cfgname], {'configuration': cfgname, 'decisions': len(D), 'inconsistency_checks': len(S), 'agenda_tests': len(E), 'success_returns': len(T),
                                           'decision_reaches_success_unchecked': len(bad_d), 'success_without_agenda_test': len(bad_s), 'success_without_any_check': skip})
    for d in bad_d:
        ctx.finding(rid, f.id, 'decision->success', 'solver::solve [%s]: after %s a `return true` is reachable without solve_inconsistencies(): a plan whose timelines overlap / over-use a resource could be reported' % (
            cfgname, src(g.tree(d))), node=g.tree(d), expect='every decision is followed by solve_inconsistencies() before success')
    for s0 in bad_s:
        ctx.finding(rid, f.id, 'check->success', 'solver::solve [%s]: after solve_inconsistencies() a `return true` is reachable without testing flaws.empty(): solving inconsistencies can open new flaws' % cfgname,
                    node=g.tree(s0), expect='success only when flaws.empty() holds after the last inconsistency check')
    if skip:
        ctx.finding(rid, f.id, 'no-check', 'solver::solve [%s] can report success without ever calling solve_inconsistencies()' % cfgname, loc=f.loc)
    # the exits of the agenda loops are exactly `flaws.empty()`: every loop condition that leads towards success
    for n in f.nodes():
        if n.get('k') in ('WhileStmt', 'DoStmt') and not n.get('as'):
            c = canon(n['slots']['cond'], env, subst=False)
            s = show(c)
            if 'solver::flaws' in s and 'empty' in s:
                if c != ('!', ('mcall', 'std::unordered_set<ratio::flaw *>::empty', 'ratio::solver::flaws')):
                    ctx.finding(rid, f.id, 'loop-guard', 'solver::solve [%s]: agenda loop runs while %s; it must run while !flaws.empty()' % (cfgname, s), node=n)
    # failure -> false
    handlers = [n for n in f.nodes() if n.get('k') == 'CXXCatchStmt']
    ok = False
    for t in [n for n in f.nodes() if n.get('k') == 'CXXTryStmt']:
        for h in t['c'][1:]:
            if 'unsolvable_exception' in (h.get('caught') or ''):
                rets = [canon(r['c'][0], env) for r in walk(h['c'][0]) if r.get('k') == 'ReturnStmt']
                ok = rets == ['false']
    if not ok:
        ctx.finding(rid, f.id, 'unsolvable', 'solver::solve [%s]: an unsolvable_exception must be turned into `return false`' % cfgname, loc=f.loc)


def r1(ctx, fs_by_cfg):
    rid = 'C01.R1'
    ctx.rule(rid, 'CFG of solver::solve in each build configuration: success is reachable only through solve_inconsistencies() after the last decision and a flaws.empty() test after the last '
                  'inconsistency check; unsolvable_exception -> false', floor=2)
    for name, fs in fs_by_cfg.items():
        gate(ctx, rid, fs, name)


def r2(ctx, fs):
    rid = 'C01.R2'
    ctx.rule(rid, 'solve_inconsistencies: `while (!incs.empty())`, every arm re-assigns incs = get_incs() and the function cannot return from inside the loop; get_incs appends the '
                  'current inconsistencies of every smart type; reset_smart_types visits all non-primitive types and every nested type', floor=4)
    f = fs.fn('ratio::solver::solve_inconsistencies')
    env = LocalEnv(f)
    env.local_role('incs', lambda n, i: i == ('mcall', 'ratio::solver::get_incs', 'this'))
    wl = [n for n in f.nodes() if n.get('k') == 'WhileStmt' and canon(n['slots']['cond'], env, subst=False) == ('!', ('mcall', 'std::vector<std::vector<std::pair<smt::lit, double>>>::empty', 'incs'))]
    ctx.instance(rid, [f.id, 'guard'], {'loops_while_inconsistencies_exist': len(wl) == 1})
    if len(wl) != 1:
        ctx.finding(rid, f.id, 'guard', 'solve_inconsistencies must loop while the collected inconsistencies are not empty', loc=f.loc)
    else:
        body = wl[0]['slots']['body']
        paths = enum_paths(body)
        n_ok = 0
        for p in paths:
            if p.end in ('return',):
                ctx.finding(rid, f.id, 'early-return', 'solve_inconsistencies returns while inconsistencies are still pending', node=p.endnode)
                continue
            if p.end == 'throw':
                continue
            re = [canon(s, env, subst=False) for s in p.live(env)]
            ok = any(t == ('=', 'incs', ('mcall', 'ratio::solver::get_incs', 'this')) for t in re)
            # a path that only falls through without touching anything would spin: every arm must refresh
            n_ok += ok
            if not ok:
                conds = [('' if c[2] else 'not ') + show(canon(c[1], env))[:80] for c in p.conds if c[0] == 'if']
                ctx.finding(rid, f.id, 'refresh:' + ';'.join(conds)[:120], 'solve_inconsistencies: an arm of the loop does not re-collect the inconsistencies (incs = get_incs()) before the next iteration', node=wl[0])
        ctx.instance(rid, [f.id, 'refresh'], {'arms': len(paths), 'arms_refreshing': n_ok})
        rets = [n for n in walk_nolambda(f.body) if n.get('k') == 'ReturnStmt']
        if rets:
            ctx.finding(rid, f.id, 'return', 'solve_inconsistencies must only leave through the loop condition (or by throwing unsolvable)', node=rets[0])
    f = fs.fn('ratio::solver::get_incs')
    env = LocalEnv(f)
    env.local_role('incs', lambda n, i: n.get('t') == 'std::vector<std::vector<std::pair<smt::lit, double>>>')      # the (non-const) result being accumulated
    ok = False
    for n in f.nodes():
        if n.get('k') == 'CXXForRangeStmt' and canon(n['slots']['range'], env, subst=False) == 'ratio::solver::sts':
            st = n['slots']['var'].get('name')
            calls = [canon(m, env, subst=False) for m in walk(n['slots']['body']) if m.get('k') == 'CXXMemberCallExpr' and (m.get('callee_name') or '').endswith('::insert')]
            cond = any(m.get('k') in ('IfStmt', 'BreakStmt', 'ContinueStmt') for m in walk(n['slots']['body']))
            srcs = {d['name']: canon(d['init'], env, subst=False) for d in walk(n['slots']['body']) if d.get('k') == 'VarDecl' and isinstance(d.get('init'), dict)}
            GCI = ('mcall', 'ratio::smart_type::get_current_incs', st)
            CB = 'std::vector<std::vector<std::pair<smt::lit, double>>>::cbegin'
            ok = bool(calls) and calls[0][2] == 'incs' and not cond and (('mcall', CB, GCI) in calls[0] or any(v == GCI and ('mcall', CB, k) in calls[0] for k, v in srcs.items()))
            if not ok and not cond:
                # ... or element by element: an unconditional inner loop over get_current_incs() of that smart type that appends each element
                for m in walk(n['slots']['body']):
                    if m.get('k') == 'CXXForRangeStmt' and m is not n and canon(m['slots']['range'], env) == GCI:
                        ev = m['slots']['var'].get('name')
                        ps = [canon(x, env, subst=False) for x in walk(m['slots']['body']) if x.get('k') == 'CXXMemberCallExpr' and (x.get('callee_name') or '').endswith(('::push_back', '::emplace_back'))]
                        if len(ps) == 1 and ps[0][2] == 'incs' and ps[0][-1] == ev:
                            ok = True
    ctx.instance(rid, [f.id, 'all-smart-types'], {'every_smart_type_asked': ok})
    if not ok:
        ctx.finding(rid, f.id, 'all-smart-types', 'solver::get_incs must append get_current_incs() of every smart type, unconditionally', loc=f.loc)
    f = fs.fn('ratio::solver::reset_smart_types')
    env = LocalEnv(f)
    env.local_role('q', lambda n, i: 'std::queue<' in (n.get('t') or ''))
    seeds = nested = casts = False
    for n in f.nodes():
        if n.get('k') == 'CXXForRangeStmt':
            r = show(canon(n['slots']['range'], env, subst=False))
            body = [show(canon(m, env, subst=False)) for m in walk(n['slots']['body']) if m.get('k') == 'CXXMemberCallExpr']
            if 'core::get_types' in r or r.endswith('core::types') or 'scope::get_types this' in r or ('get_types' in r and 'front' not in r):
                conds = [show(canon(m['slots']['cond'], env, subst=False)) for m in walk(n['slots']['body']) if m.get('k') == 'IfStmt']
                seeds = any('queue::push q' in b.replace('<ratio::type *>', '').replace('<type *>', '') for b in body) and all('is_primitive' in c for c in conds)
            elif 'front' in r and 'get_types' in r:
                nested = any('queue::push q' in b.replace('<ratio::type *>', '').replace('<type *>', '') for b in body) and not any(m.get('k') in ('IfStmt', 'BreakStmt', 'ContinueStmt') for m in walk(n['slots']['body']))
        if n.get('k') == 'IfStmt' and n['slots'].get('condvar') is not None:
            d = n['slots']['condvar']['c'][0]
            if 'smart_type' in (d.get('t') or '') and any((m.get('callee_name') or '').endswith('::push_back') for m in walk(n['slots']['then'])):
                casts = True
    ctx.instance(rid, [f.id, 'bfs'], {'seeded_with_all_non_primitive_types': seeds, 'nested_types_enqueued_unconditionally': nested, 'smart_types_recorded': casts})
    if not (seeds and nested and casts):
        ctx.finding(rid, f.id, 'bfs', 'solver::reset_smart_types must visit every non-primitive type and all types nested in them and record each smart type; a missed smart type is never asked for inconsistencies', loc=f.loc)


NI_SETTERS = {'ratio::solver::apply_resolver', 'ratio::smart_type::set_ni', 'ratio::smart_type::restore_ni', 'ratio::core::set_ni', 'ratio::core::restore_ni'}
SMART_NEW_ATOM = {'ratio::state_variable::new_atom', 'ratio::reusable_resource::new_atom', 'ratio::consumable_resource::new_atom', 'ratio::agent::new_atom'}


def r3(ctx, fs):
    rid = 'C01.R3'
    ctx.rule(rid, 'core::assert_facts (both overloads) posts, for every fact, exactly the clause {!ni, fact} and throws unsolvable when it fails; core::ni is written only by set_ni / restore_ni, which '
                  'are called only from solver::apply_resolver and the new_atom of the smart types; an expression statement asserts the literal of the value it evaluated', floor=6)
    fns = fs.fns_named('ratio::core::assert_facts')
    if len(fns) != 2:
        raise AnalysisBroken('expected two overloads of core::assert_facts, found %d' % len(fns))
    for f in fns:
        env = LocalEnv(f, fs)
        env.param_roles(['facts'])
        _, cl = posted(fs, f, env=env)
        lit_t = '$0' if 'smt::lit' in f['params'][0]['t'] else ('.', '$0', 'l')
        want = ((('each', 'facts'),), frozenset({('!', 'ratio::core::ni'), lit_t}))
        got = [c for c, _, _ in cl]
        ctx.instance(rid, [f.id, 'clause'], {'posted': [show_clause(c) for c in got], 'required': show_clause(want)})
        if got != [want]:
            ctx.finding(rid, f.id, 'clause', '%s must post exactly %s for every fact (found %s): a constraint would be lost, negated or made unconditional' % (
                f.name, show_clause(want), [show_clause(c) for c in got]), loc=f.loc, expect=show_clause(want))
        thr = all(any(a.get('k') == 'IfStmt' and any(m.get('k') == 'CXXThrowExpr' for m in walk(a['slots']['then'])) for a in f.ancestors(n)) for _, _, n in cl)
        if not thr:
            ctx.finding(rid, f.id, 'failure', '%s ignores a failing clause' % f.name, loc=f.loc)
    w = effects.field_writers(fs, 'ratio::core::ni')
    for fid, sts in w.items():
        nm = fs.fns[fid].name
        ctx.instance(rid, ['ni-writer', nm], {'writer': fid})
        if nm not in ('ratio::core::set_ni', 'ratio::core::restore_ni', 'ratio::core::core'):
            ctx.finding(rid, fid, 'ni-writer', 'the controlling literal core::ni is written by %s; only set_ni / restore_ni may change it' % nm, node=sts[0].node)
    for f, n in cg.callers(fs, lambda n: n.get('callee_name') in ('ratio::core::set_ni', 'ratio::smart_type::set_ni')):
        ctx.instance(rid, ['set_ni', f.name], {'caller': f.id, 'site': short(n.get('loc'))})
        if f.name not in NI_SETTERS | SMART_NEW_ATOM:
            ctx.finding(rid, f.id, 'set_ni', '%s changes the controlling literal of asserted facts; only resolver application and the fact branch of smart-type atoms may' % f.name, node=n)
    f = fs.fn('ratio::ast::expression_statement::execute')
    env = LocalEnv(f)
    env.param_roles(['scp', 'ctx'])
    be = env.local_role('be', lambda n, i: n.get('t') == 'ratio::bool_expr')
    init = show(env.init_of('be'))
    calls = [canon(n, env, subst=False) for n in f.nodes() if n.get('callee_name') == 'ratio::core::assert_facts']
    ok = len(calls) == 1 and 'expression::evaluate' in init and 'expression_statement::xpr' in init
    arg = None
    if calls:
        for y in _sub(calls[0]):
            if isinstance(y, tuple) and y and y[0] == 'list':
                arg = y[1:]
    ok = ok and arg == (('.', 'be', 'l'),)
    ctx.instance(rid, [f.id, 'literal'], {'evaluates': init[:160], 'asserts': [show(a) for a in (arg or ())]})
    if not ok:
        ctx.finding(rid, f.id, 'literal', 'expression_statement::execute must assert exactly the literal of the expression it evaluated (found %s)' % [show(a) for a in (arg or ())], loc=f.loc)


def _sub(t):
    yield t
    if isinstance(t, tuple):
        for x in t:
            yield from _sub(x)


def result_use(f, n):
    """how the value of call node n is used: 'cond', 'returned', 'stored', 'asserted', 'operand', 'discarded'."""
    if n.get('as'):
        return 'asserted'
    p = f.parent(n)
    cur = n
    while p is not None:
        k = p.get('k')
        if k in ('UnaryOperator',) and p.get('op') == '!':
            cur, p = p, f.parent(p)
            continue
        if k == 'BinaryOperator' and p.get('op') in ('&&', '||'):
            cur, p = p, f.parent(p)
            continue
        if k in ('CXXConstructExpr', 'CXXFunctionalCastExpr', 'CXXStaticCastExpr'):
            cur, p = p, f.parent(p)
            continue
        break
    if p is None:
        return 'discarded'
    k = p.get('k')
    if k in ('IfStmt', 'WhileStmt', 'DoStmt', 'ForStmt') and p['slots'].get('cond') is cur:
        return 'cond'
    if k == 'ConditionalOperator' and (p.get('c') or [None])[0] is cur:
        return 'cond'
    if k == 'ReturnStmt':
        return 'returned'
    if k == 'VarDecl':
        return 'stored'
    if k in ('BinaryOperator', 'CXXOperatorCallExpr') and p.get('op') == '=':
        return 'stored'
    if k in ('CompoundStmt', 'CaseStmt', 'DefaultStmt', 'LabelStmt', 'IfStmt', 'WhileStmt', 'DoStmt', 'ForStmt', 'CXXForRangeStmt', 'SwitchStmt', 'CXXCatchStmt', 'CXXTryStmt', 'LambdaExpr'):
        return 'discarded'
    return 'operand'


def r4(ctx, fs):
    rid = 'C01.R4'
    ctx.rule(rid, 'every call of a consistency-reporting function (new_clause, propagate, assume, next, simplify_db, check, backtrack_analyze_and_backjump, set/set_lb/set_ub, solve, enqueue) uses its bool result: '
                  'condition, returned, or stored (the stored ones feed an assert: belief sites, listed); a discarded result is a violation unless it is one of the named exceptions', floor=90)
    kinds = {}
    for f in fs.defined():
        for n in f.nodes():
            nm = n.get('callee_name')
            if nm not in MUST_CHECK or n.get('k') not in ('CXXMemberCallExpr', 'CallExpr'):
                continue
            u = result_use(f, n)
            kinds[u] = kinds.get(u, 0) + 1
            ctx.instance(rid, [f.id, nm, short(n.get('loc'))], {'caller': f.id, 'callee': nm, 'site': short(n.get('loc')), 'use': u})
            if u == 'stored' or u == 'asserted':
                ctx.belief('%s: result of %s stored/asserted as "cannot fail here" (%s)' % (f.name, nm.rsplit('::', 1)[-1], short(n.get('loc'))))
            if u != 'discarded':
                continue
            key = (f.name, nm)
            if key in R4_ACCEPTED:
                ctx.note('R4 accepted: %s drops %s - %s' % (f.name, nm.rsplit('::', 1)[-1], R4_ACCEPTED[key]))
                continue
            if f.name == 'ratio::executor::solution_found':
                continue        # decided by C19.R5 (executor error discipline)
            ctx.finding(rid, f.id, 'dropped:' + nm.rsplit('::', 1)[-1], '%s ignores the result of %s: a root-level inconsistency reported there is lost and solving can go on to report success' % (
                f.name, nm.rsplit('::', 2)[-2] + '::' + nm.rsplit('::', 1)[-1]), node=n, expect='if (!%s(..)) throw unsolvable_exception();  (or return / propagate the failure)' % nm.rsplit('::', 1)[-1])
    ctx.extra['R4_result_uses'] = kinds


def r5(ctx, fs):
    rid = 'C01.R5'
    ctx.rule(rid, 'core::arith_value / arith_bounds and arith_item::value_to_json read a tp-typed expression from the RDL theory and every other one from the LRA theory (same predicate, same expression); '
                  'bool_value reads sat_core::value of the item\'s literal, enum_value reads ov_theory::value of the item\'s variable', floor=5)
    for name in ('ratio::core::arith_value', 'ratio::core::arith_bounds'):
        f = fs.fn(name)
        env = LocalEnv(f)
        env.param_roles(['x'])
        got = {}
        for p in enum_paths(f.body):
            if p.end != 'return':
                continue
            tp = None
            for c in p.conds:
                if c[0] == 'if':
                    s = show(canon(c[1], env, subst=False))
                    if 'TP_KEYWORD' in s or "'tp'" in s:
                        tp = c[2] if ('==' in s or 'compare' not in s) else (not c[2])
                        if 'compare' in s and '== ' in s and ' 0)' in s:
                            tp = c[2]
            got[tp] = show(canon(p.endnode['c'][0], env))
        ok = got.get(True) is not None and 'rdl_th' in got[True] and '(. x l)' in got[True] and got.get(False) is not None and 'lra_th' in got[False] and '(. x l)' in got[False] and 'rdl_th' not in got[False]
        ctx.instance(rid, [f.id, 'route'], {'tp': got.get(True), 'other': got.get(False)})
        if not ok:
            ctx.finding(rid, f.id, 'route', '%s must read tp-typed expressions from the RDL theory and all others from the LRA theory, on the expression of the item itself (found %s)' % (f.name, got), loc=f.loc)
    for name, want in (('ratio::core::bool_value', ('mcall', 'smt::sat_core::value', 'ratio::core::sat_cr', ('.', 'x', 'l'))), ('ratio::core::enum_value', ('mcall', 'smt::ov_theory::value', 'ratio::core::ov_th', ('.', 'x', 'ev')))):
        f = fs.fn(name, params=['_expr'])
        env = LocalEnv(f)
        env.param_roles(['x'])
        rets = [canon(n['c'][0], env) for n in f.nodes() if n.get('k') == 'ReturnStmt']
        ctx.instance(rid, [f.id, 'read'], {'returns': [show(r) for r in rets]})
        if rets != [want]:
            ctx.finding(rid, f.id, 'read', '%s must return %s (found %s)' % (f.name, show(want), [show(r) for r in rets]), loc=f.loc)
    f = fs.fn('ratio::arith_item::value_to_json')
    env = LocalEnv(f)
    s = ' '.join(show(canon(n, env, subst=False)) for n in f.nodes() if n.get('k') == 'CXXMemberCallExpr' and (n.get('callee_name') or '') in ('smt::rdl_theory::bounds', 'smt::lra_theory::bounds', 'smt::lra_theory::value'))
    ok = 'rdl_theory::bounds' in s and 'lra_theory::bounds' in s and 'lra_theory::value' in s and s.count('arith_item::l') >= 3
    ctx.instance(rid, [f.id, 'route'], {'reads': s[:300]})
    if not ok:
        ctx.finding(rid, f.id, 'route', 'arith_item::value_to_json must print the value and bounds of the item\'s own expression from the theory its type belongs to', loc=f.loc)


RESTS_ON = ['C07', 'C09', 'C10', 'C11', 'C12', 'C13', 'C14', 'C15', 'C16', 'C17']


def run(ctx):
    quick = {'P': ctx.facts('P'), 'F': ctx.facts('F')}
    cfgs = dict(quick)
    if ctx.tier == 'thorough':
        for name in sorted(CONFIGS):
            if name.startswith('M_'):
                cfgs[name] = ctx.facts(name)
    r1(ctx, cfgs)
    fs = quick['F']
    ctx.cfg = 'F'
    r2(ctx, fs)
    r3(ctx, fs)
    r4(ctx, fs)
    r5(ctx, fs)
    # R6: a field read through an object variable is a derived variable; its arithmetic hull must enclose every candidate (shared with C17.R4)
    from .C17 import new_enum_hull
    ctx.rule('C01.R6', 'core::new_enum(type, lits, vals), int / real / tp arms: min = least lower bound and max = greatest upper bound of the candidate values (dual updates from +inf / -inf), '
                       'the derived variable is a constant only when min == max and is bounded by x >= min, x <= max - so that a constraint on `r.f` constrains the field of the object chosen for r', floor=3)
    new_enum_hull(ctx, fs, 'C01.R6')
    # the end-to-end property rests on the structural clauses of the SAT core, the theories and the language front end: a reported solution can only satisfy what was asserted if every literal, bound and expression means what it says
    for dep in RESTS_ON:
        ctx.include(dep)
    ctx.note('rule packs of the properties this one rests on were evaluated as part of this check: ' + ', '.join(RESTS_ON))
