"""C03 - every atom justified, causal support acyclic (DESIGN 4, C03).

R1  flaw expansion schemas (flaw::expand, flaw::add_resolver); atom / bool / var flaws are exclusive.
R2  unification: literals of the unify resolver, guards of the candidate loop, clauses of unify_atom::apply, causal link.
R3  activation: activate_fact / activate_goal clauses, rule application, supertypes first, ni bracketing of apply_resolver.
R4  strict causal ordering in flaw::init; phi = conjunction of the causes.
R5  atom::new_eq and atom::equates traverse the same, complete set of fields.
R6  polarity-aware activation dispatch in solver::propagate.
"""
from ..expr import LocalEnv, canon, show
from ..facts import AnalysisBroken, kids, short, src, walk, walk_nolambda
from ..schema import posted, show_clause
from ..tables import VecBuilder, arm_of, enum_paths, fmt_items, switch_arms
from .. import cfg

N = lambda x: ('!', x)
RES = 'std::vector<ratio::resolver *>'


def _check(ctx, rid, f, got, want, what):
    gs = {c for c, _, _ in got}
    nodes = {c: n for c, _, n in got}
    for w in sorted(want, key=repr):
        ctx.instance(rid, [f.id, show_clause(w)], {'function': f.id, 'required_clause': show_clause(w), 'present': w in gs})
        if w not in gs:
            ctx.finding(rid, f.id, 'missing ' + show_clause(w), '%s does not post %s: %s' % (f.name, show_clause(w), what), loc=f.loc,
                        construct='posted: ' + ' ; '.join(sorted(show_clause(g) for g in gs)), expect=show_clause(w))
    for g in sorted(gs - set(want), key=repr):
        ctx.finding(rid, f.id, 'unexpected ' + show_clause(g), '%s posts %s, which is not part of the causal encoding' % (f.name, show_clause(g)), node=nodes[g])


def r1(ctx, fs):
    rid = 'C03.R1'
    ctx.rule(rid, 'flaw::expand: no resolver -> {!phi}; else {!phi} + all rho, and for an exclusive flaw {!rho_i, !rho_j} for all i<j; every failed clause throws unsolvable; '
                  'flaw::add_resolver: {!rho, phi} before registering; atom_flaw, bool_flaw, var_flaw are constructed exclusive', floor=8)
    f = fs.fn('ratio::flaw::expand')
    env = LocalEnv(f, fs)
    _, cl = posted(fs, f, env=env)
    PHI, RS = 'ratio::flaw::phi', 'ratio::flaw::resolvers'
    size = ('mcall', RES + '::size', RS)
    i_loop = ('for', ('num', 0), ('<', '$0', size), ('++', '$0'))
    j_loop = ('for', ('+', '$0', ('num', 1)), ('<', '$1', size), ('++', '$1'))
    want = {((), frozenset({N(PHI)})),
            ((), frozenset({N(PHI), ('ctx', (('each', RS),), ('.', '$e0', 'rho'))})),
            ((i_loop, j_loop), frozenset({N(('.', ('[]', RS, '$0'), 'rho')), N(('.', ('[]', RS, '$1'), 'rho'))}))}
    _check(ctx, rid, f, cl, want, 'an active flaw would not force one (and, if exclusive, only one) of its resolvers')
    empty = ('mcall', RES + '::empty', RS)
    for c, when, n in cl:
        wn = [(w[1], w[2]) for w in when if w[0] == 'if']
        if c[1] == frozenset({N(PHI)}) and c[0] == ():
            ok = (empty, True) in wn
        elif c[0] == ():
            ok = (empty, False) in wn
        else:
            ok = (empty, False) in wn and ('ratio::flaw::exclusive', True) in wn
        if not ok:
            ctx.finding(rid, f.id, 'guard ' + show_clause(c), 'flaw::expand posts %s under the wrong condition %s' % (show_clause(c), [(show(a), b) for a, b in wn]), node=n)
        # failure must throw
        par = f.parent(n)
        thr = False
        for a in f.ancestors(n):
            if a.get('k') == 'IfStmt' and any(m is n for m in walk(a['slots']['cond'])):
                thr = any(m.get('k') == 'CXXThrowExpr' for m in walk(a['slots']['then'])) and canon(a['slots']['cond'], env, subst=False)[0] == '!'
                break
        if not thr:
            ctx.finding(rid, f.id, 'unchecked ' + show_clause(c), 'flaw::expand ignores the failure of the clause %s' % show_clause(c), node=n, expect='if (!new_clause(..)) throw unsolvable_exception();')
    f = fs.fn('ratio::flaw::add_resolver')
    env = LocalEnv(f, fs)
    env.param_roles(['r'])
    _, cl = posted(fs, f, env=env)
    _check(ctx, rid, f, cl, {((), frozenset({N(('.', 'r', 'rho')), 'ratio::flaw::phi'}))}, 'an active resolver would not imply that its flaw is active')
    g = cfg.Graph(f)
    clause_ev = g.events(lambda t: t.get('callee_name') == 'smt::sat_core::new_clause')
    reg_ev = g.events(lambda t: (t.get('callee_name') or '').endswith('::push_back') or t.get('callee_name') == 'ratio::solver::new_resolver')
    okb = bool(reg_ev) and g.always_before(clause_ev, reg_ev)
    ctx.instance(rid, [f.id, 'order'], {'clause_before_registration': okb})
    if not okb:
        ctx.finding(rid, f.id, 'order', 'flaw::add_resolver must post {!rho, phi} before the resolver is registered', loc=f.loc)
    for cls in ('atom_flaw', 'bool_flaw', 'var_flaw'):
        ctor = [c for c in fs.fns_named('ratio::%s::%s' % (cls, cls))]
        if len(ctor) != 1:
            raise AnalysisBroken('constructor of %s not found' % cls)
        excl = None
        for io in ctor[0].get('inits') or ():
            if io.get('base') == 'ratio::flaw':
                t = canon(io['init'], None)
                excl = t[-1]
        ctx.instance(rid, [ctor[0].id, 'exclusive'], {'flaw': cls, 'exclusive': show(excl)})
        if excl != 'true':
            ctx.finding(rid, ctor[0].id, 'exclusive', '%s must be an exclusive flaw (exactly one way of justifying / valuing it may be chosen)' % cls, loc=ctor[0].loc)


def r2(ctx, fs):
    rid = 'C03.R2'
    ctx.rule(rid, 'atom_flaw::compute_resolvers: only while sigma is undefined; candidates = all instances of the predicate minus self, unexpanded, causally later, already unified and '
                  'non-equating ones; unify resolver literals {!sigma(atm), sigma(target), atm.new_eq(target)}; causal link for every unifier; unify_atom::apply posts {!rho, v} for each '
                  'unification literal and ties rho to the activation of the target; new_causal_link posts {!rho, phi(target)} and position(target) <= position(effect)', floor=12)
    f = fs.fn('ratio::atom_flaw::compute_resolvers')
    env = LocalEnv(f, fs)
    loops = [n for n in f.nodes() if n.get('k') == 'CXXForRangeStmt']
    if len(loops) != 1:
        raise AnalysisBroken('%s: candidate loop not found' % f.id)
    lp = loops[0]
    rng = canon(lp['slots']['range'], env, subst=False)
    ATM = 'ratio::atom_flaw::atm'
    ok_rng = rng == ('mcall', 'ratio::type::get_instances', ('mcall', 'ratio::item::get_type', ATM)) or rng == ('.', ('mcall', 'ratio::item::get_type', ATM), 'instances') or \
        (isinstance(rng, tuple) and rng[-1] == 'instances') or 'get_instances' in show(rng)
    ctx.instance(rid, [f.id, 'candidates'], {'range': show(rng)})
    if not ok_rng:
        ctx.finding(rid, f.id, 'candidates', 'atom_flaw::compute_resolvers must consider every instance of the atom\'s predicate as unification target', node=lp)
    # the loop is guarded by sigma undefined
    guard = None
    for a in f.ancestors(lp):
        if a.get('k') == 'IfStmt':
            guard = canon(a['slots']['cond'], env, subst=False)
    SIG = lambda a: ('.', a, 'sigma')
    want_guard = ('==', ) + tuple(sorted((('mcall', 'smt::sat_core::value', ('.', ('mcall', 'ratio::flaw::get_solver', 'this'), 'sat_cr'), SIG(ATM)), 'smt::Undefined'), key=repr))
    okg = isinstance(guard, tuple) and guard[0] == '==' and 'smt::Undefined' in guard and 'sigma' in show(guard)
    ctx.instance(rid, [f.id, 'guard'], {'guard': show(guard)})
    if not okg:
        ctx.finding(rid, f.id, 'guard', 'atom_flaw::compute_resolvers must look for unifications only while the atom is neither active nor unified', node=lp)
    env.local_role('t_atm', lambda n, i: n.get('t') == 'ratio::atom &')
    env.local_role('t_flaw', lambda n, i: n.get('t') == 'ratio::atom_flaw &')
    env.local_role('eq_lit', lambda n, i: n.get('t') == 'smt::lit')
    env.local_role('u_res', lambda n, i: n.get('t') == 'ratio::atom_flaw::unify_atom *')
    skips = []
    for n in walk(lp['slots']['body']):
        if n.get('k') == 'IfStmt' and any(m.get('k') == 'ContinueStmt' for m in walk(n['slots']['then'])):
            c = canon(n['slots']['cond'], env, subst=False)
            skips.extend(_disj(c))
    sk = {show(x) for x in skips}
    need = {
        'self': lambda s: any('(== ' in x and 'atom_flaw::atm' in x and x.count('atm') >= 1 and '&' not in x for x in s) or any(x.startswith('(== ') and 'atom_flaw::atm' in x for x in s),
        'target not expanded': lambda s: any(x.startswith('(! ') and 'expanded' in x and 't_flaw' in x for x in s),
        'causally later (distance(position, target position).first > 0)': lambda s: any(x.startswith('(< 0 ') and 'idl_theory::distance' in x and x.endswith('first))') and 'flaw::position' in x and '(. t_flaw position)' in x for x in s),
        'target already unified (sigma false)': lambda s: any('smt::False' in x or ' False' in x for x in s if 't_atm' in x and 'sigma' in x),
        'not equating': lambda s: any(x.startswith('(! ') and 'atom::equates' in x and 't_atm' in x for x in s),
        'equality literal false': lambda s: any('eq_lit' in x and 'False' in x for x in s),
    }
    for k, pred in need.items():
        ok = pred(sk)
        ctx.instance(rid, [f.id, 'skip/' + k], {'skip_condition': k, 'present': ok})
        if not ok:
            ctx.finding(rid, f.id, 'skip/' + k, 'atom_flaw::compute_resolvers no longer skips a candidate that is "%s" (found skip conditions %s)' % (k, sorted(sk)), node=lp)
    dist = [x for x in skips if 'idl_theory::distance' in show(x)]
    if dist:
        d = [y for y in _sub(dist[0]) if isinstance(y, tuple) and y[0] == 'mcall' and y[1] == 'smt::idl_theory::distance']
        if d and d[0][3:] != ('ratio::flaw::position', ('.', 't_flaw', 'position')):
            ctx.finding(rid, f.id, 'skip/direction', 'the causality test must compare the position of this flaw with the target\'s: distance(position, target.position), found %s' % show(d[0]), node=lp)
    eq = env.init_of('eq_lit')
    ok = eq == ('mcall', 'ratio::atom::new_eq', ATM, 't_atm')
    u = env.init_of('u_res')
    lits = None
    if isinstance(u, tuple):
        for y in _sub(u):
            if isinstance(y, tuple) and y[0] == 'list' and len(y) == 4:
                lits = set(y[1:])
    want_l = {N(('lit', SIG(ATM))), ('lit', SIG('t_atm')), 'eq_lit'}
    ctx.instance(rid, [f.id, 'unif-lits'], {'eq_lit': show(eq), 'literals': sorted(show(x) for x in lits) if lits else None})
    if not ok or lits != want_l:
        ctx.finding(rid, f.id, 'unif-lits', 'the unification resolver must carry exactly {!sigma(atom), sigma(target), atom.new_eq(target)} (found eq = %s, literals = %s)' % (
            show(eq), sorted(show(x) for x in lits) if lits else None), node=lp, expect='{lit(atm.sigma, false), lit(t_atm.sigma), atm.new_eq(t_atm)}')
    body_calls = [canon(n, env, subst=False) for n in walk(lp['slots']['body']) if n.get('k') == 'CXXMemberCallExpr']
    has_add = any(c[1] == 'ratio::flaw::add_resolver' and c[3] == 'u_res' for c in body_calls)
    has_link = any(c[1] == 'ratio::solver::new_causal_link' and c[3:] == ('t_flaw', 'u_res') for c in body_calls)
    ctx.instance(rid, [f.id, 'register'], {'add_resolver(u_res)': has_add, 'new_causal_link(t_flaw, u_res)': has_link})
    if not has_add or not has_link:
        ctx.finding(rid, f.id, 'register', 'every unifier must be added as a resolver and causally linked to the flaw of its target', node=lp)
    # activation resolvers: fact -> activate_fact, goal -> activate_goal, always at least one
    news = [n.get('alloc_t') for n in f.nodes() if n.get('k') == 'CXXNewExpr' and 'activate_' in (n.get('alloc_t') or '')]
    ctx.instance(rid, [f.id, 'activation'], {'activation_resolvers': news})
    if sorted(news) != ['ratio::atom_flaw::activate_fact'] * 2 + ['ratio::atom_flaw::activate_goal'] * 2:
        ctx.finding(rid, f.id, 'activation', 'compute_resolvers must always offer the activation of the atom itself (fact / goal, with and without a fresh rho)', loc=f.loc)
    # unify_atom::apply
    f = fs.fn('ratio::atom_flaw::unify_atom::apply')
    env = LocalEnv(f, fs)
    env.local_role('t_flaw', lambda n, i: n.get('t') == 'ratio::atom_flaw &')
    _, cl = posted(fs, f, env=env)
    RHO = 'ratio::resolver::rho'
    want = {((('each', 'ratio::atom_flaw::unify_atom::unif_lits'),), frozenset({N(RHO), '$0'}))}
    gs = {c for c, _, _ in cl}
    for w in want:
        ctx.instance(rid, [f.id, show_clause(w)], {'required_clause': show_clause(w), 'present': w in gs})
        if w not in gs:
            ctx.finding(rid, f.id, 'missing ' + show_clause(w), 'unify_atom::apply must post {!rho, v} for every unification literal: choosing the unifier would not force sigma / equality', loc=f.loc)
    act = [c for c in gs if c[0] and c[0][0] == ('each', ('.', 't_flaw', 'resolvers'))]
    # every resolver of the target that is an activation (activate_fact / activate_goal) gets {its rho, !rho}: one clause per kind, or one clause for both
    def dyn(t):
        return t[1] if isinstance(t, tuple) and len(t) == 3 and t[0] == 'dyncast' and t[2] == '$0' else None
    covered = set()
    ok = bool(act)
    for c in act:
        kinds = set()
        for g in c[0][1:]:
            if g[0] == 'if' and g[2] is True:
                for d in ([g[1]] if dyn(g[1]) else (g[1][1:] if isinstance(g[1], tuple) and g[1] and g[1][0] == '||' else ())):
                    if dyn(d):
                        kinds.add(dyn(d))
        other = [l for l in c[1] if l != N(RHO)]
        good = N(RHO) in c[1] and len(c[1]) == 2 and kinds and len(other) == 1 and isinstance(other[0], tuple) and other[0][0] == '.' and other[0][2] == 'rho' and \
            (other[0][1] == '$0' or (dyn(other[0][1]) in kinds and len(kinds) == 1))
        ok = ok and bool(good)
        covered |= kinds
    ok = ok and covered == {'ratio::atom_flaw::activate_fact *', 'ratio::atom_flaw::activate_goal *'}
    ctx.instance(rid, [f.id, 'target-activable'], {'clauses': [show_clause(c) for c in act]})
    if not ok:
        ctx.finding(rid, f.id, 'target-activable', 'unify_atom::apply must tie the unifier to the activation resolver of the target ({act_rho, !rho})', loc=f.loc)
    extra = gs - want - set(act)
    for g in extra:
        ctx.finding(rid, f.id, 'unexpected ' + show_clause(g), 'unify_atom::apply posts an unexpected clause %s' % show_clause(g), loc=f.loc)
    init = env.init_of('t_flaw')
    if init != ('mcall', 'ratio::solver::get_reason', ('mcall', 'ratio::resolver::get_solver', 'this'), 'ratio::atom_flaw::unify_atom::trgt') and 'get_reason' not in show(init):
        ctx.finding(rid, f.id, 't_flaw', 'unify_atom::apply: the target flaw must be the reason of the target atom', loc=f.loc)
    # new_causal_link
    f = fs.fn('ratio::solver::new_causal_link')
    env = LocalEnv(f, fs)
    env.param_roles(['f', 'r'])
    _, cl = posted(fs, f, env=env)
    IDL = ('mcall', 'ratio::core::get_idl_theory', 'this')
    want = {((), frozenset({N(('.', 'r', 'rho')), ('.', 'f', 'phi')})),
            ((), frozenset({N(('.', 'r', 'rho')), ('mcall', 'smt::idl_theory::new_distance', ('.', 'this', 'idl_th') if False else _idl(cl), ('.', ('.', 'r', 'effect'), 'position'), ('.', 'f', 'position'), ('num', 0))}))}
    _check(ctx, rid, f, cl, want, 'a chosen unifier would not require its supporting flaw, or could precede it')
    effs = [canon(s, env, subst=False) for s in walk(f.body) if s.get('k') == 'CXXMemberCallExpr']
    okp = ('mcall', 'std::vector<ratio::flaw *>::push_back', ('.', 'r', 'preconditions'), 'f') in effs and ('mcall', RES + '::push_back', ('.', 'f', 'supports'), 'r') in effs
    ctx.instance(rid, [f.id, 'graph'], {'precondition_and_support_edges': okp})
    if not okp:
        ctx.finding(rid, f.id, 'graph', 'new_causal_link must record the flaw as precondition of the resolver and the resolver as support of the flaw (cost propagation)', loc=f.loc)


def _idl(cl):
    for c, _, _ in cl:
        for l in c[1]:
            if isinstance(l, tuple) and l[0] == 'mcall' and l[1] == 'smt::idl_theory::new_distance':
                return l[2]
    return None


def _disj(t):
    if isinstance(t, tuple) and t and t[0] == '||':
        for x in t[1:]:
            yield from _disj(x)
    else:
        yield t


def _sub(t):
    yield t
    if isinstance(t, tuple):
        for x in t:
            yield from _sub(x)


def apply_rule_shape(ctx, rid, fs):
    """predicate::apply_rule: the rule of every super-predicate, then every statement of the own rule - unconditionally (shared by C03.R3 and C06.R2)."""
    f = fs.fn('ratio::predicate::apply_rule')
    env = LocalEnv(f)
    env.param_roles(['a'])
    loops = [n for n in f.nodes() if n.get('k') == 'CXXForRangeStmt']
    sup = [n for n in loops if canon(n['slots']['range'], env, subst=False) == 'ratio::type::supertypes']
    sts = [n for n in loops if canon(n['slots']['range'], env, subst=False) == 'ratio::predicate::statements']
    ok_sup = len(sup) == 1 and any(m.get('callee_name') == 'ratio::predicate::apply_rule' for m in walk(sup[0]['slots']['body'])) and not any(m.get('k') in ('IfStmt', 'BreakStmt', 'ContinueStmt') for m in walk(sup[0]['slots']['body']))
    ok_sts = len(sts) == 1 and any((m.get('callee_name') or '').endswith('statement::execute') for m in walk(sts[0]['slots']['body'])) and not any(m.get('k') in ('IfStmt', 'BreakStmt', 'ContinueStmt') for m in walk(sts[0]['slots']['body']))
    def _flat(b):
        for x in kids(b):
            if x.get('k') == 'CompoundStmt':
                yield from _flat(x)
            else:
                yield x
    seq = list(_flat(f.body))           # the statements in the order they are executed (an inlined lambda / helper sits where it is called, not where it is written)

    def _at(n):
        for i, x in enumerate(seq):
            if x is n or any(m is n for m in walk(x)):
                return i
        return -1
    order = ok_sup and ok_sts and 0 <= _at(sup[0]) < _at(sts[0])
    ctx.instance(rid, [f.id, 'inheritance'], {'super_rules_applied': ok_sup, 'all_statements_executed': ok_sts, 'super_first': order})
    if not (ok_sup and ok_sts and order):
        ctx.finding(rid, f.id, 'inheritance', 'predicate::apply_rule must apply the rule of every super-predicate first and then execute every statement of its own rule', loc=f.loc)
    this_ok = any(canon(n, env, subst=False)[1].endswith('::emplace') and canon(n, env, subst=False)[3] == ('str', 'this') and canon(n, env, subst=False)[4] == 'a' for n in f.nodes()
                  if n.get('k') == 'CXXMemberCallExpr' and isinstance(canon(n, env, subst=False), tuple) and len(canon(n, env, subst=False)) == 5)
    if not this_ok:
        ctx.finding(rid, f.id, 'this', 'predicate::apply_rule must bind `this` to the atom the rule is applied to', loc=f.loc)
    # no way round the two loops: they are statements of the function body itself and nothing leaves the function early
    def flat(b):
        for x in kids(b):
            if x.get('k') == 'CompoundStmt':
                yield from flat(x)      # a nested block (a scope, an inlined helper) is executed whenever its parent is
            else:
                yield x
    top = list(flat(f.body))
    early = [n for n in walk_nolambda(f.body) if n.get('k') in ('ReturnStmt', 'GotoStmt', 'CXXThrowExpr')]
    uncond = bool(sup) and bool(sts) and any(x is sup[0] for x in top) and any(x is sts[0] for x in top) and not early
    ctx.instance(rid, [f.id, 'unconditional'], {'loops_are_top_level_statements': uncond, 'early_exits': [short(n.get('loc')) for n in early]})
    activation_dispatch(ctx, rid, fs)
    if not uncond:
        ctx.finding(rid, f.id, 'unconditional', 'predicate::apply_rule can skip the rules of the super-predicates or its own statements (an early exit or a guard around the loops): a predicate that inherits '
                    'Interval / Impulse (or any user rule) would then be activated without the inherited constraints', node=(early[0] if early else f.body))


def activation_dispatch(ctx, rid, fs):
    """atom_flaw::compute_resolvers offers the activation of the atom itself on every path: activate_fact exactly for a fact, activate_goal (which applies the
    rule of the predicate, inherited rules included) exactly for a goal - under no other condition than is_fact and "there is no unifier"."""
    f = fs.fn('ratio::atom_flaw::compute_resolvers')
    env = LocalEnv(f)
    cn = lambda n: canon(n, env, subst=False)
    n = 0
    ok = True
    seen = set()
    for p in enum_paths(f.body):
        if p.end not in ('fall', 'return'):
            continue
        fact = None
        other = []
        news = [m for st in p.stmts if not st.get('as') for m in walk(st) if m.get('k') == 'CXXNewExpr' and 'atom_flaw::activate_' in (m.get('alloc_t') or '')]
        kinds = [m.get('alloc_t') for m in news]
        # the conditions the activation is directly controlled by: those of the ifs that enclose it
        ctrl = set()
        for m in news:
            for a in f.ancestors(m):
                if a.get('k') == 'IfStmt' and a['slots'].get('cond') is not None:
                    ctrl |= {id(x) for x in walk(a['slots']['cond'])}
        for c in p.conds:
            if c[0] != 'if':
                continue
            t = cn(c[1])
            if t == 'ratio::atom_flaw::is_fact':
                fact = c[2]
            elif isinstance(t, tuple) and t[0] == 'mcall' and str(t[1]).endswith('::empty') and 'get_resolvers' in show(t):
                pass
            elif id(c[1]) in ctrl:
                other.append(show(t)[:80])
        n += 1
        want = ['ratio::atom_flaw::activate_fact'] if fact is True else ['ratio::atom_flaw::activate_goal'] if fact is False else None
        good = kinds == want and not other
        seen.add(fact)
        ok = ok and good
        if not good:
            ctx.finding(rid, f.id, 'activation:%s' % fact, 'atom_flaw::compute_resolvers: on a path with is_fact = %s%s the activation offered is %s: a goal must be activated through activate_goal (its rule - and '
                        'the inherited Interval / Impulse rule - is applied there), a fact through activate_fact, whatever else holds' % (
                            fact, (' and ' + ', '.join(other)) if other else '', [k.rsplit('::', 1)[-1] for k in kinds] or 'none'), loc=f.loc)
    ctx.instance(rid, [f.id, 'activation-dispatch'], {'paths': n, 'ok': ok and seen == {True, False}})
    if seen != {True, False}:
        raise AnalysisBroken('%s: the paths for a fact and for a goal were not both found' % f.id)


def r3(ctx, fs):
    rid = 'C03.R3'
    ctx.rule(rid, 'activate_fact/goal::apply post {!rho, sigma}; activate_goal additionally applies the rule of the predicate; predicate::apply_rule applies every super-rule first and '
                  'executes every statement; solver::apply_resolver sets ni = rho before r.apply() and restores it on the normal and on the inconsistency path, where {!rho} is posted', floor=6)
    for cls in ('activate_fact', 'activate_goal'):
        f = fs.fn('ratio::atom_flaw::%s::apply' % cls)
        env = LocalEnv(f, fs)
        _, cl = posted(fs, f, env=env)
        env = LocalEnv(f)
        want = {((), frozenset({N('ratio::resolver::rho'), ('lit', ('.', 'ratio::atom_flaw::%s::atm' % cls, 'sigma'))}))}
        _check(ctx, rid, f, cl, want, 'choosing to activate the atom would not make it active')
        rule = [canon(n, env, subst=False) for n in f.nodes() if n.get('callee_name') == 'ratio::predicate::apply_rule']
        if cls == 'activate_goal':
            ok = len(rule) == 1 and rule[0][3] == 'ratio::atom_flaw::activate_goal::atm' and 'get_type' in show(rule[0][2]) and 'activate_goal::atm' in show(rule[0][2])
            ctx.instance(rid, [f.id, 'rule'], {'applies_rule_of_the_atoms_predicate': ok})
            if not ok:
                ctx.finding(rid, f.id, 'rule', 'activate_goal::apply must apply the rule of the goal\'s own predicate to the goal (subgoals and constraints of the rule)', loc=f.loc)
            g = cfg.Graph(f)
            okp = g.must_pass(g.events(lambda t: t.get('callee_name') == 'ratio::predicate::apply_rule'))
            if not okp:
                ctx.finding(rid, f.id, 'rule/path', 'activate_goal::apply can return normally without applying the rule', loc=f.loc)
    apply_rule_shape(ctx, rid, fs)
    # apply_resolver bracketing
    f = fs.fn('ratio::solver::apply_resolver')
    env = LocalEnv(f, fs)
    env.param_roles(['r'])
    g = cfg.Graph(f)
    set_ev = g.events(lambda t: t.get('callee_name') == 'ratio::core::set_ni')
    app_ev = g.events(lambda t: t.get('callee_name') == 'ratio::resolver::apply')
    rst_ev = g.events(lambda t: t.get('callee_name') == 'ratio::core::restore_ni')
    sets = [canon(g.tree(n), env, subst=False) for n in set_ev]
    ok = len(set_ev) == 1 and len(app_ev) == 1 and sets[0][3] == ('.', 'r', 'rho') and g.always_before(set_ev, app_ev) and g.must_pass(rst_ev, start=sorted(app_ev)[0])
    # restore_ni outside the try block (so that it runs after the handler as well)
    in_try = [n for n in rst_ev if any(a.get('k') == 'CXXTryStmt' for a in f.ancestors(g.tree(n)))]
    ctx.instance(rid, [f.id, 'bracket'], {'set_ni(r.rho) before apply': bool(set_ev), 'restore_ni on every normal exit after apply': ok, 'restore inside try': len(in_try)})
    if not ok or in_try:
        ctx.finding(rid, f.id, 'bracket', 'solver::apply_resolver must execute the resolver between set_ni(r.rho) and restore_ni(), the latter on the normal and on the caught-inconsistency path: '
                    'otherwise constraints of later statements are posted under a stale controlling literal', loc=f.loc)
    _, cl = posted(fs, f, env=env)
    handler = [c for c, w, n in cl if any(a.get('k') == 'CXXTryStmt' for a in f.ancestors(n))]
    okh = handler == [((), frozenset({N(('.', 'r', 'rho'))}))]
    ctx.instance(rid, [f.id, 'inapplicable'], {'handler_posts': [show_clause(c) for c in handler]})
    if not okh:
        ctx.finding(rid, f.id, 'inapplicable', 'solver::apply_resolver: an inapplicable resolver must be forbidden with the unit clause {!rho}', loc=f.loc)
    # .. on every path through the handler, and a refused clause (rho already true: a landmark) makes the problem unsolvable: the first decision of the handler is the answer of
    # new_clause({!rho}) itself - a test in front of it (or beside it, in a conjunction) leaves a half-applied rule body in the plan whenever it skips the clause
    catches = [n for n in f.nodes() if n.get('k') == 'CXXCatchStmt']
    if len(catches) != 1:
        raise AnalysisBroken('%s: expected one catch handler, found %d' % (f.id, len(catches)))
    hbody = [c for c in (catches[0].get('c') or ()) if c.get('k') == 'CompoundStmt']
    if not hbody:
        raise AnalysisBroken('%s: handler without a body' % f.id)

    def is_nc(t):
        return isinstance(t, tuple) and t[:2] == ('mcall', 'smt::sat_core::new_clause')
    okd, n_paths, why = True, 0, ''
    for p in enum_paths(hbody[0]):
        n_paths += 1
        decs = [(node, pol) for kind, node, pol in p.conds if kind == 'if']
        if not decs:
            okd, why = False, 'a path through the handler takes no decision on the answer of new_clause'
            continue
        first = canon(decs[0][0], env)
        if not is_nc(first):
            okd, why = False, 'the first decision of the handler is %s, not the answer of new_clause({!rho})' % show(first)
            continue
        if decs[0][1] is False and p.end != 'throw':
            okd, why = False, 'a refused {!rho} does not end in unsolvable_exception'
    ctx.instance(rid, [f.id, 'inapplicable/paths'], {'handler_paths': n_paths, 'first_decision_is_the_clause': okd})
    if n_paths < 2:
        raise AnalysisBroken('%s: the handler has fewer than two paths (clause accepted / refused)' % f.id)
    if not okd:
        ctx.finding(rid, f.id, 'inapplicable/paths', 'solver::apply_resolver: when the resolver is inapplicable, {!rho} must be posted unconditionally and its refusal must make the problem unsolvable (%s): '
                    'otherwise a goal stays active with only part of its rule body in the plan' % why, node=catches[0])


def _pos(n):
    p = n['loc'].rsplit(':', 2)
    return (int(p[1]), int(p[2]))


def r4(ctx, fs):
    rid = 'C03.R4'
    ctx.rule(rid, 'flaw::init: position >= 0; for every cause, position(this) - position(cause.effect) <= K with constant K < 0 (strictly later), posted as a unit clause; '
                  'phi = new_conj of the rho of all causes; precondition / support edges recorded', floor=4)
    f = fs.fn('ratio::flaw::init')
    env = LocalEnv(f, fs)
    _, cl = posted(fs, f, env=env)
    dist = None
    for c, w, n in cl:
        if c[0] == (('each', 'ratio::flaw::causes'),) and len(c[1]) == 1:
            l = list(c[1])[0]
            if isinstance(l, tuple) and l[0] == 'mcall' and l[1] == 'smt::idl_theory::new_distance':
                dist = (l, n)
    ok = False
    if dist:
        l = dist[0]
        k = l[5]
        ok = l[3] == ('.', ('.', '$0', 'effect'), 'position') and l[4] == 'ratio::flaw::position' and isinstance(k, tuple) and k[0] == 'num' and k[1] < 0
    ctx.instance(rid, [f.id, 'strict-order'], {'clause': show_clause((dist[0] and ((('each', 'ratio::flaw::causes'),), frozenset({dist[0]})))) if dist else None})
    if not ok:
        ctx.finding(rid, f.id, 'strict-order', 'flaw::init must order every flaw strictly after the effect of each of its causes (new_distance(cause.effect.position, position, K), K < 0): '
                    'with K >= 0 an atom could be supported, through unification, by an atom it gave rise to', node=dist[1] if dist else f.body, expect='K = -1')
    nonneg = any(c[0] == () and list(c[1])[0][:2] == ('mcall', 'smt::idl_theory::new_distance') and list(c[1])[0][3:] == ('ratio::flaw::position', ('num', 0), ('num', 0)) for c, _, _ in cl if len(c[1]) == 1 and isinstance(list(c[1])[0], tuple))
    ctx.instance(rid, [f.id, 'position>=0'], {'posted': nonneg})
    if not nonneg:
        ctx.finding(rid, f.id, 'position>=0', 'flaw::init must bound the position from below (0 - position <= 0)', loc=f.loc)
    vb = VecBuilder(f, env)
    cs = env.local_role('cs', lambda n, i: n.get('t') == 'std::vector<smt::lit>')
    its = vb.items.get(cs)
    okc = its is not None and not vb.unrec.get(cs) and len(its) == 1 and its[0][0] == 'ctx' and len(its[0][1]) == 1 and its[0][1][0][:2] == ('each', 'ratio::flaw::causes') and its[0][2] == ('.', its[0][1][0][2], 'rho')
    asg = [canon(n, env, subst=False) for n in f.nodes() if n.get('k') == 'CXXOperatorCallExpr' and n.get('op') == '=']
    okp = ('=', 'ratio::flaw::phi', ('mcall', 'smt::sat_core::new_conj', ('.', 'ratio::flaw::slv', 'sat_cr') if False else _satcore(asg), 'cs')) in asg
    ctx.instance(rid, [f.id, 'phi'], {'causes_literals': fmt_items(its), 'phi_is_their_conjunction': okp})
    if not okc or not okp:
        ctx.finding(rid, f.id, 'phi', 'flaw::init: phi must be the conjunction of the rho of all causes (found %s)' % fmt_items(its), loc=f.loc)
    edges = [canon(n, env, subst=False) for n in f.nodes() if n.get('k') == 'CXXMemberCallExpr' and (n.get('callee_name') or '').endswith('::push_back') and not n.get('as')]
    oke = len([e for e in edges if e[2] in ('ratio::flaw::supports',) or (isinstance(e[2], tuple) and e[2][-1] == 'preconditions')]) == 2
    ctx.instance(rid, [f.id, 'edges'], {'precondition_and_support_edges': oke})
    if not oke:
        ctx.finding(rid, f.id, 'edges', 'flaw::init must record the flaw as precondition of each cause and each cause as support', loc=f.loc)


def _satcore(asg):
    for a in asg:
        if isinstance(a, tuple) and a[0] == '=' and a[1] == 'ratio::flaw::phi' and isinstance(a[2], tuple) and a[2][:2] == ('mcall', 'smt::sat_core::new_conj'):
            return a[2][2]
    return None


def r5(ctx, fs):
    rid = 'C03.R5'
    ctx.rule(rid, 'atom::new_eq and atom::equates: identity, predicate-name test, delegation to an object variable, then a breadth-first visit of the predicate and all its '
                  'super-predicates comparing every non-synthetic field of both atoms (new_eq collects the equalities, equates fails on the first mismatch)', floor=8)
    res = {}
    unrec = []
    for nm in ('new_eq', 'equates'):
        f = fs.fn('ratio::atom::' + nm)
        env = LocalEnv(f)
        env.param_roles(['i'])
        q = env.local_role('q', lambda n, i: 'std::queue<' in (n.get('t') or ''), optional=True)
        wl = [n for n in f.nodes() if n.get('k') == 'WhileStmt']
        if q is None or len(wl) != 1:
            # no work-list traversal recognised in this one: decided below against its sibling (the two must visit the same fields)
            res[nm] = None
            unrec.append(f)
            continue
        body = wl[0]['slots']['body']
        loops = [n for n in walk(body) if n.get('k') == 'CXXForRangeStmt']
        rngs = {show(canon(n['slots']['range'], env, subst=False)): n for n in loops}
        fields_loop = [n for r, n in rngs.items() if 'get_fields' in r or r.endswith('fields)')]
        super_loop = [n for r, n in rngs.items() if 'get_supertypes' in r or 'supertypes' in r]
        facts = {}
        facts['starts at the atom\'s predicate'] = any(canon(n, env, subst=False)[:3] == ('mcall', 'std::queue<ratio::type *>::push', 'q') and 'get_type' in show(canon(n, env, subst=False)) for n in f.nodes()
                                                      if n.get('k') == 'CXXMemberCallExpr' and not any(a is wl[0] for a in f.ancestors(n)))
        facts['visits every supertype'] = len(super_loop) == 1 and any(canon(m, env, subst=False)[:3] == ('mcall', 'std::queue<ratio::type *>::push', 'q') for m in walk(super_loop[0]['slots']['body']) if m.get('k') == 'CXXMemberCallExpr') and \
            not any(m.get('k') in ('IfStmt', 'BreakStmt', 'ContinueStmt') for m in walk(super_loop[0]['slots']['body']))
        facts['pops the queue'] = any(canon(m, env, subst=False)[:3] == ('mcall', 'std::queue<ratio::type *>::pop', 'q') for m in walk(body) if m.get('k') == 'CXXMemberCallExpr')
        filt = None
        cmpc = None
        if len(fields_loop) == 1:
            fl = fields_loop[0]
            b = fl['slots']['var'].get('bindings') or [None, None]
            CMP = ('ratio::item::new_eq', 'ratio::item::equates')
            calls = [canon(m, env, subst=False) for m in walk(fl['slots']['body']) if m.get('k') == 'CXXMemberCallExpr' and (m.get('callee_name') or '') in CMP]
            cmpc = calls[0] if calls else None
            # decided on the atomic decisions of the loop body: the comparison of a field is reached exactly when the field is not synthetic
            # (if (!syn) cmp, if (syn) continue; cmp, if (!syn && !cmp) ... are all the same)
            only_syn = True
            reached_when_not_syn = True
            seen_paths = 0
            for p in enum_paths(fl['slots']['body']):
                seen_paths += 1
                syn = None
                before = []
                reached = False
                for kind, node, pol in p.conds:
                    if any(m.get('k') == 'CXXMemberCallExpr' and (m.get('callee_name') or '') in CMP for m in walk(node)):
                        reached = True
                        break
                    t = canon(node, env, subst=False)
                    if isinstance(t, tuple) and t[0] == 'mcall' and t[1] == 'ratio::field::is_synthetic':
                        syn = pol
                        filt = ('!', t[:2] + ('$field',) + t[3:])       # whatever the loop calls the visited field
                    else:
                        before.append(t)
                if not reached:
                    reached = any((m.get('callee_name') or '') in CMP for st in p.stmts for m in walk(st))
                if reached and (before or syn is not False):
                    only_syn = False
                if syn is False and not reached:
                    reached_when_not_syn = False
            facts['only synthetic fields are skipped'] = bool(seen_paths) and only_syn and reached_when_not_syn and filt is not None
            facts['compares the same field of both atoms'] = cmpc is not None and show(cmpc).count('(mcall env::get') == 2 and show(cmpc).count(' %s)' % b[0]) >= 2 and ' i ' in show(cmpc) + ' '
        else:
            facts['only synthetic fields are skipped'] = False
            facts['compares the same field of both atoms'] = False
        res[nm] = (f, facts, filt)
        for k, v in facts.items():
            ctx.instance(rid, [f.id, k], {'function': f.id, 'fact': k, 'holds': v})
            if not v:
                ctx.finding(rid, f.id, k, 'atom::%s: "%s" does not hold - two atoms could be unified although an argument differs' % (nm, k), loc=f.loc)
        # preliminary cases
        pre = {}
        for p in enum_paths(f.body):
            if p.end == 'return' and len([c for c in p.conds if c[0] == 'if']) <= 3:
                conds = [(show(canon(c[1], env, subst=False)), c[2]) for c in p.conds if c[0] == 'if']
                r = show(canon(p.endnode['c'][0], env, subst=False))
                if conds and conds[-1][1]:
                    pre[conds[-1][0]] = r
        idn = [r for c, r in pre.items() if c.startswith('(== ') and 'this' in c]
        typ = [r for c, r in pre.items() if 'get_name' in c and 'compare' in c]
        okp = idn == [{'new_eq': 'TRUE_lit', 'equates': 'true'}[nm]] and typ == [{'new_eq': 'FALSE_lit', 'equates': 'false'}[nm]]
        ctx.instance(rid, [f.id, 'preliminary'], {'identity': idn, 'different_predicate': typ})
        if not okp:
            ctx.finding(rid, f.id, 'preliminary', 'atom::%s: an atom equals itself; atoms of different predicates never unify (found identity -> %s, different predicate -> %s)' % (nm, idn, typ), loc=f.loc)
    if len(unrec) == 2:
        raise AnalysisBroken('%s / %s: traversal loop not found' % (unrec[0].id, unrec[1].id))
    if len(unrec) == 1:
        g = unrec[0]
        ctx.finding(rid, g.id, 'traversal', 'atom::%s does not visit the predicate and all its super-predicates with a work list as its sibling does: the arguments compared by new_eq and by equates are no '
                    'longer the same set (an argument inherited from an indirect super-predicate is not forced equal / not compared)' % g.name.rsplit('::', 1)[-1], loc=g.loc,
                    expect='q.push(&get_type()); while (!q.empty()) { fields of q.front(); push every supertype; q.pop(); }')
    # which fields are synthetic (and therefore invisible to atom equality): only the `this` / `return` pseudo-variables of constructors and methods
    SYN_OK = {('ratio::constructor::constructor', 'this'), ('ratio::method::method', 'this'), ('ratio::method::method', 'return')}
    nsites = 0
    for g in fs.defined():
        for n in g.nodes():
            if n.get('k') != 'CXXNewExpr' or (n.get('t') or '').replace('class ', '') != 'ratio::field *':
                continue
            ce = [c for c in kids(n) if c.get('k') == 'CXXConstructExpr']
            if not ce or len(ce[0].get('c') or []) < 4:
                raise AnalysisBroken('%s: field construction with an unexpected shape: %s' % (g.id, src(n)))
            args = ce[0]['c']
            syn = canon(args[3], None)
            nm = canon(args[1], None)
            nm = nm[2][1] if isinstance(nm, tuple) and nm[0] == 'new' and len(nm) > 2 and isinstance(nm[2], tuple) and nm[2][0] == 'str' else None
            nsites += 1
            ctx.instance(rid, ['field-construction', g.name, nm or short(n.get('loc'))], {'function': g.id, 'name': nm, 'synthetic': show(syn)})
            if syn != 'false' and (g.name, nm) not in SYN_OK:
                ctx.finding(rid, g.id, 'synthetic:%s' % (nm or 'field'), '%s creates the field %s as synthetic (%s): atom::new_eq / atom::equates skip synthetic fields, so two atoms that differ in it would unify' % (
                    short(g.name), repr(nm) if nm else 'of ' + src(n)[:80], show(syn)), node=n, expect='synthetic only for the this / return pseudo-variables of constructors and methods')
    if nsites < 15:
        raise AnalysisBroken('C03.R5: only %d constructions of ratio::field found (expected >= 15)' % nsites)
    if res['new_eq'] is not None and res['equates'] is not None and res['new_eq'][2] != res['equates'][2]:
        ctx.finding(rid, res['equates'][0].id, 'sibling', 'atom::equates and atom::new_eq filter fields differently (%s vs %s): a unification could be offered whose equality literal ignores an argument' % (
            show(res['equates'][2]), show(res['new_eq'][2])), loc=res['equates'][0].loc)


ACTIONS = {'ratio::graph::activated_flaw': ('phi', 'True'), 'ratio::graph::negated_flaw': ('phi', 'False'),
           'ratio::graph::activated_resolver': ('rho', 'True'), 'ratio::graph::negated_resolver': ('rho', 'False')}


def r6(ctx, fs):
    rid = 'C03.R6'
    ctx.rule(rid, 'solver::propagate: flaws / resolvers are registered under the *variable* of their phi / rho, which may be a negative literal (the two resolvers of a boolean flaw are l and !l): '
                  'each registered object must be treated as activated / negated according to the value of its own literal, never of the shared variable', floor=4)
    for cfgname in (ctx.cfg,):
        f = fs.fn('ratio::solver::propagate')
        env = LocalEnv(f, fs)
        for n in f.nodes():
            nm = n.get('callee_name')
            if nm not in ACTIONS:
                continue
            fld, want_val = ACTIONS[nm]
            arg = canon(n['c'][1], env, subst=False)
            obj = arg
            # nearest enclosing dispatch on a sat value
            disp = None
            for a in f.ancestors(n):
                if a.get('k') == 'SwitchStmt':
                    c = canon(a['slots']['cond'], env, subst=False)
                    if isinstance(c, tuple) and c[0] == 'mcall' and c[1] == 'smt::sat_core::value':
                        labs = arm_of(a, n) or ()
                        names = [l[2] for l in labs if l[0] == 'case']
                        disp = (c[3], names[0] if len(names) == 1 else str(names), a)
                        break
                if a.get('k') == 'IfStmt':
                    c = canon(a['slots']['cond'], env, subst=False)
                    for y in _sub(c):
                        if isinstance(y, tuple) and y[0] == '==' and any(isinstance(z, tuple) and z[:2] == ('mcall', 'smt::sat_core::value') for z in y[1:]):
                            val = [z for z in y[1:] if isinstance(z, str) and z.startswith('smt::')]
                            vt = [z for z in y[1:] if isinstance(z, tuple)][0]
                            pol = any(m is n for m in walk(a['slots']['then']))
                            if val and pol:
                                disp = (vt[3], val[0].rsplit('::', 1)[-1], a)
                    if disp:
                        break
            ctx.instance(rid, [f.id, nm.rsplit('::', 1)[-1]], {'action': nm, 'on': show(obj), 'selected_by_value_of': show(disp[0]) if disp else None, 'case': disp[1] if disp else None})
            if disp is None:
                ctx.finding(rid, f.id, nm.rsplit('::', 1)[-1], 'solver::propagate calls %s without testing the value of the object\'s literal' % nm.rsplit('::', 1)[-1], node=n)
                continue
            want_lit = ('.', obj, fld)
            if disp[0] != want_lit:
                ctx.finding(rid, f.id, nm.rsplit('::', 1)[-1], 'solver::propagate decides %s(%s) from the value of %s instead of the object\'s own literal %s: a resolver / flaw registered with a '
                            'negative literal is handled with the wrong polarity (its flaw is never removed from the agenda: `bool a; bool b; a ^ b;` does not terminate)' % (
                                nm.rsplit('::', 1)[-1], show(obj), show(disp[0]), show(want_lit)), node=disp[2], expect='switch (sat->value(%s))' % show(want_lit))
            elif disp[1] != want_val:
                ctx.finding(rid, f.id, nm.rsplit('::', 1)[-1] + '/case', 'solver::propagate calls %s when %s is %s' % (nm.rsplit('::', 1)[-1], show(want_lit), disp[1]), node=n, expect='case ' + want_val)
        # registration side: new_flaw / new_resolver register under variable(phi) / variable(rho)
        for fn, fld, mp in (('ratio::solver::new_flaw', 'phi', 'phis'), ('ratio::solver::new_resolver', 'rho', 'rhos')):
            g = fs.fn(fn)
            genv = LocalEnv(g, fs)
            genv.param_roles(['x'])
            regs = [canon(n, genv, subst=False) for n in g.nodes() if n.get('k') == 'CXXMemberCallExpr' and (n.get('callee_name') or '').endswith('::push_back')]
            ok = any(isinstance(r[2], tuple) and r[2][0] == '[]' and r[2][1] == ('.', 'ratio::solver::gr', mp) and r[2][2] == ('call', 'smt::variable', ('.', 'x', fld)) for r in regs)
            ctx.instance(rid, [g.id, 'register'], {'registered_under': 'variable(%s)' % fld, 'ok': ok})
            if not ok:
                raise AnalysisBroken('%s: registration under variable(%s) not recognised' % (g.id, fld))


def run(ctx):
    fs = ctx.facts('P')
    r1(ctx, fs)
    r2(ctx, fs)
    r3(ctx, fs)
    r4(ctx, fs)
    r5(ctx, fs)
    r6(ctx, fs)
    # R7: the agenda survives back-tracking (shared with C08.R6): an active flaw is never lost from `flaws`, so solve() cannot stop while an active atom lacks its justification
    from .C08 import agenda_restore, r6 as agenda_log
    ctx.rule('C03.R7', 'solver::propagate logs every change of the agenda in the trail layer and solver::pop replays it unconditionally: every flaw solved at the popped level is open again, '
                       'every flaw created there is removed, one layer is dropped', floor=3)
    agenda_restore(ctx, fs, rid='C03.R7')
