"""C07 - the SAT network only infers what is entailed (DESIGN 4, C07).

R1  watch re-registration: on every path of clause::propagate exactly one watches(.).push_back(this), under the literal the path
    makes the watched one; sat_core::propagate re-registers the unvisited watchers when a constraint conflicts.
R2  learnt clauses are recorded: sat_core::record builds a clause through clause::new_clause (two watches), enqueues its first literal
    with the clause as reason and appends it to constrs; unit no-goods are enqueued at root.
R3  conflict handling of sat_core::propagate: root conflict -> false; otherwise analyze, back-jump, record, continue; theory conflicts
    and check() failures are analysed likewise; next() records the negation of all decisions; check() restores the level.
R4  root simplification table of sat_core::new_clause.
R5  clause::get_reason / simplify / new_clause; enqueue's table.
R6  first-UIP analysis: structural facts (seen-set, level split, asserting literal negated, back-jump level = max of lower levels).
"""
from ..expr import LocalEnv, canon, show
from ..facts import AnalysisBroken, kids, short, src, walk
from ..tables import enum_paths, switch_arms, path_literals, value_of, eq_test
from ..schema import failure_block
from .. import cfg, effects

SC = 'smt::sat_core::'


def r1(ctx, fs):
    rid = 'C07.R1'
    ctx.rule(rid, 'clause::propagate: every entry->return path registers the clause in exactly one watch list: watches(p) again when lits[0] is true or the clause became unit, '
                  'watches(!lits[1]) after moving a non-false literal to position 1; sat_core::propagate puts the remaining watchers back on conflict', floor=5)
    f = fs.fn('smt::clause::propagate')
    env = LocalEnv(f)
    env.param_roles(['p'])
    g = cfg.Graph(f)
    # the clauses below read the search for a new watch as a loop; written with a search algorithm of the standard library (a pure predicate: nothing
    # else declines it) it is not readable here - say so instead of judging
    if not any(n.get('k') in ('ForStmt', 'WhileStmt', 'CXXForRangeStmt', 'DoStmt') for n in f.nodes()):
        alg = [n for n in f.nodes() if n.get('k') == 'CallExpr' and (n.get('callee_name') or '') in ('std::find_if', 'std::find_if_not', 'std::find', 'std::any_of', 'std::partition_point')]
        if alg:
            raise AnalysisBroken('%s: the search for a literal to watch is written with %s and no loop: a form this rule cannot read' % (f.id, alg[0]['callee_name']))

    def is_reg(t):
        if t.get('k') != 'CXXMemberCallExpr' or not (t.get('callee_name') or '').endswith('::push_back'):
            return False
        c = canon(t, env, subst=False)
        return isinstance(c[2], tuple) and c[2][:2] == ('mcall', 'smt::constr::watches') and c[3] == 'this'
    ev = g.events(is_reg)
    rets = cfg.returns(g)
    if not rets:
        raise AnalysisBroken('%s: no return found in the CFG' % f.id)
    for r in sorted(rets):
        cnt = g.count(ev, ends={r})
        rt = canon(g.tree(r), env, subst=False)
        ctx.instance(rid, [f.id, show(rt)], {'return': show(rt), 'site': short(g.tree(r).get('loc')), 'registrations_on_paths_to_it (min,max)': cnt})
        if cnt != (1, 1):
            ctx.finding(rid, f.id, 'count:' + show(rt), 'clause::propagate: paths to `%s` register the clause %s time(s) in a watch list; a clause that loses its watch is never examined again, one watched twice is propagated with a stale view' % (
                src(g.tree(r)), 'between %s and %s' % cnt if cnt else 'an unknown number of'), node=g.tree(r), expect='exactly one watches(..).push_back(this) on every path')
    # which list: per registration site, the watched literal
    sites = {}
    for n in ev:
        t = g.tree(n)
        c = canon(t, env, subst=False)
        sites[short(t.get('loc'))] = c[2][3]
    L0, L1 = ('[]', 'smt::clause::lits', ('num', 0)), ('[]', 'smt::clause::lits', ('num', 1))
    # structural expectations by enclosing construct
    for n in ev:
        t = g.tree(n)
        c = canon(t, env, subst=False)
        lit_t = c[2][3]
        in_loop = any(a.get('k') in ('ForStmt', 'WhileStmt') for a in f.ancestors(t))
        want = ('!', L1) if in_loop else 'p'
        disc = 'list:' + ('new-watch' if in_loop else ('satisfied' if any(a.get('k') == 'IfStmt' for a in f.ancestors(t)) else 'unit'))
        ctx.instance(rid, [f.id, disc], {'registration': src(t), 'list_of': show(lit_t), 'expected': show(want)})
        if lit_t != want:
            ctx.finding(rid, f.id, disc, 'clause::propagate registers the clause under %s; on this path the literal to watch is %s' % (show(lit_t), show(want)), node=t, expect='watches(%s)' % show(want))
    # the swap that precedes the new watch: lits[1] <-> lits[i] with value(lits[i]) != False
    ok = False
    for n in f.nodes():
        if n.get('k') == 'ForStmt':
            for m in walk(n['slots']['body']):
                if m.get('k') == 'IfStmt':
                    c = canon(m['slots']['cond'], env, subst=False)
                    iv = n['slots']['init']['c'][0]['name'] if n['slots'].get('init') and n['slots']['init'].get('k') == 'DeclStmt' else None
                    want_c = ('!=', ) + tuple(sorted((('mcall', 'smt::constr::value', 'this', ('[]', 'smt::clause::lits', iv)), 'smt::False'), key=repr))
                    sw = [canon(x, env, subst=False) for x in walk(m['slots']['then']) if x.get('callee_name') == 'std::swap']
                    init_ok = canon(n['slots']['init']['c'][0]['init'], env, subst=False) == ('num', 1)
                    cond_ok = canon(n['slots']['cond'], env, subst=False) == ('<', iv, ('mcall', 'std::vector<smt::lit>::size', 'smt::clause::lits'))
                    if c == want_c and sw and init_ok and cond_ok:
                        ok = True
    ctx.instance(rid, [f.id, 'search'], {'searches_all_other_literals_for_a_non_false_one': ok})
    if not ok:
        ctx.finding(rid, f.id, 'search', 'clause::propagate must look at every literal from position 1 on for one that is not False before declaring the clause unit', loc=f.loc,
                    expect='for (i = 1; i < lits.size(); ++i) if (value(lits[i]) != False) { swap(lits[1], lits[i]); ... }')
    # sat_core::propagate: remaining watchers re-registered
    f = fs.fn(SC + 'propagate')
    env = LocalEnv(f)
    env.local_role('p', lambda n, i: n.get('t') == 'smt::lit')        # the literal taken from the propagation queue
    ok = False
    for n in f.nodes():
        if n.get('callee_name') == 'smt::constr::propagate':
            c1 = canon(n, env, subst=False)
            fb = failure_block(f, n)
            if fb is None:
                continue
            blk = fb[0]
            if True:
                iv = c1[2][2] if isinstance(c1[2], tuple) and c1[2][0] == '[]' else None
                tmp = c1[2][1] if iv is not None else None
                for m in walk(blk):
                    if m.get('k') == 'ForStmt':
                        d = m['slots']['init']['c'][0] if m['slots'].get('init') and m['slots']['init'].get('k') == 'DeclStmt' else None
                        if d is None:
                            continue
                        jv = d['name']
                        init = canon(d['init'], env, subst=False)
                        cond = canon(m['slots']['cond'], env, subst=False)
                        body = [canon(x, env, subst=False) for x in walk(m['slots']['body']) if x.get('k') == 'CXXMemberCallExpr' and (x.get('callee_name') or '').endswith('::push_back')]
                        want_b = ('mcall', 'std::vector<smt::constr *>::push_back', ('[]', SC + 'watches', ('call', 'smt::index', 'p')), ('[]', tmp, jv))
                        if init == ('+', iv, ('num', 1)) and cond == ('<', jv, ('mcall', 'std::vector<smt::constr *>::size', tmp)) and body == [want_b]:
                            ok = True
    ctx.instance(rid, [f.id, 'requeue'], {'remaining_watchers_put_back_on_conflict': ok})
    if not ok:
        ctx.finding(rid, f.id, 'requeue', 'sat_core::propagate: when a constraint conflicts, the watchers not yet visited (j > i) must be put back into watches[index(p)]', loc=f.loc)


def r2(ctx, fs):
    rid = 'C07.R2'
    ctx.rule(rid, 'sat_core::record: size 1 -> enqueue(lits[0]); else c = clause::new_clause(*this, lits), enqueue(first literal, c), constrs.push_back(c); '
                  'clause::new_clause watches !lits[0] and !lits[1] of the new clause', floor=5)
    f = fs.fn(SC + 'record')
    env = LocalEnv(f)
    env.param_roles(['lits'])
    got = {}
    for p in enum_paths(f.body):
        conds = [(canon(c[1], env, subst=False), c[2]) for c in p.conds if c[0] == 'if']
        key = None
        for ct, pol in conds:
            if ct == ('==', ('mcall', 'std::vector<smt::lit>::size', 'lits'), ('num', 1)):
                key = 'unit' if pol else 'clause'
        got[key] = [canon(s, env) for s in p.live(env)]
    unit = got.get('unit') or []
    ok_unit = any(_has(t, ('mcall', SC + 'enqueue', 'this', ('[]', 'lits', ('num', 0)), 'nullptr')) for t in unit)
    ctx.instance(rid, [f.id, 'unit'], {'unit_no_good_enqueued': ok_unit})
    if not ok_unit:
        ctx.finding(rid, f.id, 'unit', 'sat_core::record: a unit no-good must be enqueued', loc=f.loc)
    cl = got.get('clause') or []
    env2 = LocalEnv(f)
    env2.param_roles(['lits'])
    c_d = env2.local_role('c', lambda n, i: isinstance(i, tuple) and i[0] == 'call' and i[1] == 'smt::clause::new_clause', optional=True)
    l0_d = env2.local_role('l0', lambda n, i: i == ('[]', 'lits', ('num', 0)), optional=True)
    effs = [canon(s, env2, subst=False) for s in walk(f.body) if s.get('k') in ('CXXMemberCallExpr', 'CallExpr') and not s.get('as')]
    # the second watch of a learnt clause must be (one of) its highest-level false literal(s): sorted by DESCENDING level from position 1 on, before the
    # vector is handed to clause::new_clause (the generic lambda's parameters are dependent: the comparison is read as names)
    desc = False
    for n in f.nodes():
        if n.get('callee_name') == 'std::sort' and not n.get('as'):
            lam = [m for m in walk(n) if m.get('k') == 'LambdaExpr']
            if lam and len(lam[0].get('params') or ()) == 2:
                pa, pb = lam[0]['params'][0].get('name'), lam[0]['params'][1].get('name')
                rets = [m for m in walk(lam[0]) if m.get('k') == 'ReturnStmt' and m.get('c')]
                if len(rets) == 1:
                    t = show(canon(rets[0]['c'][0], None))
                    lv = lambda x: '([] sat_core::level'
                    # canonical `<`: level[b] < level[a]  (i.e. a before b when a is deeper)
                    ia, ib = t.find(' %s)' % pa), t.find(' %s)' % pb)
                    desc = t.startswith('(< ') and t.count('sat_core::level') == 2 and 0 <= ib < ia
                    first_arg = show(canon(n['c'][1], env2, subst=False)) if len(n.get('c') or ()) > 1 else ''
                    desc = desc and 'next' in first_arg
    facts = {
        'literals from position 1 on sorted by descending decision level (second watch = deepest false literal)': desc,
        'clause created through clause::new_clause': c_d is not None,
        'first literal saved before the vector is moved': l0_d is not None,
        'asserting literal enqueued with the clause as reason': ('mcall', SC + 'enqueue', 'this', 'l0', 'c') in effs,
        'clause appended to constrs': ('mcall', 'std::vector<smt::constr *>::push_back', SC + 'constrs', 'c') in effs,
    }
    for k, v in facts.items():
        ctx.instance(rid, [f.id, k], {'fact': k, 'holds': v})
        if not v:
            ctx.finding(rid, f.id, k, 'sat_core::record: "%s" does not hold - the learnt clause is lost or does not justify its propagation' % k, loc=f.loc)
    f = fs.fn('smt::clause::new_clause')
    env = LocalEnv(f)
    env.param_roles(['s', 'lits'])
    cl_d = env.local_role('c', lambda n, i: n.get('t') == 'smt::clause *')
    env.local_role('l0', lambda n, i: i == ('[]', 'lits', ('num', 0)))
    env.local_role('l1', lambda n, i: i == ('[]', 'lits', ('num', 1)))
    effs = [canon(s, env, subst=False) for s in walk(f.body) if s.get('k') == 'CXXMemberCallExpr']
    w = lambda l: ('mcall', 'std::vector<smt::constr *>::push_back', ('mcall', 'smt::constr::watches', 'c', ('!', l)), 'c')
    ok = w('l0') in effs and w('l1') in effs and len([e for e in effs if e[1].endswith('::push_back')]) == 2
    ctx.instance(rid, [f.id, 'watches'], {'two_watches_on_negations_of_first_two_literals': ok})
    if not ok:
        ctx.finding(rid, f.id, 'watches', 'clause::new_clause must watch the negations of its first two literals, once each', loc=f.loc)


def _has(t, sub):
    if t == sub:
        return True
    return isinstance(t, tuple) and any(_has(x, sub) for x in t)


def r3(ctx, fs):
    rid = 'C07.R3'
    ctx.rule(rid, 'sat_core::propagate: each of the three conflict sites (clause, theory propagate, theory check) returns false at root level and otherwise analyses, '
                  'back-jumps and records before resuming; the queue is emptied; next(): no-good = negation of every decision, recorded after exactly one pop; '
                  'check(): every exit restores the entry decision level', floor=7)
    f = fs.fn(SC + 'propagate')
    env = LocalEnv(f)
    sites = []
    for n in f.nodes():
        if n.get('callee_name') in ('smt::constr::propagate', 'smt::theory::propagate', 'smt::theory::check'):
            fb = failure_block(f, n)            # what runs when the call reports a conflict, however the test is spelled
            if fb is not None:
                sites.append((n.get('callee_name'), fb[1], fb[0]))
    if len(sites) != 3:
        raise AnalysisBroken('%s: expected three conflict sites, found %d' % (f.id, len(sites)))
    for name, n, then in sites:
        calls = [x.get('callee_name') for x in walk(then) if x.get('callee_name')]
        root_ret = False
        for m in walk(then):
            if m.get('k') == 'IfStmt' and canon(m['slots']['cond'], env, subst=False) == ('mcall', SC + 'root_level', 'this'):
                rets = [canon(r['c'][0], env) for r in walk(m['slots']['then']) if r.get('k') == 'ReturnStmt']
                root_ret = rets == ['false']
        gotos = [x for x in walk(then) if x.get('k') == 'GotoStmt']
        short_name = name.rsplit('::', 2)[-2] + '::' + name.rsplit('::', 1)[-1]
        if name == 'smt::constr::propagate':
            learn = SC + 'analyze' in calls and SC + 'record' in calls and SC + 'pop' in calls
            # back-jump loop: while (decision_level() > bt_level) pop();
            bj = any(m.get('k') == 'WhileStmt' and isinstance(canon(m['slots']['cond'], env, subst=False), tuple) and canon(m['slots']['cond'], env, subst=False)[0] == '<' and
                     canon(m['slots']['cond'], env, subst=False)[2] == ('mcall', SC + 'decision_level', 'this') for m in walk(then))
            order_ok = _order(then, [SC + 'analyze', SC + 'pop', SC + 'record'])
            learn = learn and bj and order_ok
        else:
            learn = 'smt::theory::analyze_and_backjump' in calls
        ctx.instance(rid, [f.id, short_name], {'site': short_name, 'root_conflict_returns_false': root_ret, 'learns_and_backjumps': learn, 'resumes': len(gotos) == 1})
        if not root_ret:
            ctx.finding(rid, f.id, short_name + '/root', 'sat_core::propagate: a conflict of %s at root level must make propagate() return false' % short_name, node=n, expect='if (root_level()) return false;')
        if not learn or len(gotos) != 1:
            ctx.finding(rid, f.id, short_name + '/learn', 'sat_core::propagate: a conflict of %s below root level must be analysed, back-jumped and its no-good recorded before propagation resumes' % short_name, node=n)
        if name != 'smt::theory::check':
            clears = any(m.get('k') == 'WhileStmt' and canon(m['slots']['cond'], env, subst=False) == ('!', ('mcall', 'std::queue<smt::lit>::empty', SC + 'prop_q')) for m in walk(then))
            if not clears:
                ctx.finding(rid, f.id, short_name + '/queue', 'sat_core::propagate: the propagation queue must be emptied when %s conflicts (stale literals of undone levels)' % short_name, node=n)
    # final `return true` only after all theories checked: every path to `return true` passes the check loop
    g = cfg.Graph(f)
    chk = g.events(lambda t: t.get('k') == 'CXXForRangeStmt' and canon(t['slots']['range'], env, subst=False) == SC + 'theories')
    rt = cfg.returns(g, True)
    okc = bool(rt) and all(g.must_pass(chk, end=r) for r in rt)
    ctx.instance(rid, [f.id, 'check-before-true'], {'every_true_return_after_theory_check': okc})
    if not okc:
        ctx.finding(rid, f.id, 'check-before-true', 'sat_core::propagate can return true without having called check() of the theories', loc=f.loc)
    # theories checked in an unfiltered loop
    okl = False
    for n in f.nodes():
        if n.get('k') == 'CXXForRangeStmt' and canon(n['slots']['range'], env, subst=False) == SC + 'theories':
            if any(x.get('callee_name') == 'smt::theory::check' for x in walk(n['slots']['body'])):
                okl = True
    if not okl:
        ctx.finding(rid, f.id, 'check-all', 'sat_core::propagate must check every theory', loc=f.loc)
    # next()
    f = fs.fn(SC + 'next')
    env = LocalEnv(f)
    from ..tables import VecBuilder, fmt_items
    vb = VecBuilder(f, env)
    ng = env.local_role('no_good', lambda n, i: n.get('t') == 'std::vector<smt::lit>')
    its = vb.items.get(ng)
    ok = its is not None and not vb.unrec.get(ng) and len(its) == 1 and its[0][0] == 'ctx' and len(its[0][1]) == 1 and its[0][1][0][0] == 'each' and its[0][1][0][1] == SC + 'decisions' and its[0][2] == ('!', its[0][1][0][2])
    ctx.instance(rid, [f.id, 'no-good'], {'no_good': fmt_items(its)})
    if not ok:
        ctx.finding(rid, f.id, 'no-good', 'sat_core::next: the chronological no-good must be the negation of every standing decision (found %s)' % fmt_items(its), loc=f.loc)
    g = cfg.Graph(f)
    pops = g.events(lambda t: t.get('callee_name') == SC + 'pop')
    recs = g.events(lambda t: t.get('callee_name') == SC + 'record')
    props = g.events(lambda t: t.get('callee_name') == SC + 'propagate')
    rets = cfg.returns(g)
    root_guard = any(n.get('k') == 'IfStmt' and canon(n['slots']['cond'], env, subst=False) == ('mcall', SC + 'root_level', 'this') and
                     [canon(r['c'][0], env) for r in walk(n['slots']['then']) if r.get('k') == 'ReturnStmt'] == ['false'] for n in f.nodes())
    cnt = g.count(pops, start=sorted(recs)[0] if False else None) if pops else None
    path_ok = bool(recs) and g.always_before(pops, recs) and g.always_before(recs, props) and g.count(pops, ends=recs) == (1, 1)
    ctx.instance(rid, [f.id, 'order'], {'root_guard': root_guard, 'one_pop_then_record_then_propagate': path_ok})
    if not root_guard or not path_ok:
        ctx.finding(rid, f.id, 'order', 'sat_core::next must fail at root level, otherwise undo exactly one level, record the no-good and propagate', loc=f.loc)
    # check()
    f = fs.fn(SC + 'check')
    env = LocalEnv(f)
    env.param_roles(['lits'])
    env.local_role('c_rl', lambda n, i: i == ('mcall', SC + 'decision_level', 'this') and n.get('t', '').startswith('const'))
    restore = 0
    rets = 0
    for n in f.nodes():
        if n.get('k') == 'ReturnStmt':
            rets += 1
            par = f.parent(n)
            sib = par.get('c') or []
            idx = [i for i, x in enumerate(sib) if x is n][0]
            prev = sib[idx - 1] if idx > 0 else None
            if prev is not None and prev.get('k') == 'WhileStmt' and canon(prev['slots']['cond'], env, subst=False) == ('<', 'c_rl', ('mcall', SC + 'decision_level', 'this')) and \
                    any(x.get('callee_name') == SC + 'pop' for x in walk(prev['slots']['body'])):
                restore += 1
    ctx.instance(rid, [f.id, 'restore'], {'returns': rets, 'returns_preceded_by_level_restore': restore})
    if rets == 0 or restore != rets:
        ctx.finding(rid, f.id, 'restore', 'sat_core::check: every return must be preceded by `while (decision_level() > c_rl) pop();` so that the assumptions leave no trace', loc=f.loc)


def _order(root, names):
    pos = []
    for nm in names:
        ps = [_p(x) for x in walk(root) if x.get('callee_name') == nm]
        if not ps:
            return False
        pos.append(min(ps))
    return pos == sorted(pos)


def _p(n):
    p = n['loc'].rsplit(':', 2)
    return (int(p[1]), int(p[2]))


def r4(ctx, fs):
    rid = 'C07.R4'
    ctx.rule(rid, 'sat_core::new_clause root simplification: True literal or complementary pair -> true (clause satisfied); False / duplicate literals dropped; '
                  'empty -> false; unit -> enqueue; otherwise clause::new_clause appended to constrs and true', floor=4)
    f = fs.fn(SC + 'new_clause')
    env = LocalEnv(f)
    env.param_roles(['lits'])
    env.local_role('p', lambda n, i: n.get('t') == 'smt::lit' and not n.get('synthetic') and isinstance(n.get('init'), dict) and (i is None or (isinstance(i, tuple) and i[0] in ('lit', 'new') and all(isinstance(x, tuple) and x[0] == 'num' for x in i[1:] if not isinstance(x, str)) and not any(isinstance(x, str) and x not in ('smt::lit',) for x in i[1:]))))     # default-constructed: the previous literal kept across iterations       # the previous literal kept across iterations, not a copy of the current one
    loop = [n for n in f.nodes() if n.get('k') == 'CXXForRangeStmt' and canon(n['slots']['range'], env, subst=False) == 'lits']     # any loop over all literals is normalised to this form
    if len(loop) != 1:
        raise AnalysisBroken('%s: filtering loop not found' % f.id)
    it = loop[0]['slots']['var']['name']
    cur = it
    VAL = lambda: ('mcall', SC + 'value', 'this', cur)
    got = {}
    for p in enum_paths(loop[0]['slots']['body']):
        conds = tuple((canon(c[1], env, subst=False), c[2]) for c in p.conds if c[0] == 'if')
        got[conds] = ([show(canon(s, env, subst=False)) for s in p.live(env)], p.end)
    # the loop body as a decision function of four atomic tests on the current literal (any nesting / order / negation of the tests is the same function):
    # T: value == True, C: literal == !p (complement of the previous one), F: value == False, D: literal == p (duplicate)
    def atom(t, pol):
        if isinstance(t, tuple) and t[0] in ('==', '!=') and len(t) == 3:
            eq = (t[0] == '==') == pol
            ops = set(t[1:])
            if ops == {VAL(), 'smt::True'}:
                return ('T', eq)
            if ops == {VAL(), 'smt::False'}:
                return ('F', eq)
            if ops == {cur, ('!', 'p')}:
                return ('C', eq)
            if ops == {cur, 'p'}:
                return ('D', eq)
        return None
    import itertools
    ok = True
    cells = {}
    for conds, (stmts, end) in got.items():
        part = {}
        for t, pol in conds:
            a = atom(t, pol)
            if a is None:
                ok = False
                continue
            part[a[0]] = a[1]
        outcome = 'sat' if (end == 'return' and stmts == [show(('ReturnStmt', 'true'))]) else ('drop' if (end == 'fall' and not stmts) else ('keep' if end == 'fall' and len(stmts) == 2 else '?'))
        for vals in itertools.product((False, True), repeat=4):
            asg = dict(zip('TCFD', vals))
            if any(asg[k] != v for k, v in part.items()):
                continue
            if asg['T'] and asg['F']:
                continue        # a literal is not True and False at once
            want = 'sat' if (asg['T'] or asg['C']) else ('keep' if not asg['F'] and not asg['D'] else 'drop')
            cells[vals] = (want, outcome)
            if want != outcome:
                ok = False
    ok = ok and len(cells) == 12
    if not ok:
        ctx.finding(rid, f.id, 'filter', 'sat_core::new_clause: the filtering loop must return true on a True literal or a complementary pair, keep a literal iff it is neither False nor a duplicate, and drop the others; found %s' % (
            {show(k): v for k, v in got.items()}), node=loop[0])
    ctx.instance(rid, [f.id, 'filter'], {'cells': {''.join(k for k, v in zip('TCFD', vals) if v) or '-': c for vals, c in sorted(cells.items())}})
    # what happens with the literals that are left: 0 -> false, 1 -> enqueue it, 2+ -> a watched clause stored in constrs, true.  Any way of branching
    # on the size (switch, if chain, early returns) is evaluated for n = 0, 1, 2.
    body = list(kids(f.body))
    after = body[[i for i, x in enumerate(body) if x is loop[0] or any(y is loop[0] for y in walk(x))][0] + 1:]
    SIZE = ('mcall', 'std::vector<smt::lit>::size', 'lits')
    EMPTY = ('mcall', 'std::vector<smt::lit>::empty', 'lits')

    def holds(c, n):
        if c[0] == 'switch':
            if canon(c[1], env, subst=False) != SIZE:
                return None
            labs = c[2]
            if any(l[0] == 'nomatch' for l in labs):
                return None
            vals = [l[1] for l in labs if l[0] == 'case']
            if n in vals:
                return True
            if any(l[0] == 'default' for l in labs):
                # the default group is taken iff no case of the whole switch matches: the other cases are listed by the sibling paths; conservatively accept for n >= 2
                return n >= 2
            return False
        t, pol = canon(c[1], env, subst=False), c[2]
        if t == EMPTY:
            return (n == 0) == pol
        if isinstance(t, tuple) and len(t) == 3 and t[0] in ('==', '!=', '<', '<=') and SIZE in t[1:]:
            k = [x for x in t[1:] if x != SIZE]
            if len(k) == 1 and isinstance(k[0], tuple) and k[0][0] == 'num':
                kv = k[0][1]
                v = {'==': n == kv, '!=': n != kv, '<': (n < kv) if t[1] == SIZE else (kv < n), '<=': (n <= kv) if t[1] == SIZE else (kv <= n)}[t[0]]
                return v == pol
        return None
    from ..tables import Path
    taken = {}
    for p in enum_paths({'k': 'CompoundStmt', 'c': after}):
        for n in (0, 1, 2):
            hs = [holds(c, n) for c in p.conds]
            if None in hs:
                raise AnalysisBroken('%s: the statements after the filtering loop branch on something else than the number of literals left' % f.id)
            if all(hs):
                taken.setdefault(n, []).append(p)
    want = {0: [('ReturnStmt', 'false')], 1: [('ReturnStmt', ('mcall', SC + 'enqueue', 'this', ('[]', 'lits', ('num', 0)), 'nullptr'))],
            2: [('mcall', 'std::vector<smt::constr *>::push_back', SC + 'constrs', ('call', 'smt::clause::new_clause', 'this', 'lits')), ('ReturnStmt', 'true')]}
    for n in (0, 1, 2):
        ps = taken.get(n, [])
        gotc = [[canon(st, env, subst=False) for st in p.live(env) if st.get('k') not in ('BreakStmt',)] for p in ps]
        ctx.instance(rid, [f.id, 'size%s' % n], {'literals_left': n if n < 2 else '2 or more', 'does': [[show(x) for x in g] for g in gotc]})
        shrink = lambda g: [x for x in g if not (isinstance(x, tuple) and x[0] == 'mcall' and x[1] == 'std::vector<smt::lit>::resize' and x[2] == 'lits')]
        if len(ps) != 1 or shrink(gotc[0]) != want[n] or len(shrink(gotc[0])) != len(gotc[0]) - 1:
            ctx.finding(rid, f.id, 'size%s' % n, 'sat_core::new_clause with %s literal(s) left must %s (found %s)' % (n if n < 2 else 'two or more', {0: 'fail', 1: 'enqueue the literal', 2: 'store clause::new_clause(*this, lits) in constrs and succeed'}[n],
                        [[show(x) for x in g] for g in gotc]), node=loop[0])


def r5(ctx, fs):
    rid = 'C07.R5'
    ctx.rule(rid, 'clause::get_reason(p): negation of every literal (all of them for the undefined literal, all but lits[0] otherwise); clause::simplify: true on a True literal, keeps exactly the Undefined ones; '
                  'enqueue: an assigned literal returns its value, an unassigned one sets assigns/level/reason, extends the trail and the queue', floor=8)
    f = fs.fn('smt::clause::get_reason')
    env = LocalEnv(f)
    env.param_roles(['p', 'out_reason'])
    loops = [n for n in f.nodes() if n.get('k') == 'ForStmt']
    ok = False
    if len(loops) == 1:
        sl = loops[0]['slots']
        d = sl['init']['c'][0]
        iv = d['name']
        init = canon(d['init'], env, subst=False)
        cond = canon(sl['cond'], env, subst=False)
        body = [canon(x, env, subst=False) for x in walk(sl['body']) if x.get('k') == 'CXXMemberCallExpr' and not x.get('as')]
        ok = init == ('?:', ('call', 'smt::is_undefined', 'p'), ('num', 0), ('num', 1)) and cond == ('<', iv, ('mcall', 'std::vector<smt::lit>::size', 'smt::clause::lits')) and \
            body == [('mcall', 'std::vector<smt::lit>::push_back', 'out_reason', ('!', ('[]', 'smt::clause::lits', iv)))] and \
            not any(x.get('k') in ('IfStmt', 'ContinueStmt', 'BreakStmt') and not x.get('as') for x in walk(sl['body']))
    ctx.instance(rid, [f.id, 'reason'], {'negation_of_all_other_literals': ok})
    if not ok:
        ctx.finding(rid, f.id, 'reason', 'clause::get_reason must return the negation of every literal of the clause except the propagated one', loc=f.loc)
    f = fs.fn('smt::clause::simplify')
    env = LocalEnv(f)
    # decided on the paths of the body of the loop over lits, whatever spells the three-way test on the value of the visited literal (switch, if chain, early
    # continue): True -> return true; Undefined -> the literal is kept (one store into lits); False -> nothing
    LITS = 'smt::clause::lits'
    loops = [n for n in f.nodes() if n.get('k') in ('ForStmt', 'CXXForRangeStmt', 'WhileStmt') and not any(a.get('k') in ('ForStmt', 'CXXForRangeStmt', 'WhileStmt') for a in f.ancestors(n))]
    ok = len(loops) == 1
    cells = {}
    if ok:
        lp = loops[0]
        if lp['k'] == 'CXXForRangeStmt':
            elem = lp['slots']['var'].get('name')
            ok = canon(lp['slots']['range'], env, subst=False) == LITS
            is_elem = lambda t: t == elem
        else:
            is_elem = lambda t: isinstance(t, tuple) and len(t) == 3 and t[0] == '[]' and t[1] == LITS
        cn = lambda n: canon(n, env, subst=False)

        def is_val(t):
            return isinstance(t, tuple) and t[0] == 'mcall' and t[1].endswith('::value') and is_elem(t[-1])

        def is_keep(st):
            t = cn(st)
            return isinstance(t, tuple) and len(t) == 3 and t[0] == '=' and isinstance(t[1], tuple) and t[1][0] == '[]' and t[1][1] == LITS and is_elem(t[2])
        for p in enum_paths(lp['slots']['body']):
            L = path_literals(p, cn)
            if L is None:
                continue
            es = set()
            for c in L:
                ek = eq_test(c[1]) if c[0] == 'if' else None
                if ek is None or not is_val(ek[0]):
                    ok = False
                else:
                    es.add(ek[0])
            if len(es) != 1:
                ok = False
                continue
            v = value_of(L, next(iter(es)))
            live = p.live(env)
            if v == 'True':
                good = p.end == 'return' and len(live) == 1 and cn(live[0]) == ('ReturnStmt', 'true')
            elif v == 'Undefined':
                good = p.end in ('fall', 'continue') and len(live) == 1 and is_keep(live[0])
            elif v == 'False':
                good = p.end in ('fall', 'continue') and not live
            else:
                good = False
            cells[v] = cells.get(v, True) and good
            ok = ok and good
        ok = ok and cells.get('True') and cells.get('Undefined')
    rets = [canon(n['c'][0], env) for n in f.nodes() if n.get('k') == 'ReturnStmt']
    ctx.instance(rid, [f.id, 'simplify'], {'table_ok': ok, 'returns': [show(r) for r in rets]})
    if not ok or sorted(map(repr, rets)) != sorted(map(repr, ['true', 'false'])):
        ctx.finding(rid, f.id, 'simplify', 'clause::simplify must report a satisfied clause (true) and otherwise keep exactly the undefined literals', loc=f.loc)
    f = fs.fn(SC + 'enqueue')
    env = LocalEnv(f)
    env.param_roles(['p', 'c'])
    V = ('call', 'smt::variable', 'p')
    effs = [canon(s, env, subst=False) for s in walk(f.body) if s.get('k') in ('BinaryOperator', 'CXXOperatorCallExpr', 'CXXMemberCallExpr')]
    facts = {
        'value = sign of the literal': ('=', ('[]', SC + 'assigns', V), ('call', 'smt::sign', 'p')) in effs,
        'level = current decision level': ('=', ('[]', SC + 'level', V), ('mcall', SC + 'decision_level', 'this')) in effs,
        'reason = the propagating constraint': ('=', ('[]', SC + 'reason', V), 'c') in effs,
        'literal appended to the trail': ('mcall', 'std::vector<smt::lit>::push_back', SC + 'trail', 'p') in effs,
        'literal queued for propagation': ('mcall', 'std::queue<smt::lit>::push', SC + 'prop_q', 'p') in effs,
    }
    for k, v in facts.items():
        ctx.instance(rid, [f.id, k], {'fact': k, 'holds': v})
        if not v:
            ctx.finding(rid, f.id, k, 'sat_core::enqueue: "%s" does not hold' % k, loc=f.loc)
    first = [n for n in f.nodes() if n.get('k') == 'IfStmt'][0]
    VAL = ('mcall', SC + 'value', 'this', 'p')
    okv = canon(first['slots']['cond'], env, subst=False) == ('!=', ) + tuple(sorted((VAL, 'smt::Undefined'), key=repr)) and \
        [canon(r['c'][0], env, subst=False) for r in walk(first['slots']['then']) if r.get('k') == 'ReturnStmt'] == [VAL]
    ctx.instance(rid, [f.id, 'assigned'], {'assigned_literal_returns_its_value': okv})
    if not okv:
        ctx.finding(rid, f.id, 'assigned', 'sat_core::enqueue of an already assigned literal must return whether it is true (conflict detection)', loc=f.loc)


def r6(ctx, fs):
    rid = 'C07.R6'
    ctx.rule(rid, 'sat_core::analyze: each variable visited once (seen set); literals of the current level counted, literals of lower non-root levels added negated and raise the '
                  'back-jump level to their maximum; trail unwound until a seen variable; the asserting literal out_learnt[0] = !p', floor=6)
    f = fs.fn(SC + 'analyze')
    env = LocalEnv(f)
    env.param_roles(['cnfl', 'out_learnt', 'out_btlevel'])
    env.local_role('seen', lambda n, i: 'std::set<' in (n.get('t') or ''))
    env.local_role('counter', lambda n, i: n.get('t') == 'int')
    env.local_role('p', lambda n, i: n.get('t') == 'smt::lit')
    loops = [n for n in f.nodes() if n.get('k') == 'CXXForRangeStmt']
    if len(loops) != 1:
        raise AnalysisBroken('%s: reason loop not found' % f.id)
    q = loops[0]['slots']['var'].get('name')
    LQ = ('[]', SC + 'level', ('call', 'smt::variable', q))
    got = {}
    for p in enum_paths(loops[0]['slots']['body']):
        conds = tuple((canon(c[1], env, subst=False), c[2]) for c in p.conds if c[0] == 'if')
        got[conds] = sorted(show(canon(s, env, subst=False)).replace('(++ counter)', '(post++ counter)') for s in p.live(env))       # `++counter;` and `counter++;` are one statement
    first = ('.', ('mcall', 'std::set<unsigned long>::insert', 'seen', ('call', 'smt::variable', q)), 'second')
    cur = ('==', ) + tuple(sorted((LQ, ('mcall', SC + 'decision_level', 'this')), key=repr))
    low = ('<', ('num', 0), LQ)
    want = {
        ((first, False),): [],
        ((first, True), (cur, True)): [show(('post++', 'counter'))],
        ((first, True), (cur, False), (low, True)): sorted([show(('mcall', 'std::vector<smt::lit>::push_back', 'out_learnt', ('!', q))),
                                                            show(('=', 'out_btlevel', ('call', 'std::max', 'out_btlevel', LQ)))]),
        ((first, True), (cur, False), (low, False)): [],
    }
    ctx.instance(rid, [f.id, 'classify'], {'cells': {show(k): v for k, v in got.items()}})
    if got != want:
        ctx.finding(rid, f.id, 'classify', 'sat_core::analyze: reason literals must be classified once each: current level -> counter++, lower level > 0 -> negated into the no-good and max into the back-jump level, level 0 ignored; found %s' % (
            {show(k): v for k, v in got.items()}), node=loops[0])
    effs = [canon(s, env, subst=False) for s in walk(f.body) if s.get('k') in ('BinaryOperator', 'CXXOperatorCallExpr', 'UnaryOperator', 'CXXMemberCallExpr') and not s.get('as')]
    facts = {
        'asserting literal is the negated UIP': ('=', ('[]', 'out_learnt', ('num', 0)), ('!', 'p')) in effs,
        'back-jump level starts at 0': ('=', 'out_btlevel', ('num', 0)) in effs,
        'counter decremented per resolved literal': ('post--', 'counter') in effs or ('--', 'counter') in effs,
        'trail unwound with pop_one': ('mcall', SC + 'pop_one', 'this') in effs,
        'candidate taken from the end of the trail': ('=', 'p', ('mcall', 'std::vector<smt::lit>::back', SC + 'trail')) in effs,
    }
    # the two loops, by the condition under which they go round again - whatever spells them (`do .. while (c)`, `while (true) { ..; if (!c) break; }`,
    # `for (;;)`), the decrement of the counter inside the test or before it
    from ..tables import norm_literal

    def strip_dec(t):
        if isinstance(t, tuple) and len(t) == 2 and t[0] in ('--', 'post--'):
            decs.append(t[1])
            return t[1]
        if isinstance(t, tuple):
            return tuple(strip_dec(x) for x in t)
        return t
    decs = []
    conts = []
    for n in f.nodes():
        k = n.get('k')
        if k not in ('DoStmt', 'WhileStmt', 'ForStmt'):
            continue
        c = (n.get('slots') or {}).get('cond')
        forever = c is None or (c.get('k') == 'CXXBoolLiteralExpr' and c.get('val'))
        if not forever:
            conts.append(norm_literal(strip_dec(canon(c, env, subst=False)), True))
            continue
        body = n['slots'].get('body') or {}
        sts = [x for x in (body.get('c') or ()) if x.get('k') != 'NullStmt'] if body.get('k') == 'CompoundStmt' else [body]
        last = sts[-1] if sts else None
        if last is not None and last.get('k') == 'IfStmt' and last['slots'].get('else') is None:
            th = last['slots'].get('then')
            while isinstance(th, dict) and th.get('k') == 'CompoundStmt' and len(th.get('c') or ()) == 1:
                th = th['c'][0]
            if isinstance(th, dict) and th.get('k') == 'BreakStmt':
                conts.append(norm_literal(strip_dec(canon(last['slots']['cond'], env, subst=False)), False))
    want_c = [norm_literal(('!', ('mcall', 'std::set<unsigned long>::count', 'seen', ('call', 'smt::variable', 'p'))), True), norm_literal(('<', ('num', 0), 'counter'), True)]
    facts['loops: until a seen variable / while counter > 0'] = sorted(map(repr, conts)) == sorted(map(repr, want_c))
    if 'counter' in decs:
        facts['counter decremented per resolved literal'] = True
    for k, v in facts.items():
        ctx.instance(rid, [f.id, k], {'fact': k, 'holds': v})
        if not v:
            ctx.finding(rid, f.id, k, 'sat_core::analyze: "%s" does not hold' % k, loc=f.loc)


def run(ctx):
    fs = ctx.facts('P')
    r1(ctx, fs)
    r2(ctx, fs)
    r3(ctx, fs)
    r4(ctx, fs)
    r5(ctx, fs)
    r6(ctx, fs)
