"""C09 - LRA: values are a model, conflicts mean infeasibility (DESIGN 4, C09).

R1  duality: assert_lower/assert_upper, assertion::propagate_lb/ub, row::propagate_lb/ub and the two arms of check()
    are exact duals under lb<->ub, <,<= flipped, leq<->geq, -inf<->+inf.
R2  explanation completeness of the primal side (the dual side follows from R1): conflict of check(), of assert_lower, of row::propagate_lb.
R3  epsilon table of lra_theory::propagate(lit).
R4  tableau / watch-list writers; pivot removes the leaving row from every watch list and re-adds through new_row;
    update / pivot_and_update value arithmetic.
"""
from ..expr import LocalEnv, canon, show
from ..facts import AnalysisBroken, kids, short, src, walk
from ..tables import enum_paths, switch_arms, path_literals, value_of
from .. import dual, effects

LRA = 'smt::lra_theory::'
SW = {'lb': 'ub', 'ub': 'lb', 'lb_index': 'ub_index', 'ub_index': 'lb_index', 'assert_lower': 'assert_upper', 'assert_upper': 'assert_lower',
      'propagate_lb': 'propagate_ub', 'propagate_ub': 'propagate_lb', 'is_positive_infinite': 'is_negative_infinite',
      'is_negative_infinite': 'is_positive_infinite', 'leq': 'geq', 'geq': 'leq', 'NEGATIVE_INFINITY': 'POSITIVE_INFINITY',
      'POSITIVE_INFINITY': 'NEGATIVE_INFINITY'}

# accepted, reasoned asymmetries: (function, description of the differing guard) -> reason
ACCEPTED_ASYMMETRY = {
    'smt::row::propagate_ub': 'tests is_negative_infinite(th.lb(v)) of the triggering variable where the dual tests the loop variable c_v: an infinite bound then only yields an '
                              'infinite (vacuous) derived bound or a skipped optional propagation; check() stays complete (DESIGN 4 C09.R1)',
}


def dname(s):
    parts = s.split('::')
    parts[-1] = SW.get(parts[-1], parts[-1])
    return '::'.join(parts)


def dualise(t):
    if isinstance(t, str):
        return dname(t)
    if isinstance(t, tuple) and t and t[0] in ('<', '<=') and len(t) == 3:
        return (t[0], t[2], t[1])
    if isinstance(t, tuple) and t and t[0] in ('&&', '||', '+', '*', '==', '!=') and len(t) == 3:
        a, b = sorted(t[1:], key=repr)
        return (t[0], a, b)
    return t


class DualSumm(dual.Summ):
    pass            # the case labels are rewritten like every other name (Summ.cond)


PAIRS = [(LRA + 'assert_lower', LRA + 'assert_upper'), ('smt::assertion::propagate_lb', 'smt::assertion::propagate_ub'),
         ('smt::row::propagate_lb', 'smt::row::propagate_ub')]


def r1(ctx, fs):
    rid = 'C09.R1'
    ctx.rule(rid, 'dual(f_lower) == f_upper as normalised path sets, for assert_*, assertion::propagate_*, row::propagate_* and the two out-of-bounds arms of check()', floor=4)
    for a, b in PAIRS:
        fa, fb = fs.fn(a), fs.fn(b)
        sa = DualSumm(fs, fa, rw=dualise, subst=False).summary()
        sb = dual.Summ(fs, fb, subst=False).summary()
        diffs = dual.deep_diff(sa, sb)
        ctx.instance(rid, [a, b], {'lower': fa.id, 'upper': fb.id, 'paths': [len(sa), len(sb)], 'differences': diffs[:3]})
        if diffs:
            if b in ACCEPTED_ASYMMETRY and len(diffs) == 1 and 'is_negative_infinite' in diffs[0] and 'guards differ' in diffs[0]:
                ctx.note('R1 accepted asymmetry in %s: %s' % (b, ACCEPTED_ASYMMETRY[b]))
                continue
            ctx.finding(rid, fa.id, 'dual', '%s is not the dual of %s (lb<->ub, comparisons flipped, leq<->geq): %s' % (b.rsplit('::', 2)[-2] + '::' + b.rsplit('::', 1)[-1], a.rsplit('::', 1)[-1], ' | '.join(d[:500] for d in diffs[:3])),
                        loc=fa.loc, construct='%s | %s' % (fa.loc, fb.loc), expect='exact duals')
    # the two arms of check()
    f = fs.fn(LRA + 'check')
    arms = []
    for n in f.nodes():
        if n.get('k') == 'IfStmt':
            c = canon(n['slots']['cond'], None)
            if c == ('<', ('mcall', LRA + 'value', 'this', 'x_i'), ('mcall', LRA + 'lb', 'this', 'x_i')) or (isinstance(c, tuple) and c[0] == '<' and 'value' in show(c) and 'x_i' in show(c) and not arms):
                el = n['slots'].get('else')
                if el is not None and el.get('k') == 'IfStmt':
                    arms = [(n['slots']['cond'], n['slots']['then']), (el['slots']['cond'], el['slots']['then'])]
    if len(arms) != 2:
        raise AnalysisBroken('%s: the two out-of-bounds arms (value < lb / value > ub) were not found' % f.id)

    class _B:
        pass
    s1 = DualSumm(fs, f, rw=dualise, subst=False)
    s2 = dual.Summ(fs, f, subst=False)
    s1.alpha_scope(arms[0][1])
    s2.alpha_scope(arms[1][1])
    c1, c2 = s1.term(arms[0][0]), s2.term(arms[1][0])
    p1, p2 = s1.paths(arms[0][1]), s2.paths(arms[1][1])
    diffs = ([] if c1 == c2 else ['arm conditions: dual(%s) vs %s' % (show(c1), show(c2))]) + dual.deep_diff(p1, p2)
    # the lambdas that choose the entering variable are compared as canonical terms of their return expression
    lam = [n for n in f.nodes() if n.get('k') == 'LambdaExpr']
    lam_terms = []
    for l in lam:
        rets = [m for m in walk(l) if m.get('k') == 'ReturnStmt']
        lam_terms.append(canon(rets[0]['c'][0], None) if rets else None)
    if len(lam_terms) == 3:
        d1 = dual.rewrite(lam_terms[1], dualise)
        from ..schema import resort
        if resort(d1) != resort(lam_terms[2]):
            diffs.append('entering-variable choice: dual(%s) vs %s' % (show(lam_terms[1]), show(lam_terms[2])))
    else:
        raise AnalysisBroken('%s: expected three selection lambdas (violated row, entering variable x2)' % f.id)
    ctx.instance(rid, [f.id, 'arms'], {'function': f.id, 'arms': [show(c1), show(c2)], 'differences': diffs[:3]})
    if diffs:
        ctx.finding(rid, f.id, 'arms', 'lra_theory::check: the value > ub arm is not the dual of the value < lb arm: %s' % ' | '.join(d[:500] for d in diffs[:3]), loc=f.loc, expect='exact duals')


def reason(which, v):
    return ('!', ('.', ('[]', ('.', 'th', 'c_bounds') if False else LRA + 'c_bounds', ('call', LRA + which + '_index', v)), 'reason'))


def _lambda_param_to_v(t):
    """the selection lambdas take one (variable, coefficient) pair: name that parameter `v` whatever it is called (it is the only X in `X.first`)."""
    names = set()

    def scan(x):
        if isinstance(x, tuple):
            if len(x) == 3 and x[0] == '.' and x[2] == 'first' and isinstance(x[1], str):
                names.add(x[1])
            for y in x:
                scan(y)
    scan(t)
    if len(names) != 1:
        return t
    old = names.pop()

    def ren(x):
        if x == old:
            return 'v'
        if isinstance(x, tuple):
            return tuple(ren(y) for y in x)
        return x
    return ren(t)


def r2(ctx, fs):
    rid = 'C09.R2'
    ctx.rule(rid, 'primal explanations: check() value<lb arm pushes, for EVERY term (v,c) of the row, !reason(ub v) if c>0, !reason(lb v) if c<0, plus !reason(lb x_i), then fails; '
                  'assert_lower conflict = {!p, !reason(ub x_i)}; row::propagate_lb (positive coefficient) collects !reason(lb c_v) for c>0 and !reason(ub c_v) for c<0 and reserves slot 0; '
                  'the entering variable of the value<lb arm can move in the helpful direction', floor=6)
    f = fs.fn(LRA + 'check')
    env = LocalEnv(f)
    env.local_role('x_i', lambda n, i: (n.get('t') or '').replace('const ', '') == 'unsigned long' and isinstance(i, tuple) and i[0] == '.' and i[-1] == 'first')      # the basic variable out of bounds
    env.local_role('f_row', lambda n, i: (n.get('t') or '').replace('const ', '') in ('smt::row *', 'smt::row *const') and isinstance(i, tuple) and i[0] == '.' and i[-1] == 'second')
    # locate the explanation loop of the first arm
    found = None
    for n in f.nodes():
        if n.get('k') == 'CXXForRangeStmt':
            rng = canon(n['slots']['range'], env, subst=False)
            if rng == ('.', ('.', 'f_row', 'l'), 'vars') or (isinstance(rng, tuple) and rng[-1] == 'vars'):
                found = found or n
    if found is None:
        raise AnalysisBroken('%s: explanation loop over the terms of the flawed row not found' % f.id)
    n = found
    b = n['slots']['var'].get('bindings') or [None, None]
    pushes = {}
    for p in enum_paths(n['slots']['body']):
        conds = tuple((canon(c[1], env, subst=False), c[2]) for c in p.conds if c[0] == 'if')
        ps = [canon(s, env, subst=False) for s in p.live(env)]
        pushes[conds] = ps
    pos = ('call', 'smt::is_positive', b[1])
    neg = ('call', 'smt::is_negative', b[1])
    CB = LRA + 'c_bounds'
    pb = lambda which, v: ('mcall', 'std::vector<smt::lit>::push_back', 'smt::theory::cnfl', ('!', ('.', ('[]', CB, ('call', LRA + which + '_index', v)), 'reason')))
    want = {((pos, True),): [pb('ub', b[0])], ((pos, False), (neg, True)): [pb('lb', b[0])], ((pos, False), (neg, False)): []}
    ctx.instance(rid, [f.id, 'row-terms'], {'function': f.id, 'per_term': {show(k): [show(x) for x in v] for k, v in pushes.items()}})
    if pushes != want:
        ctx.finding(rid, f.id, 'row-terms', 'lra_theory::check (value < lb): the conflict must blame the upper bound of every positive and the lower bound of every negative term of the row; found %s' % (
            {show(k): [show(x) for x in v] for k, v in pushes.items()}), node=n, expect='c>0 -> !reason(ub v); c<0 -> !reason(lb v), for all terms')
    # own bound + return false after the loop
    par = f.parent(n)
    sib = [canon(x, env, subst=False) for x in (par.get('c') or [])] if par else []
    own = pb('lb', 'x_i') in sib
    fails = ('ReturnStmt', 'false') in sib or any(x == ('ReturnStmt', 'false') for x in sib)
    ctx.instance(rid, [f.id, 'own-bound'], {'own_lower_bound_reason_pushed': own, 'then_fails': fails})
    if not own or not fails:
        ctx.finding(rid, f.id, 'own-bound', 'lra_theory::check (value < lb): the conflict must also blame the lower bound of the basic variable and make propagation fail', node=par or n,
                    expect='cnfl.push_back(!c_bounds[lb_index(x_i)].reason); return false;')
    # entering variable condition of arm 1
    lam = [x for x in f.nodes() if x.get('k') == 'LambdaExpr']
    rets = [m for m in walk(lam[1]) if m.get('k') == 'ReturnStmt'] if len(lam) >= 2 else []
    t = canon(rets[0]['c'][0], env, subst=False) if rets else None
    t = _lambda_param_to_v(t)
    st = show(t)
    ok = t is not None and t[0] == '||' and 'is_positive' in st and 'is_negative' in st and '(mcall lra_theory::ub this (. v first))' in st and '(mcall lra_theory::lb this (. v first))' in st
    if ok:
        parts = {}
        for x in t[1:]:
            if isinstance(x, tuple) and x[0] == '&&':
                sgn = 'pos' if 'is_positive' in show(x) else 'neg'
                cmpt = [y for y in x[1:] if isinstance(y, tuple) and y[0] == '<']
                parts[sgn] = cmpt[0] if cmpt else None
        val = ('mcall', LRA + 'value', 'this', ('.', 'v', 'first'))
        ok = parts.get('pos') == ('<', val, ('mcall', LRA + 'ub', 'this', ('.', 'v', 'first'))) and parts.get('neg') == ('<', ('mcall', LRA + 'lb', 'this', ('.', 'v', 'first')), val)
    ctx.instance(rid, [f.id, 'entering'], {'choice': st[:300], 'ok': ok})
    if not ok:
        ctx.finding(rid, f.id, 'entering', 'lra_theory::check (value < lb): a variable can raise the basic variable iff (c>0 and value<ub) or (c<0 and value>lb); found %s' % st[:300], loc=f.loc)
    # assert_lower conflict
    f = fs.fn(LRA + 'assert_lower')
    env = LocalEnv(f)
    env.param_roles(['x_i', 'val', 'p'])
    ok = False
    for p in enum_paths(f.body):
        if p.end == 'return' and canon(p.endnode['c'][0], env) == 'false':
            conds = [(canon(c[1], env, subst=False), c[2]) for c in p.conds if c[0] == 'if']
            ps = [canon(s, env, subst=False) for s in p.live(env) if s.get('k') != 'ReturnStmt']
            if conds and conds[-1] == (('<', ('mcall', LRA + 'ub', 'this', 'x_i'), 'val'), True):
                ok = sorted(ps, key=repr) == sorted([('mcall', 'std::vector<smt::lit>::push_back', 'smt::theory::cnfl', ('!', 'p')), pb('ub', 'x_i')], key=repr)
    ctx.instance(rid, [f.id, 'conflict'], {'conflict_is_{!p, !reason(ub)}': ok})
    if not ok:
        ctx.finding(rid, f.id, 'conflict', 'assert_lower: when val > ub(x_i) the conflict is exactly {!p, !reason of the upper bound}', loc=f.loc)
    # row::propagate_lb, positive arm
    f = fs.fn('smt::row::propagate_lb')
    env = LocalEnv(f)
    env.param_roles(['v'])
    first = [n for n in walk(f.body) if n.get('k') == 'IfStmt']
    arm = first[0]['slots']['then'] if first and canon(first[0]['slots']['cond'], env, subst=False) == ('call', 'smt::is_positive', ('mcall', 'std::map<const unsigned long, smt::rational>::at', ('.', 'smt::row::l', 'vars'), 'v')) else None
    if arm is None:
        raise AnalysisBroken('%s: positive-coefficient arm not found' % f.id)
    loop = [n for n in walk(arm) if n.get('k') == 'CXXForRangeStmt'][0]
    b = loop['slots']['var'].get('bindings') or [None, None]
    accs = [m for m in walk(arm) if m.get('k') == 'VarDecl' and (m.get('t') or '') == 'smt::inf_rational' and not any(x is m for x in walk(loop))]
    if len(accs) != 1:
        raise AnalysisBroken('%s: the accumulator of the derived bound (one inf_rational local of the positive arm) was not found' % f.id)
    env.rename[accs[0]['loc']] = 'lb'
    got = {}
    for p in enum_paths(loop['slots']['body']):
        conds = tuple((canon(c[1], env, subst=False), c[2]) for c in p.conds if c[0] == 'if')
        got[conds] = (sorted((show(canon(s, env, subst=False)) for s in p.live(env)), key=repr), p.end)
    TH = 'smt::row::th'
    posc, negc = ('call', 'smt::is_positive', b[1]), ('call', 'smt::is_negative', b[1])
    inf_lb = ('call', 'smt::is_negative_infinite', ('mcall', LRA + 'lb', TH, b[0]))
    inf_ub = ('call', 'smt::is_positive_infinite', ('mcall', LRA + 'ub', TH, b[0]))
    rs = lambda which: show(('mcall', 'std::vector<smt::lit>::push_back', ('.', TH, 'cnfl'), ('!', ('.', ('[]', ('.', TH, 'c_bounds'), ('call', LRA + which + '_index', b[0])), 'reason'))))
    acc = lambda which: show(('+=', 'lb', ('*', ) + tuple(sorted((b[1], ('mcall', LRA + which, TH, b[0])), key=repr))))
    want = {
        ((posc, True), (inf_lb, True)): (sorted([show(('mcall', 'std::vector<smt::lit>::clear', ('.', TH, 'cnfl'))), show(('ReturnStmt', 'true'))], key=repr), 'return'),
        ((posc, True), (inf_lb, False)): (sorted([acc('lb'), rs('lb')], key=repr), 'fall'),
        ((posc, False), (negc, True), (inf_ub, True)): (sorted([show(('mcall', 'std::vector<smt::lit>::clear', ('.', TH, 'cnfl'))), show(('ReturnStmt', 'true'))], key=repr), 'return'),
        ((posc, False), (negc, True), (inf_ub, False)): (sorted([acc('ub'), rs('ub')], key=repr), 'fall'),
        ((posc, False), (negc, False)): ([], 'fall'),
    }
    ctx.instance(rid, [f.id, 'derived-bound'], {'per_term': {show(k): v for k, v in got.items()}})
    if got != want:
        ctx.finding(rid, f.id, 'derived-bound', 'row::propagate_lb: the derived lower bound and its explanation must use lb (and its reason) for positive and ub for negative coefficients, for every term', node=loop)
    slot0 = [canon(s, env, subst=False) for s in (f.body.get('c') or [])]
    ok = ('mcall', 'std::vector<smt::lit>::push_back', ('.', TH, 'cnfl'), ('lit',)) in slot0 or any(isinstance(x, tuple) and x[:3] == ('mcall', 'std::vector<smt::lit>::push_back', ('.', TH, 'cnfl')) for x in slot0)
    ctx.instance(rid, [f.id, 'slot0'], {'slot_for_propagated_literal_reserved': ok})
    if not ok:
        ctx.finding(rid, f.id, 'slot0', 'row::propagate_lb must reserve slot 0 of the explanation for the propagated literal', loc=f.loc)


def r3(ctx, fs):
    rid = 'C09.R3'
    ctx.rule(rid, 'lra_theory::propagate(p): asserted leq -> assert_upper(x,v,p), geq -> assert_lower(x,v,p); negated leq -> assert_lower(x,v+eps,p), geq -> assert_upper(x,v-eps,p); failure returns false', floor=4)
    f = fs.fn(LRA + 'propagate', params=['lit'])
    env = LocalEnv(f)
    env.param_roles(['p'])
    env.local_role('a', lambda n, i: isinstance(i, tuple) and i[0] == '[]' and i[1] == LRA + 'v_asrts')
    # decided on the paths of the function: whatever spells the two dispatches (switch / if chain on the value of the assertion literal, ?: / if-else on the
    # operator), a path is in one cell (value, operator) and makes exactly the bound assertion of that cell, returning false when it fails
    EPS = ('new', 'smt::inf_rational', 'smt::rational::ZERO', 'smt::rational::ONE')
    X, Vv = ('.', 'a', 'x'), ('.', 'a', 'v')
    VAL, OP = ('mcall', 'smt::sat_core::value', 'smt::theory::sat', ('.', 'a', 'b')), ('.', 'a', 'o')
    from ..schema import resort
    want = {
        ('True', 'leq'): ('mcall', LRA + 'assert_upper', 'this', X, Vv, 'p'), ('True', 'geq'): ('mcall', LRA + 'assert_lower', 'this', X, Vv, 'p'),
        ('False', 'leq'): resort(('mcall', LRA + 'assert_lower', 'this', X, ('+', EPS, Vv), 'p')), ('False', 'geq'): resort(('mcall', LRA + 'assert_upper', 'this', X, ('-', Vv, EPS), 'p')),
    }
    cn = lambda n: canon(n, env, subst=False)
    is_assert = lambda t: isinstance(t, tuple) and t and t[0] == 'mcall' and t[1] in (LRA + 'assert_upper', LRA + 'assert_lower')
    cells = {}
    tested = False
    for p in enum_paths(f.body):
        L = path_literals(p, cn)
        if L is None:
            continue
        v, o = value_of(L, VAL), value_of(L, OP)
        calls = [(resort(c[1]), c[2]) for c in L if c[0] == 'if' and is_assert(c[1])]
        calls += [(resort(cn(x)), None) for st in p.stmts for x in walk(st) if x.get('k') == 'CXXMemberCallExpr' and is_assert(cn(x)) and not st.get('as')]
        if v is not None:
            tested = True
        if v not in ('True', 'False'):
            if calls:
                ctx.finding(rid, f.id, 'unassigned', 'lra_theory::propagate asserts a bound on a path where the assertion literal is neither true nor false', node=p.endnode or f.body)
            continue
        cells.setdefault((v, o), []).append((calls, p))
    if not tested:
        raise AnalysisBroken('%s: no test of the value of the assertion literal found' % f.id)
    for key, w in sorted(want.items()):
        val = key[0]
        got = cells.get(key) or []
        ok = bool(got)
        seen = set()
        for calls, p in got:
            retf = p.end == 'return' and p.endnode.get('c') and cn(p.endnode['c'][0]) == 'false'
            if len(calls) != 1 or calls[0][0] != w or calls[0][1] is None:
                ok = False
            elif calls[0][1] is False and not retf:
                ok = False
            elif calls[0][1] is True and retf:
                ok = False
            else:
                seen.add(calls[0][1])
        ok = ok and seen == {True, False}
        found = sorted({show(c[0]) for calls, p in got for c in calls})
        ctx.instance(rid, [f.id, '%s/%s' % key], {'literal': val, 'operator': key[1], 'dispatch': found})
        if not ok:
            ctx.finding(rid, f.id, '%s/%s' % key, 'lra_theory::propagate, literal %s, operator %s: makes %s; the %s of "x <= v" / "x >= v" requires %s, failing the propagation when the bound assertion fails' % (
                val, key[1], found or 'no bound assertion', 'assertion' if val == 'True' else 'negation', show(w)), node=(got[0][1].endnode if got and got[0][1].endnode else f.body), expect=show(w))
    for key in cells:
        if key not in want:
            ctx.finding(rid, f.id, 'cell %s/%s' % key, 'lra_theory::propagate: a path on which the operator of the assertion is not decided (%s) makes a bound assertion' % (key,), loc=f.loc)


def _norm_sel(t):
    """(op==leq ? A : B) and (op==geq ? B : A) are the same dispatch: normalise to {leq: A, geq: B}."""
    if isinstance(t, tuple) and t and t[0] == '?:' and isinstance(t[1], tuple) and t[1][0] == '==':
        ops = [x for x in t[1][1:] if x in ('leq', 'geq')]
        if ops:
            return (('leq', t[2]), ('geq', t[3])) if ops[0] == 'leq' else (('leq', t[3]), ('geq', t[2]))
    return t


TABLEAU_WRITERS = {
    LRA + 'tableau': {LRA + 'lra_theory', LRA + 'new_row', LRA + 'pivot', LRA + '~lra_theory'},
    LRA + 't_watches': {LRA + 'lra_theory', LRA + 'new_row', LRA + 'pivot', LRA + 'new_var'},
    LRA + 'vals': {LRA + 'lra_theory', LRA + 'new_var', LRA + 'update', LRA + 'pivot_and_update'},
}


def r4(ctx, fs):
    rid = 'C09.R4'
    ctx.rule(rid, 'tableau, t_watches and vals are modified only by the reviewed writers; pivot removes the leaving row from the watch list of each of its variables, '
                  'solves it for the entering variable (divide by -cf, add x_i / cf) and re-adds through new_row; new_row watches every variable of the row; '
                  'update: x_k += a_ki (v - x_i) for every watching row, then x_i = v; pivot_and_update: theta = (v - x_i)/a_ij, x_i = v, x_j += theta, other rows += a_kj theta', floor=16)
    for field, allowed in TABLEAU_WRITERS.items():
        w = effects.field_writers(fs, field)
        if not w:
            raise AnalysisBroken('no writer found for %s' % field)
        for fid, sts in sorted(w.items()):
            f = fs.fns[fid]
            ctx.instance(rid, [field, f.name], {'field': field, 'writer': fid})
            if f.name not in allowed:
                ctx.finding(rid, fid, field, '%s is modified by %s, outside the tableau discipline' % (field, f.name), node=sts[0].node)
    # rows enter the tableau only through new_row (which watches every variable): a row built elsewhere is invisible to update()/pivot()
    for fid, sts in sorted(effects.field_writers(fs, LRA + 'tableau').items()):
        for st in sts:
            if st.how != 'erase' and st.how != 'clear':
                g = fs.fns[fid]
                ctx.instance(rid, ['row-entry', g.name, st.how], {'writer': fid, 'how': st.how})
                if g.name != LRA + 'new_row':
                    ctx.finding(rid, fid, 'row-entry', '%s adds a row to the tableau without new_row: the row is in no watch list, so update()/pivot_and_update() never adjust its basic variable '
                                'and the reported values stop satisfying its defining equation' % short(g.name), node=st.node)
    for g in fs.fns.values():
        if g.body is None or g.name == LRA + 'new_row':
            continue
        for n in g.nodes():
            if n.get('k') == 'CXXNewExpr' and (n.get('t') or '').replace('class ', '') in ('smt::row *', 'row *'):
                ctx.finding(rid, g.id, 'row-new', '%s allocates a tableau row outside new_row' % short(g.name), node=n)
    f = fs.fn(LRA + 'new_row')
    env = LocalEnv(f)
    env.param_roles(['x', 'l'])
    ok = False
    for n in f.nodes():
        if n.get('k') == 'CXXForRangeStmt' and canon(n['slots']['range'], env, subst=False) == ('.', 'l', 'vars'):
            b = n['slots']['var'].get('bindings') or [None]
            st = [s for s in effects.stores(_W(n['slots']['body'])) if s.fields and s.fields[0] == LRA + 't_watches' and s.how in ('emplace', 'insert')]
            cond = any(m.get('k') in ('IfStmt', 'ContinueStmt', 'BreakStmt') for m in walk(n['slots']['body']))
            ok = len(st) == 1 and not cond and canon(st[0].target, env, subst=False) == ('[]', LRA + 't_watches', b[0])
    emp = [canon(n, env, subst=False) for n in f.nodes() if n.get('k') == 'CXXMemberCallExpr' and (n.get('callee_name') or '').endswith('::emplace') and canon(n['c'][0]['c'][0], env, subst=False) == LRA + 'tableau']
    ctx.instance(rid, [f.id, 'watch-all'], {'watches_every_variable': ok, 'tableau_emplace': [show(e) for e in emp]})
    if not ok or len(emp) != 1 or emp[0][3] != 'x':
        ctx.finding(rid, f.id, 'watch-all', 'new_row must register the row under its basic variable and in the watch list of every variable of its expression', loc=f.loc)
    f = fs.fn(LRA + 'pivot')
    env = LocalEnv(f)
    env.param_roles(['x_i', 'x_j'])
    env.local_role('ex_row', lambda n, i: n.get('t') == 'smt::row *' and i is not None)
    env.local_role('expr', lambda n, i: n.get('t') == 'smt::lin' and i is not None)
    env.local_role('cf', lambda n, i: (n.get('t') or '').replace('const ', '') == 'smt::rational' and isinstance(i, tuple) and i[0] in ('[]', 'mcall') and i[-1] == 'x_j' and 'expr' in show(i))     # the coefficient of the entering variable in the leaving row
    effs = [canon(s, env, subst=False) for s in f.nodes() if s.get('k') in ('CXXOperatorCallExpr', 'CXXMemberCallExpr', 'CXXDeleteExpr')]
    unw = False
    for n in f.nodes():
        if n.get('k') == 'CXXForRangeStmt' and canon(n['slots']['range'], env, subst=False) == ('.', 'expr', 'vars'):
            b = n['slots']['var'].get('bindings') or [None]
            st = [s for s in effects.stores(_W(n['slots']['body'])) if s.fields and s.fields[0] == LRA + 't_watches' and s.how == 'erase']
            if len(st) == 1 and canon(st[0].target, env, subst=False) == ('[]', LRA + 't_watches', b[0]) and canon(st[0].value[0], env, subst=False) == 'ex_row':
                unw = True
    facts = {
        'leaving row removed from the tableau': ('mcall', 'std::map<const unsigned long, smt::row *>::erase', LRA + 'tableau', 'x_i') in effs,
        'leaving row removed from every watch list': unw,
        'cf = coefficient of x_j': env.init_of('cf') == ('[]', ('.', 'expr', 'vars'), 'x_j'),
        'x_j removed from the expression': ('mcall', 'std::map<const unsigned long, smt::rational>::erase', ('.', 'expr', 'vars'), 'x_j') in effs,
        'expression divided by -cf': ('/=', 'expr', ('neg', 'cf')) in effs,
        'x_i enters with 1/cf': ('mcall', 'std::map<const unsigned long, smt::rational>::emplace', ('.', 'expr', 'vars'), 'x_i', ('/', 'smt::rational::ONE', 'cf')) in effs,
        'new row x_j = expr added': ('mcall', LRA + 'new_row', 'this', 'x_j', 'expr') in effs,
    }
    for k, v in facts.items():
        ctx.instance(rid, [f.id, k], {'fact': k, 'holds': v})
        if not v:
            ctx.finding(rid, f.id, k, 'lra_theory::pivot: "%s" does not hold - the tableau no longer represents the original equations' % k, loc=f.loc)
    row_update(ctx, fs, f, rid)
    # update / pivot_and_update arithmetic
    f = fs.fn(LRA + 'update')
    env = LocalEnv(f)
    env.param_roles(['x_i', 'v'])
    effs = [canon(s, env, subst=False) for s in f.nodes() if s.get('k') in ('CXXOperatorCallExpr',) and s.get('op') in ('+=', '=')]
    cvar = None
    for n in f.nodes():
        if n.get('k') == 'CXXForRangeStmt' and canon(n['slots']['range'], env, subst=False) == ('[]', LRA + 't_watches', 'x_i'):
            cvar = n['slots']['var'].get('name')
    V = lambda x: ('[]', LRA + 'vals', x)
    want_row = ('+=', V(('.', cvar, 'x')), ('*',) + tuple(sorted((('mcall', 'std::map<const unsigned long, smt::rational>::at', ('.', ('.', cvar, 'l'), 'vars'), 'x_i'), ('-', 'v', V('x_i'))), key=repr)))
    ok = want_row in effs and ('=', V('x_i'), 'v') in effs
    ctx.instance(rid, [f.id, 'arith'], {'effects': [show(e) for e in effs], 'ok': ok})
    if not ok:
        ctx.finding(rid, f.id, 'arith', 'lra_theory::update: every row watching x_i must move by a_ki * (v - x_i) before x_i is set to v', loc=f.loc)
    f = fs.fn(LRA + 'pivot_and_update')
    env = LocalEnv(f)
    env.param_roles(['x_i', 'x_j', 'v'])
    env.local_role('theta', lambda n, i: n.get('t') == 'const smt::inf_rational' and i is not None)
    effs = [canon(s, env, subst=False) for s in f.nodes() if s.get('k') in ('CXXOperatorCallExpr', 'CXXMemberCallExpr') and not s.get('as')]
    cvar = None
    guard_ok = False
    for n in f.nodes():
        if n.get('k') == 'CXXForRangeStmt' and canon(n['slots']['range'], env, subst=False) == ('[]', LRA + 't_watches', 'x_j'):
            cvar = n['slots']['var'].get('name')
            # decided on the paths of the loop body: the value of a watching row is moved exactly on the paths that have seen `c->x == x_i` fail (wrapping if
            # or early continue)
            from ..tables import norm_literal
            LEAVING = ('==', ) + tuple(sorted((('.', cvar, 'x'), 'x_i'), key=repr))
            guard_ok, moved = True, False
            for p in enum_paths(n['slots']['body']):
                lv = None
                for c in p.conds:
                    if c[0] == 'if':
                        t, pol = norm_literal(canon(c[1], env, subst=False), c[2])
                        if t == LEAVING:
                            lv = pol
                has = any(m.get('k') == 'CXXOperatorCallExpr' and m.get('op') == '+=' and canon(m, env, subst=False)[1] == ('[]', LRA + 'vals', ('.', cvar, 'x')) for st in p.stmts for m in walk(st))
                if has:
                    moved = True
                    if lv is not False:
                        guard_ok = False
            guard_ok = guard_ok and moved
    AT = lambda row, x: ('mcall', 'std::map<const unsigned long, smt::rational>::at', ('.', ('.', row, 'l'), 'vars'), x)
    theta = env.init_of('theta')
    want_theta = ('/', ('-', 'v', V('x_i')), AT(('mcall', 'std::map<const unsigned long, smt::row *>::at', LRA + 'tableau', 'x_i'), 'x_j'))
    facts = {
        'theta = (v - x_i) / a_ij': theta == want_theta,
        'x_i = v': ('=', V('x_i'), 'v') in effs,
        'x_j += theta': ('+=', V('x_j'), 'theta') in effs,
        'other rows += a_kj * theta (not the leaving row)': guard_ok and ('+=', V(('.', cvar, 'x')), ('*',) + tuple(sorted((AT(cvar, 'x_j'), 'theta'), key=repr))) in effs,
        'pivot(x_i, x_j) last': ('mcall', LRA + 'pivot', 'this', 'x_i', 'x_j') in effs,
    }
    for k, v in facts.items():
        ctx.instance(rid, [f.id, k], {'fact': k, 'holds': v})
        if not v:
            ctx.finding(rid, f.id, k, 'lra_theory::pivot_and_update: "%s" does not hold - the values stop satisfying the tableau equations' % k, loc=f.loc)


def _ren(t, m):
    if isinstance(t, str):
        return m.get(t, t)
    if isinstance(t, tuple):
        r = tuple(_ren(x, m) for x in t)
        if r and r[0] in ('*', '+', '==', '!=') and len(r) == 3:
            r = (r[0],) + tuple(sorted(r[1:], key=repr))
        return r
    return t


def _effects(n, env, m):
    out = set()
    for x in walk(n):
        if x.get('as'):
            continue
        if x.get('k') in ('CXXMemberCallExpr', 'CXXOperatorCallExpr', 'BinaryOperator', 'CompoundAssignOperator'):
            c = _ren(canon(x, env, subst=False), m)
            if isinstance(c, tuple) and (c[0] in ('+=', '-=', '=', '*=', '/=') or (c[0] == 'mcall' and c[1].rsplit('::', 1)[-1] in effects.MUTATING)):
                out.add(c)
    return out


def row_update(ctx, fs, f, rid):
    """the update of the rows that contain the entering variable x_j (sequential build; C20.R1 transfers it to the tasks of the parallel build):
    cc = a_kj; drop x_j; for every term c*v of the solved expression: absent -> add c*cc and watch v; present -> += c*cc, and when it becomes zero drop the term and unwatch v;
    constant += cc * constant of the expression."""
    env = LocalEnv(f)
    env.param_roles(['x_i', 'x_j'])
    env.local_role('expr', lambda n, i: n.get('t') == 'smt::lin' and i is not None)
    loops = [n for n in f.nodes() if n.get('k') == 'CXXForRangeStmt' and 'unordered_set<smt::row *' in (n['slots']['range'].get('t') or '')]
    if len(loops) != 1:
        raise AnalysisBroken('%s: the loop over the rows watching the entering variable was not found' % f.id)
    loop = loops[0]
    body = loop['slots']['body']
    m = {loop['slots']['var'].get('name'): 'r'}
    RV = ('.', ('.', 'r', 'l'), 'vars')
    MAP = 'std::map<const unsigned long, smt::rational>::'
    SET = 'std::unordered_set<smt::row *>::'
    cc = [n for n in walk(body) if n.get('k') == 'VarDecl' and (n.get('t') or '').replace('const ', '') == 'smt::rational' and n.get('init') is not None
          and _ren(canon(n['init'], env, subst=False), m) in (('[]', RV, 'x_j'), ('mcall', MAP + 'at', RV, 'x_j'))]
    inner = [n for n in walk(body) if n.get('k') == 'CXXForRangeStmt' and canon(n['slots']['range'], env, subst=False) == ('.', 'expr', 'vars')]
    facts_ = {}
    facts_['cc = coefficient of x_j in the row'] = len(cc) == 1
    if cc:
        m[cc[0]['name']] = 'cc'
    top = _effects(body, env, m)
    facts_['x_j removed from the row'] = ('mcall', MAP + 'erase', RV, 'x_j') in top
    facts_['constant += cc * constant of the solved expression'] = ('+=', ('.', ('.', 'r', 'l'), 'known_term'), _ren(('*', 'cc', ('.', 'expr', 'known_term')), {})) in top
    ok_inner = False
    detail = ''
    if len(inner) == 1:
        b = inner[0]['slots']['var'].get('bindings') or []
        if len(b) == 2:
            m[b[0]] = 'v'
            m[b[1]] = 'c'
        ifs = [n for n in kids(inner[0]['slots']['body'])] if inner[0]['slots']['body'].get('k') == 'CompoundStmt' else [inner[0]['slots']['body']]
        ifs = [n for n in ifs if n.get('k') == 'IfStmt']
        if len(ifs) == 1 and ifs[0]['slots'].get('init') is not None and ifs[0]['slots'].get('else') is not None:
            I = ifs[0]
            vd = [n for n in walk(I['slots']['init']) if n.get('k') == 'VarDecl']
            if len(vd) == 1 and vd[0].get('init') is not None and _ren(canon(vd[0]['init'], env, subst=False), m) == ('mcall', MAP + 'find', RV, 'v'):
                m[vd[0]['name']] = 'it'
                c = _ren(canon(I['slots']['cond'], env, subst=False), m)
                absent, present = I['slots']['then'], I['slots']['else']
                endc = [('mcall', MAP + e, RV) for e in ('cend', 'end')]
                isend = isinstance(c, tuple) and c[0] in ('==', '!=') and any(x in endc for x in c[1:]) and any('it' == x or (isinstance(x, tuple) and x[-1] == 'it') for x in c[1:])
                if isend and c[0] == '!=':
                    absent, present = present, absent
                ea, ep = _effects(absent, env, m), _effects(present, env, m)
                prod = _ren(('*', 'c', 'cc'), {})
                want_a = [{('mcall', MAP + 'emplace', RV, 'v', prod), ('mcall', SET + w, ('[]', LRA + 't_watches', 'v'), 'r')} for w in ('emplace', 'insert')]
                zifs = [n for n in walk(present) if n.get('k') == 'IfStmt']
                zero_ok = False
                if len(zifs) == 1 and zifs[0]['slots'].get('else') is None:
                    zc = _ren(canon(zifs[0]['slots']['cond'], env, subst=False), m)
                    ez = _effects(zifs[0]['slots']['then'], env, m)
                    zero_ok = zc in (_ren(('==', 'smt::rational::ZERO', ('.', 'it', 'second')), {}), ('mcall', 'smt::rational::is_zero', ('.', 'it', 'second'))) and \
                        ez in ({('mcall', MAP + 'erase', RV, k), ('mcall', SET + 'erase', ('[]', LRA + 't_watches', 'v'), 'r')} for k in ('it', 'v'))
                    ep = ep - ez
                ok_inner = isend and ea in want_a and ep == {('+=', ('.', 'it', 'second'), prod)} and zero_ok
                detail = 'absent: %s | present: %s | zero test ok: %s' % (sorted(show(x) for x in ea), sorted(show(x) for x in ep), zero_ok)
    facts_['for every term c*v of the solved expression: absent -> add c*cc and watch v; present -> += c*cc, zero -> drop term and unwatch v'] = ok_inner
    for k, v in facts_.items():
        ctx.instance(rid, [f.id, 'row-update', k], {'fact': k, 'holds': v, 'detail': detail if 'every term' in k else ''})
        if not v:
            ctx.finding(rid, f.id, 'row-update:' + k.split(' ')[0] + str(len(k)), 'lra_theory::pivot, update of the rows containing the entering variable: "%s" does not hold%s - the tableau rows stop being the original equations solved for the basic variables'
                        % (k, (' (' + detail + ')') if detail and 'every term' in k else ''), node=loop)


class _W:
    def __init__(self, s):
        self.s = s

    def nodes(self):
        return walk(self.s)


def run(ctx):
    fs = ctx.facts('P')
    r1(ctx, fs)
    r2(ctx, fs)
    r3(ctx, fs)
    r4(ctx, fs)
    # the constraints whose satisfaction the values are a model of are built by the relation builders (C11, which rests on C15): evaluated here too
    ctx.include('C11')
