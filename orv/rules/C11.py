"""C11 - an LRA relation literal means exactly its relation (DESIGN 4, C11).

R1  the four builders new_lt/new_leq/new_geq/new_gt are the same function up to their table row (four-way sibling equality
    of the normalised path sets once the row elements are abstracted).
R2  the table row of each builder: epsilon of the right-hand side, already-true / already-false tests (expression and slack),
    constraint kind, cache-key text.
R3  cache-key text and constraint kind agree, the key covers slack, relation and constant.
R4  new_eq = conj(new_geq, new_leq) on the same operands.
R5  lb/ub/bounds of an expression choose the variable bound by the sign of the coefficient (dual of each other);
    new_var(lin) seeds bounds, value and row of the slack from the same expression and caches it by its printed form.
R6  core::lt/leq/eq/geq/gt route to the namesake builders of the theory selected by the operand type.
"""
from ..expr import LocalEnv, canon, show
from ..facts import AnalysisBroken, short, src, walk
from ..tables import enum_paths, path_values, resolve_values, split_values, subst_terms
from .. import dual

LRA = 'smt::lra_theory::'
ROW = {
    #            eps   family  op enumerator   key text
    'new_lt':  (-1, 'le', 'leq', ' <= '),
    'new_leq': (0, 'le', 'leq', ' <= '),
    'new_geq': (0, 'ge', 'geq', ' >= '),
    'new_gt':  (1, 'ge', 'geq', ' >= '),
}


def env_of(fs, f):
    env = LocalEnv(f)
    env.param_roles(['left', 'right'])
    env.local_role('expr', lambda n, i: n.get('t') == 'smt::lin' and i == ('-', 'left', 'right'))
    env.local_role('c_right', lambda n, i: n.get('t') in ('const smt::inf_rational', 'smt::inf_rational'))
    env.local_role('slack', lambda n, i: isinstance(i, tuple) and i[0] == 'mcall' and i[1] == LRA + 'new_var' and len(i) == 4)
    env.local_role('s_assertion', lambda n, i: n.get('t') in ('const std::basic_string<char>', 'std::basic_string<char>'))
    return env


def bound(which, x):
    return ('mcall', LRA + which, 'this', x)


def sat_unsat(family, x):
    """(already-true test, already-false test) of `x ~ c_right` in canonical form."""
    if family == 'le':
        return ('<=', bound('ub', x), 'c_right'), ('<', 'c_right', bound('lb', x))
    return ('<=', 'c_right', bound('lb', x)), ('<', bound('ub', x), 'c_right')


def r1_r2(ctx, fs):
    rid1, rid2, rid3 = 'C11.R1', 'C11.R2', 'C11.R3'
    ctx.rule(rid1, 'new_lt / new_leq / new_geq / new_gt have identical normalised path sets once their table row (epsilon, tests, kind, key text) is abstracted: '
                   'left - right, substitution of basic variables by their rows scaled by the removed coefficient, constant moved to the right and zeroed, '
                   'shortcut tested before and after slack creation, cache look-up, assertion creation', floor=4)
    ctx.rule(rid2, 'table row per builder: lt (-k,-eps) ub<=c / lb>c leq "<=" ; leq (-k,0) same ; geq (-k,0) lb>=c / ub<c geq ">=" ; gt (-k,+eps) same', floor=28)
    ctx.rule(rid3, 'cache key = "x" + slack + <relation text> + constant, and the relation text agrees with the op enumerator handed to the assertion', floor=4)
    summaries = {}
    for nm, (eps, fam, opn, text) in ROW.items():
        f = fs.fn(LRA + nm)
        env = env_of(fs, f)
        # ---- R2: the row
        cr = env.init_of('c_right')
        got_aff = _affine(cr)
        ctx.instance(rid2, [f.id, 'eps'], {'builder': nm, 'c_right': show(cr), 'as (k-coefficient, epsilon)': got_aff, 'expected': (-1, eps)})
        if got_aff != (-1, eps):
            ctx.finding(rid2, f.id, 'eps', 'lra_theory::%s: right-hand side is %s = %s; the relation requires -known_term %s (strictness is carried by the infinitesimal part)' % (
                nm, show(cr), _fmt_aff(got_aff), {-1: '- epsilon', 0: '', 1: '+ epsilon'}[eps]), node=env.decl_of('c_right'), expect='inf_rational(-expr.known_term, %d)' % eps)
        cells = {}
        for p in enum_paths(f.body):
            if p.end != 'return':
                continue
            r = canon(p.endnode['c'][0], env, subst=False)
            if r not in ('smt::TRUE_lit', 'smt::FALSE_lit'):
                continue
            last = [c for c in p.conds if c[0] == 'if'][-1]
            ct = canon(last[1], env, subst=False)
            if last[2] is not True:
                continue
            x = 'slack' if any(s.get('k') == 'DeclStmt' and any(env.rename.get(d.get('loc')) == 'slack' for d in s.get('c') or ()) for s in p.stmts) else 'expr'
            cells[(x, r)] = (ct, last[1])
        for x in ('expr', 'slack'):
            s_t, u_t = sat_unsat(fam, x)
            for res, want in (('smt::TRUE_lit', s_t), ('smt::FALSE_lit', u_t)):
                got = cells.get((x, res))
                disc = '%s/%s' % (x, res.rsplit('::', 1)[-1])
                ctx.instance(rid2, [f.id, disc], {'builder': nm, 'on': x, 'returns': res, 'test': show(got[0]) if got else None, 'expected': show(want)})
                if got is None:
                    ctx.finding(rid2, f.id, disc, 'lra_theory::%s: no shortcut returning %s on the bounds of the %s' % (nm, res.rsplit('::', 1)[-1], x), loc=f.loc, expect=show(want))
                elif got[0] != want:
                    ctx.finding(rid2, f.id, disc, 'lra_theory::%s returns %s when %s; for this relation the root bounds decide it when %s' % (nm, res.rsplit('::', 1)[-1], show(got[0]), show(want)),
                                node=got[1], expect=show(want))
        # op enumerator + key text
        news = [canon(n, env, subst=False) for n in f.nodes() if n.get('k') == 'CXXNewExpr' and n.get('alloc_t') == 'smt::assertion']
        opgot = None
        if len(news) == 1:
            inner = news[0][2]
            opgot = inner[3] if len(inner) > 3 else None
            args_ok = inner[2:] == ('this', opgot, 'ctr_lit' if False else inner[4], 'slack', 'c_right')
        ctx.instance(rid2, [f.id, 'op'], {'builder': nm, 'assertion_kind': show(opgot), 'expected': opn})
        if opgot != opn:
            ctx.finding(rid2, f.id, 'op', 'lra_theory::%s creates an assertion of kind %s; the relation is a %s constraint on the slack' % (nm, show(opgot), opn), loc=f.loc, expect='op::' + opn)
        elif len(news) != 1 or news[0][2][5:] != ('slack', 'c_right'):
            ctx.finding(rid2, f.id, 'op/args', 'lra_theory::%s: the assertion must constrain the slack variable against c_right' % nm, loc=f.loc)
        key = env.init_of('s_assertion')
        strs = [x[1] for x in _subterms(key) if isinstance(x, tuple) and x[0] == 'str']
        ctx.instance(rid2, [f.id, 'key-text'], {'builder': nm, 'key': show(key), 'expected_text': text})
        if text not in strs:
            ctx.finding(rid2, f.id, 'key-text', 'lra_theory::%s: cache key uses relation text %s, expected %r (assertions of different relations would share a literal)' % (nm, strs, text),
                        node=env.decl_of('s_assertion'), expect=text)
        # ---- R3
        covers = ('call', 'std::to_string', 'slack') in set(_subterms(key)) and ('call', 'smt::to_string', 'c_right') in set(_subterms(key))
        agree = (('<=' in ''.join(strs)) == (opgot == 'leq')) and (('>=' in ''.join(strs)) == (opgot == 'geq'))
        ctx.instance(rid3, [f.id, 'key'], {'builder': nm, 'covers_slack_and_constant': covers, 'text_agrees_with_kind': agree})
        if not covers:
            ctx.finding(rid3, f.id, 'key/cover', 'lra_theory::%s: the cache key does not contain both the slack variable and the constant' % nm, node=env.decl_of('s_assertion'))
        if not agree:
            ctx.finding(rid3, f.id, 'key/kind', 'lra_theory::%s: key text %s and assertion kind %s disagree' % (nm, strs, show(opgot)), node=env.decl_of('s_assertion'))
        # ---- R1: abstract the row, keep everything else
        s_e, u_e = sat_unsat(fam, 'expr')
        s_s, u_s = sat_unsat(fam, 'slack')

        def rw(t, cr=cr, s_e=s_e, u_e=u_e, s_s=s_s, u_s=u_s, text=text, opn=opn):
            if t == cr:
                return 'ROW.c_right'
            if t == s_e:
                return ('ROW.sat', 'expr')
            if t == u_e:
                return ('ROW.unsat', 'expr')
            if t == s_s:
                return ('ROW.sat', 'slack')
            if t == u_s:
                return ('ROW.unsat', 'slack')
            if t == ('str', text):
                return 'ROW.text'
            if t == opn:
                return 'ROW.op'
            return t
        sm = dual.Summ(fs, f, rw=rw, subst=False)
        sm.env = env
        summaries[nm] = (f, sm.summary())
    ref_nm = 'new_leq'
    ref = summaries[ref_nm][1]
    for nm, (f, s) in summaries.items():
        oa, ob = dual.diff_summaries(s, ref)
        ctx.instance(rid1, [f.id, 'sibling'], {'builder': nm, 'paths': len(s), 'reference': ref_nm, 'differences': len(oa) + len(ob)})
        if oa or ob:
            pa, pb = dual.first_difference(oa, ob)
            ca, ea, cb, eb = dual.eff_diff(pa, pb) if pa and pb else ((), (), (), ())
            ctx.finding(rid1, f.id, 'sibling', 'lra_theory::%s deviates from its siblings outside its table row: it has %s %s where %s has %s %s' % (
                nm, [dual._show_cond(c) for c in ca], [dual._show_eff(e)[:200] for e in ea], ref_nm, [dual._show_cond(c) for c in cb], [dual._show_eff(e)[:200] for e in eb]),
                loc=f.loc, expect='same structure as the three sibling builders')
    # the shared structure itself (so that a change applied to all four at once is seen): spot facts of the reference builder
    f = summaries[ref_nm][0]
    env = env_of(fs, f)
    effs = [canon(s, env, subst=False) for s in walk(f.body) if s.get('k') in ('CXXOperatorCallExpr', 'BinaryOperator')]
    facts = {
        'constant zeroed after c_right': ('=', ('.', 'expr', 'known_term'), 'smt::rational::ZERO') in effs,
    }
    for k, v in facts.items():
        ctx.instance(rid1, [f.id, k], {'fact': k, 'holds': v})
        if not v:
            ctx.finding(rid1, f.id, k, 'lra_theory builders: %s does not hold any more' % k, loc=f.loc)
    subst_ok = False
    for n in walk(f.body):
        if n.get('k') == 'IfStmt' and n['slots'].get('condvar') is None:
            ini = n['slots'].get('init')
            body = [canon(x, env, subst=False) for x in walk(n['slots'].get('then')) if x.get('k') in ('CXXOperatorCallExpr', 'CXXMemberCallExpr', 'DeclStmt', 'VarDecl')]
            dn = [x for x in walk(n['slots'].get('then')) if x.get('k') == 'VarDecl' and x.get('t') == 'smt::rational']
            if dn and ini is not None:
                c = dn[0]['name']
                v = None
                for a in f.ancestors(n):
                    if a.get('k') == 'CXXForRangeStmt':
                        v = a['slots']['var'].get('name')
                        break
                atv = [d['name'] for d in walk(ini) if d.get('k') == 'VarDecl']
                # the row found in the tableau: by the name of the iterator, or (when that local is only a name for the look-up) by the look-up itself
                rows = [d['name'] for d in walk(ini) if d.get('k') == 'VarDecl'] + [canon(d['init'], env, subst=False) for d in walk(ini) if d.get('k') == 'VarDecl' and isinstance(d.get('init'), dict)]
                want = {('decl-init', canon(dn[0]['init'], env, subst=False) == ('[]', ('.', 'expr', 'vars'), v)),
                        ('erase', ('mcall', 'std::map<const unsigned long, smt::rational>::erase', ('.', 'expr', 'vars'), v) in body),
                        ('add-row', any(('+=', 'expr', ('*',) + tuple(sorted((('.', ('.', r, 'second'), 'l'), c), key=repr))) in body for r in rows))}
                if all(ok for _, ok in want):
                    subst_ok = True
    ctx.instance(rid1, [f.id, 'basic-substitution'], {'fact': 'basic variables are replaced by row * removed coefficient', 'holds': subst_ok})
    if not subst_ok:
        ctx.finding(rid1, f.id, 'basic-substitution', 'lra_theory builders: a basic variable must be replaced by its tableau row scaled by the coefficient that was removed', loc=f.loc,
                    expect='c = expr.vars[v]; expr.vars.erase(v); expr += row->l * c')


def _affine(t):
    """(coefficient of expr.known_term, coefficient of epsilon) of a right-hand-side term, None if not of that form."""
    if t == ('.', 'expr', 'known_term'):
        return (1, 0)
    if isinstance(t, tuple):
        if t[0] == 'neg':
            a = _affine(t[1])
            return None if a is None else (-a[0], -a[1])
        if t[0] == 'new' and t[1] == 'smt::inf_rational':
            if len(t) == 3:
                return _affine(t[2])
            if len(t) == 4 and isinstance(t[3], tuple) and t[3][0] == 'num':
                a = _affine(t[2])
                return None if a is None else (a[0], a[1] + t[3][1])
        if t[0] in ('+', '-') and len(t) == 3:
            a, b = _affine(t[1]), _affine(t[2])
            if a is None or b is None:
                return None
            return (a[0] + b[0], a[1] + b[1]) if t[0] == '+' else (a[0] - b[0], a[1] - b[1])
    return None


def _fmt_aff(a):
    return 'not an affine form of known_term' if a is None else '%d*known_term %+d*epsilon' % a


def _subterms(t):
    yield t
    if isinstance(t, tuple):
        for x in t:
            yield from _subterms(x)


def r4(ctx, fs):
    rid = 'C11.R4'
    ctx.rule(rid, 'lra_theory::new_eq(l,r) = new_conj({new_geq(l,r), new_leq(l,r)})', floor=1)
    f = fs.fn(LRA + 'new_eq')
    env = LocalEnv(f)
    env.param_roles(['left', 'right'])
    rets = [canon(n['c'][0], env) for n in f.nodes() if n.get('k') == 'ReturnStmt']
    ok = False
    if len(rets) == 1 and isinstance(rets[0], tuple) and rets[0][:2] == ('mcall', 'smt::sat_core::new_conj'):
        calls = {x for x in _subterms(rets[0]) if isinstance(x, tuple) and x[0] == 'mcall' and x[1].startswith(LRA + 'new_')}
        ok = calls == {('mcall', LRA + 'new_geq', 'this', 'left', 'right'), ('mcall', LRA + 'new_leq', 'this', 'left', 'right')}
    ctx.instance(rid, f.id, {'returns': show(rets[0]) if rets else None})
    if not ok:
        ctx.finding(rid, f.id, 'conj', 'lra_theory::new_eq must be the conjunction of new_geq and new_leq on the same operands (found %s)' % (show(rets[0]) if rets else None), loc=f.loc)


def r5(ctx, fs):
    rid = 'C11.R5'
    ctx.rule(rid, 'lb(lin)/ub(lin): constant + sum over all terms of (c > 0 ? own : opposite bound of v) * c, the two being exact duals; bounds(lin) likewise; '
                  'new_var(lin): cache by printed expression, slack bounds = lb(l)/ub(l) with TRUE reason, value = value(l), row = l', floor=6)
    fl = fs.fn(LRA + 'lb', params=['lin'])
    fu = fs.fn(LRA + 'ub', params=['lin'])
    for f, own, opp in ((fl, 'lb', 'ub'), (fu, 'ub', 'lb')):
        env = LocalEnv(f)
        env.param_roles(['l'])
        acc = env.local_role('b', lambda n, i: n.get('t') == 'smt::inf_rational')
        ok_init = env.init_of('b') == ('new', 'smt::inf_rational', ('.', 'l', 'known_term'))
        ok_loop = False
        for n in walk(f.body):
            if n.get('k') == 'CXXForRangeStmt' and canon(n['slots']['range'], env, subst=False) == ('.', 'l', 'vars'):
                b = n['slots']['var'].get('bindings') or [None, None]
                body = [canon(x, env, subst=False) for x in walk(n['slots']['body']) if x.get('k') == 'CXXOperatorCallExpr' and x.get('op') == '+=']
                want = ('+=', 'b', ('*', ('?:', ('call', 'smt::is_positive', b[1]), bound(own, b[0]), bound(opp, b[0])), b[1]))
                want = (want[0], want[1], tuple([want[2][0]] + sorted(want[2][1:], key=repr)))
                anyif = any(x.get('k') in ('IfStmt', 'ContinueStmt', 'BreakStmt') for x in walk(n['slots']['body']))
                ok_loop = body == [want] and not anyif
                if not ok_loop:
                    # the same decided on the paths of the loop body (`?:` inside the product, or an if / else with one `b += .. * c` per arm): a path has seen
                    # is_positive(c) and adds the bound of that side times c - nothing else
                    POS = ('call', 'smt::is_positive', b[1])
                    seen = set()
                    good = True
                    for p in enum_paths(n['slots']['body']):
                        pos = next((c[2] for c in p.conds if c[0] == 'if' and canon(c[1], env, subst=False) == POS), None)
                        adds = [canon(x, env, subst=False) for st in p.stmts for x in walk(st) if x.get('k') == 'CXXOperatorCallExpr' and x.get('op') == '+=']
                        others = [c for c in p.conds if not (c[0] == 'if' and canon(c[1], env, subst=False) == POS)]
                        w = ('+=', 'b', ('*',) + tuple(sorted((bound(own if pos else opp, b[0]), b[1]), key=repr)))
                        if pos is None or others or adds != [w] or p.end not in ('fall', 'continue'):
                            good = False
                        seen.add(pos)
                    ok_loop = good and seen == {True, False}
        rets = [canon(n['c'][0], env, subst=False) for n in f.nodes() if n.get('k') == 'ReturnStmt']
        ctx.instance(rid, [f.id, 'shape'], {'function': f.id, 'starts_from_constant': ok_init, 'sign_selected_sum_over_all_terms': ok_loop, 'returns': [show(r) for r in rets]})
        if not (ok_init and ok_loop and rets == ['b']):
            ctx.finding(rid, f.id, 'shape', 'lra_theory::%s(lin) must be known_term + sum over all terms of (is_positive(c) ? %s(v) : %s(v)) * c' % (own, own, opp), loc=f.loc)
    # new_var(lin)
    f = fs.fn(LRA + 'new_var', params=['lin'])
    env = LocalEnv(f, fs)
    env.param_roles(['l'])
    env.local_role('slack', lambda n, i: i == ('mcall', LRA + 'new_var', 'this'))
    env.local_role('s_expr', lambda n, i: n.get('t') in ('const std::basic_string<char>', 'std::basic_string<char>'))
    plain = LocalEnv(f)
    plain.rename = env.rename
    effs = [canon(s, plain, subst=False) for s in walk(f.body) if s.get('k') in ('CXXOperatorCallExpr', 'BinaryOperator', 'CXXMemberCallExpr')]
    want = {
        'key is the printed expression': plain.init_of('s_expr') == ('call', 'smt::to_string', 'l'),
        'lower bound seeded from lb(l)': ('=', ('[]', LRA + 'c_bounds', ('call', LRA + 'lb_index', 'slack')), ('list', bound('lb', 'l'), 'smt::TRUE_lit')) in effs,
        'upper bound seeded from ub(l)': ('=', ('[]', LRA + 'c_bounds', ('call', LRA + 'ub_index', 'slack')), ('list', bound('ub', 'l'), 'smt::TRUE_lit')) in effs,
        'value seeded from value(l)': ('=', ('[]', LRA + 'vals', 'slack'), ('mcall', LRA + 'value', 'this', 'l')) in effs,
        'row slack = l added': ('mcall', LRA + 'new_row', 'this', 'slack', 'l') in effs,
        'cached': any(e[0] == 'mcall' and e[1].endswith('::emplace') and e[2] == LRA + 'exprs' and e[3:] == ('s_expr', 'slack') for e in effs if isinstance(e, tuple)),
    }
    for k, v in want.items():
        ctx.instance(rid, [f.id, k], {'fact': k, 'holds': v})
        if not v:
            ctx.finding(rid, f.id, k, 'lra_theory::new_var(lin): "%s" does not hold - the slack variable would not denote the expression' % k, loc=f.loc)


ROUTE = {'lt': 'new_lt', 'leq': 'new_leq', 'eq': 'new_eq', 'geq': 'new_geq', 'gt': 'new_gt'}


def r6(ctx, fs, rid='C11.R6'):
    ctx.rule(rid, 'core::lt/leq/eq/geq/gt(arith,arith): operands of type tp go to rdl_theory::new_<rel>, all others to lra_theory::new_<rel>, with (left->l, right->l) in this order', floor=5)
    for nm, tgt in ROUTE.items():
        f = fs.fn('ratio::core::' + nm, params=['arith_expr', 'arith_expr'])
        env = LocalEnv(f)
        env.param_roles(['left', 'right'])
        got = {}
        for p in enum_paths(f.body):
            if p.end != 'return':
                continue
            conds = [(canon(c[1], env, subst=False), c[2]) for c in p.conds if c[0] == 'if']
            # the returned expression with the locals of this path resolved (a literal chosen in the arms of an if and returned after it)
            cnp = lambda n: canon(n, env, subst=False)
            rt = resolve_values(subst_terms(cnp(p.endnode['c'][0]), split_values(p, cnp)), path_values(p, cnp))
            calls = [x for x in _subterms(rt) if isinstance(x, tuple) and x[0] == 'mcall' and '_theory::new_' in str(x[1])]
            tp = None
            for ct, pol in conds:
                if 'ratio::TP_KEYWORD' in show(ct) or 'TP_KEYWORD' in show(ct) or "'tp'" in show(ct):
                    tp = pol
            got[tp] = calls
        L, R = ('.', 'left', 'l'), ('.', 'right', 'l')
        want_tp = [('mcall', 'smt::rdl_theory::' + tgt, 'ratio::core::rdl_th', L, R)]
        want_other = [('mcall', 'smt::lra_theory::' + tgt, 'ratio::core::lra_th', L, R)]
        ctx.instance(rid, f.id, {'function': f.id, 'tp': [show(x) for x in got.get(True, [])], 'other': [show(x) for x in got.get(False, [])]})
        if got.get(True) != want_tp or got.get(False) != want_other:
            ctx.finding(rid, f.id, 'route', 'core::%s must build rdl_theory::%s for tp operands and lra_theory::%s otherwise, on (left->l, right->l); found tp: %s, other: %s' % (
                nm, tgt, tgt, [show(x) for x in got.get(True, [])], [show(x) for x in got.get(False, [])]), loc=f.loc)


def run(ctx):
    fs = ctx.facts('P')
    r1_r2(ctx, fs)
    r4(ctx, fs)
    r5(ctx, fs)
    r6(ctx, fs)
    # the builders work on smt::lin / rational values (differences, scaling, the sharing key): what a relation literal means rests on the exactness
    # of that arithmetic (C15), evaluated here under its own rule ids
    ctx.include('C15')
    # ... and what a literal means when it is true / false is the bound that lra_theory::propagate asserts for it (C09.R3 and the rest of that pack)
    ctx.include('C09')
