"""C05 - reusable-resource usage never exceeds capacity (DESIGN 4, C05).

R1  solution gate (C01.R1).
R2  usage = sum of the amounts of ALL overlapping active atoms; peak iff usage > capacity (strict) with the capacity of that resource;
    minimal conflict sets: window grows while usage <= capacity, each one found is reported exactly once, unconditionally.
R3  sweep agreement with the timeline extractor (same sweep, same accumulation).
R4  new_atom: no unification of Use atoms ({!phi, sigma}), Use rule applied to facts under sigma, ordering variables against every atom.
R5  the synthetic constructor requires capacity >= 0 and the Use predicate amount >= 0 (and is an Interval).
R6  ordering literals mean what their index says; both orders offered.
"""
from ..expr import LocalEnv, canon, show
from ..facts import AnalysisBroken, short, src, walk, walk_nolambda
from ..schema import posted, show_clause
from . import _smart
from .C01 import gate

RR = 'ratio::reusable_resource'


def _usage_loop(f, env, scope):
    """(loop, accumulated term, accumulator name) of `for (a : overlapping_atoms) acc += arith_value(a->get(amount))` inside scope."""
    for n in walk(scope):
        if n.get('k') == 'CXXForRangeStmt' and canon(n['slots']['range'], env, subst=False) == 'overlapping_atoms':
            a = n['slots']['var'].get('name')
            adds = [canon(m, env) for m in walk(n['slots']['body']) if m.get('k') == 'CXXOperatorCallExpr' and m.get('op') in ('+=', '-=', '=')]
            cond = any(m.get('k') in ('IfStmt', 'ContinueStmt', 'BreakStmt') for m in walk(n['slots']['body']))
            return n, a, adds, cond
    return None


def _atoms(t):
    out = set()
    st = [t]
    while st:
        x = st.pop()
        if isinstance(x, tuple):
            st.extend(x)
        else:
            out.add(x)
    return out


def r2(ctx, fs):
    rid = 'C05.R2'
    ctx.rule(rid, 'reusable_resource::get_current_incs: active atoms only; at every pulse usage += arith_value(amount) for every overlapping atom, unconditionally; peak iff usage > capacity of the resource instance; '
                  'MCS window grows while mcs_usage <= capacity, an MCS is reported (one choice set, unconditionally) iff mcs_usage > capacity, then shrinks from the front', floor=5)
    f = fs.fn(RR + '::get_current_incs')
    env = LocalEnv(f)
    _smart.active_partition(ctx, rid, f, RR)
    ul = _usage_loop(f, env, f.body)
    ok = False
    if ul:
        n, a, adds, cond = ul
        s = show(adds[0]) if adds else ''
        ok = len(adds) == 1 and adds[0][0] == '+=' and isinstance(adds[0][1], str) and 'core::arith_value' in s and "(mcall env::get %s " % a in s and "'amount'" in s and not cond
        U = adds[0][1] if adds else None       # the accumulator, whatever it is called
    else:
        U = None
    if True:
        pass
    ctx.instance(rid, [f.id, 'usage'], {'accumulation': [show(x)[:200] for x in (ul[2] if ul else [])], 'unconditional': bool(ul) and not ul[3]})
    if not ok:
        ctx.finding(rid, f.id, 'usage', 'reusable_resource::get_current_incs: the concurrent usage must add the amount of every overlapping atom (c_usage += arith_value(a->get(amount)), no filter)', node=ul[0] if ul else None, loc=f.loc)
    # capacity of the instance
    cap = None
    for d, nd in env.decls.items():
        if nd.get('name') == 'c_capacity' or (nd.get('t') == 'smt::inf_rational' and isinstance(nd.get('init'), dict) and "'capacity'" in show(canon(nd['init'], env))):
            cap = canon(nd['init'], env)
            env.rename[d] = 'c_capacity'
    okc = cap is not None and 'core::arith_value' in show(cap) and "'capacity'" in show(cap) and '(mcall env::get rr ' in show(cap)
    ctx.instance(rid, [f.id, 'capacity'], {'capacity': show(cap)[:200]})
    if not okc:
        ctx.finding(rid, f.id, 'capacity', 'the capacity compared with must be the current value of the capacity field of the resource instance being checked (found %s)' % show(cap)[:200], loc=f.loc)
    peak = [n for n in f.nodes() if n.get('k') == 'IfStmt' and U is not None and U in _atoms(canon(n['slots']['cond'], env, subst=False))]
    pk = canon(peak[0]['slots']['cond'], env, subst=False) if peak else None
    ctx.instance(rid, [f.id, 'peak'], {'peak_test': show(pk)})
    if pk != ('<', 'c_capacity', U):
        ctx.finding(rid, f.id, 'peak', 'a pulse is a peak iff the usage exceeds the capacity (c_usage > c_capacity); found %s' % show(pk), node=peak[0] if peak else None, loc=f.loc, expect='c_usage > c_capacity')
    # MCS window
    # the MCS usage accumulator: the local compared with the capacity in the condition of the window-growing loop
    M = None
    grow = []
    for n in f.nodes():
        if n.get('k') == 'WhileStmt':
            c = canon(n['slots']['cond'], env, subst=False)
            for x in (c[1:] if isinstance(c, tuple) and c[0] == '&&' else (c,)):
                if isinstance(x, tuple) and len(x) == 3 and x[0] == '<=' and x[2] == 'c_capacity' and isinstance(x[1], str):
                    M = x[1]
                    grow = [n]
    gc = canon(grow[0]['slots']['cond'], env, subst=False) if grow else None
    okg = isinstance(gc, tuple) and gc[0] == '&&' and ('<=', M, 'c_capacity') in gc
    INCS = [nd.get('name') for nd in env.decls.values() if nd.get('t') == 'std::vector<std::vector<std::pair<smt::lit, double>>>']
    rep = [n for n in f.nodes() if n.get('k') == 'IfStmt' and M is not None and canon(n['slots']['cond'], env, subst=False) == ('<', 'c_capacity', M)]
    okr = False
    if len(rep) == 1:
        body = rep[0]['slots']['then']
        direct = [s for s in (body.get('c') or []) if s.get('k') == 'CXXMemberCallExpr' and (s.get('callee_name') or '').endswith('::emplace_back') and canon(s['c'][0]['c'][0], env, subst=False) in INCS]
        alls = [m for m in walk(body) if m.get('k') == 'CXXMemberCallExpr' and (m.get('callee_name') or '').endswith('::emplace_back') and canon(m['c'][0]['c'][0], env, subst=False) in INCS]
        shrink = [canon(m, env) for m in (body.get('c') or []) if m.get('k') == 'CXXOperatorCallExpr' and m.get('op') == '-=']
        pops = [m for m in (body.get('c') or []) if m.get('k') == 'CXXMemberCallExpr' and (m.get('callee_name') or '').endswith('::pop_front')]
        okr = len(direct) == 1 and len(alls) == 1 and len(shrink) == 1 and shrink[0][1] == M and "'amount'" in show(shrink[0]) and 'front' in show(shrink[0]) and len(pops) == 1
    ctx.instance(rid, [f.id, 'mcs'], {'grow_while': show(gc), 'report_once_and_shrink': okr})
    if not okg or not okr:
        ctx.finding(rid, f.id, 'mcs', 'the minimal-conflict-set window must grow while mcs_usage <= capacity, report exactly one choice set when mcs_usage > capacity and then drop its first atom', loc=f.loc)
    accs = [canon(m, env) for n in grow for m in walk(n['slots']['body']) if m.get('k') == 'CXXOperatorCallExpr' and m.get('op') == '+=']
    if not accs or accs[0][1] != M or "'amount'" not in show(accs[0]):
        ctx.finding(rid, f.id, 'mcs/usage', 'the MCS usage must accumulate the amount of every atom added to the window', loc=f.loc)


def r3(ctx, fs):
    rid = 'C05.R3'
    ctx.rule(rid, 'reusable_resource::get_current_incs and ::extract_timelines: same sweep (start/end read, add starting before removing ending) and the same unconditional usage accumulation', floor=7)
    accs = {}
    for nm in ('get_current_incs', 'extract_timelines'):
        f = fs.fn(RR + '::' + nm)
        env = LocalEnv(f)
        if nm == 'extract_timelines':
            _smart.active_partition(ctx, rid, f, RR)
        _smart.sweep(ctx, rid, f, RR)
        ul = _usage_loop(f, env, f.body)
        if ul is None:
            raise AnalysisBroken('%s: usage accumulation loop not found' % f.id)
        n, a, adds, cond = ul
        from ..schema import _rename
        accs[nm] = (tuple(_rename(x, {a: '$a', (adds[0][1] if adds and isinstance(adds[0], tuple) and len(adds[0]) > 1 and isinstance(adds[0][1], str) else '$none'): '$u'}) for x in adds), cond)      # the accumulator by role
        ctx.instance(rid, [f.id, 'usage'], {'accumulation': [show(x)[:200] for x in accs[nm][0]], 'conditional': cond})
    if accs['get_current_incs'] != accs['extract_timelines']:
        f = fs.fn(RR + '::extract_timelines')
        ctx.finding(rid, f.id, 'usage-sibling', 'the usage shown in the extracted timeline is not computed like the usage that is checked against the capacity: %s vs %s' % (
            [show(x)[:160] for x in accs['extract_timelines'][0]], [show(x)[:160] for x in accs['get_current_incs'][0]]), loc=f.loc)


def r4(ctx, fs):
    rid = 'C05.R4'
    ctx.rule(rid, 'reusable_resource::new_atom posts {!phi, sigma} (a Use atom is never unified away), applies the Use rule to facts under sigma, stores ordering variables against every atom', floor=3)
    f = fs.fn(RR + '::new_atom')
    env = LocalEnv(f, fs)
    env.param_roles(['f'])
    _, cl = posted(fs, f, env=env)
    got = [c for c, _, _ in cl]
    ok = len(got) == 1 and got[0][0] == () and len(got[0][1]) == 2 and ('!', ('.', 'f', 'phi')) in got[0][1] and any(isinstance(l, tuple) and l[0] == 'lit' and 'sigma' in show(l) for l in got[0][1])
    thr = all(any(a.get('k') == 'IfStmt' and any(m.get('k') == 'CXXThrowExpr' for m in walk(a['slots']['then'])) for a in f.ancestors(n)) for _, _, n in cl)
    ctx.instance(rid, [f.id, 'no-unification'], {'posted': [show_clause(c) for c in got], 'failure_throws': thr})
    if not ok or not thr:
        ctx.finding(rid, f.id, 'no-unification', 'reusable_resource::new_atom must post {!phi, sigma}: an active Use atom that is unified with another one would not be counted in the usage', loc=f.loc)
    _smart.new_atom(ctx, rid, f, RR, 'u_pred')
    _smart.notify_smart_types(ctx, rid, fs)
    _smart.recheck_set_grow_only(ctx, rid, fs, RR)


def r5(ctx, fs):
    rid = 'C05.R5'
    ctx.rule(rid, 'the synthetic constructor of ReusableResource executes `capacity >= 0.0`; the synthetic Use predicate executes `amount >= 0.0` and has Interval as supertype', floor=3)
    for fn, fld in ((RR + '::rr_constructor::rr_constructor', 'capacity'), (RR + '::use_predicate::use_predicate', 'amount')):
        f = fs.fn(fn)
        init = None
        for io in f.get('inits') or ():
            if io.get('base') in ('ratio::constructor', 'ratio::predicate'):
                init = canon(io['init'], None)
                # the syntax tree may be built by a helper that the reviewed inventory does not know and that could not be put in its place: not readable here
                for x in walk(io['init']):
                    h = fs.fns.get(x.get('callee')) if x.get('callee') else None
                    if h is not None and h.d.get('_new_helper'):
                        raise AnalysisBroken('%s: the statements of the synthetic %s are built by %s, a helper this rule cannot see through' % (f.id, 'constructor' if 'constructor' in fn else 'predicate', h.id))
        s = show(init)
        geqs = [x for x in _subs(init) if isinstance(x, tuple) and x[0] == 'new*' and x[1] == 'ratio::ast::geq_expression']
        ok = False
        if len(geqs) == 1:
            g = show(geqs[0])
            i_id = g.find("'%s'" % fld)
            i_zero = g.find('rational::ZERO')
            ok = 0 <= i_id < i_zero and 'ast::id_expression' in g and 'ast::real_literal_expression' in g and 'ast::expression_statement' in s
        ctx.instance(rid, [f.id, 'constraint'], {'constructor': f.id, 'constraint': (show(geqs[0])[:260] if geqs else None)})
        if not ok:
            ctx.finding(rid, f.id, 'constraint', '%s must carry the statement `%s >= 0.0` (found %s)' % (f.name, fld, show(geqs[0])[:200] if geqs else None), loc=f.loc, expect='%s >= 0.0' % fld)
    f = fs.fn(RR + '::use_predicate::use_predicate')
    calls = [show(canon(n)) for n in f.nodes() if n.get('callee_name') in ('ratio::type::new_supertypes',)]
    ok = any("'Interval'" in c or 'RATIO_INTERVAL' in c for c in calls)
    ctx.instance(rid, [f.id, 'interval'], {'supertypes': [c[:200] for c in calls]})
    if not ok:
        ctx.finding(rid, f.id, 'interval', 'the Use predicate must be an Interval (start / end / duration and their constraints)', loc=f.loc)
    # the capacity field and the Use predicate are registered on the type
    f = fs.fn(RR + '::reusable_resource')
    s = ' '.join(show(canon(n)) for n in f.nodes() if n.get('k') in ('CXXMemberCallExpr', 'CallExpr'))
    if "'capacity'" not in s or 'new_predicates' not in s or 'new_constructors' not in s:
        ctx.finding(rid, f.id, 'register', 'reusable_resource must declare the capacity field, its constructor and the Use predicate', loc=f.loc)


def _subs(t):
    yield t
    if isinstance(t, tuple):
        for x in t:
            yield from _subs(x)


def r6(ctx, fs):
    rid = 'C05.R6'
    ctx.rule(rid, 'reusable_resource::store_variables: leqs[X][Y] = new_leq(end of X, start of Y), both directions in every tau case; rr_flaw::compute_resolvers offers both orders, forbid and place; '
                  'listener forwards all four callbacks', floor=10)
    _smart.ordering_stores(ctx, rid, fs.fn(RR + '::store_variables'), RR, 'new_leq')
    _smart.resolvers_both_orders(ctx, rid, fs.fn(RR + '::rr_flaw::compute_resolvers'), RR)
    _smart.listeners(ctx, rid, fs, RR + '::rr_atom_listener', 'to_check')
    _smart.listener_base(ctx, rid, fs)


def run(ctx):
    fs = ctx.facts('P')
    ctx.rule('C05.R1', 'solution gate of solver::solve (see C01.R1)', floor=2)
    for c in ('P', 'F'):
        gate(ctx, 'C05.R1', ctx.facts(c), c)
    ctx.cfg = 'P'
    r2(ctx, fs)
    r3(ctx, fs)
    r4(ctx, fs)
    r5(ctx, fs)
    r6(ctx, fs)
