"""C17 - object-oriented RIDDLE semantics: domains, fields, inheritance (DESIGN 4, C17).

R1  registration completeness: type::new_instance, predicate::new_instance and type::new_predicates(notify) reach every transitive supertype.
R2  domains: type::new_existential ranges over all instances (singleton returned directly); enum_type::get_all_instances = own values
    plus, recursively, the values of every included enum; enum_type::new_instance builds its variable from that set.
R3  constructor phases: supertypes -> initialiser list -> default fields (only the still unset ones) -> body, on every path.
R4  field access through an object variable: one value literal per distinct field value, pairwise exclusion, derived variable tied
    to the field of every value ({!l_i, field == val_i} in all four primitive arms of core::new_enum).
R5  formula_statement::execute: values of an object-variable argument that are not assignable to the parameter type are excluded,
    and the statement is inconsistent when none remains; unset parameters get a fresh instance / an existential over all instances.
R6  new_eq / equates sibling agreement of the item classes.
"""
from ..expr import LocalEnv, canon, show
from ..facts import AnalysisBroken, kids, short, src, walk, walk_nolambda
from ..schema import posted, show_clause
from ..tables import VecBuilder, enum_paths, fmt_items
from .. import cfg


def bfs_all_supertypes(f, env, action_pred):
    """does f contain  q.push(start); while (!q.empty()) { ACTION(q.front()); for (st : q.front()->supertypes) q.push(st); q.pop(); } ?"""
    for n in f.nodes():
        if n.get('k') != 'WhileStmt':
            continue
        # the visited type may be read into a local first (`type *const t = q.front();`): that local plays the role of q.front()
        for m in walk(n['slots']['body']):
            if m.get('k') == 'VarDecl' and isinstance(m.get('init'), dict) and m.get('loc') not in env.rename:
                ci = canon(m['init'], env, subst=False)
                if isinstance(ci, tuple) and ci[0] == 'mcall' and str(ci[1]).endswith('::front') and len(ci) == 3:
                    env.rename[m['loc']] = '%s.front()' % ci[2]
        c = show(canon(n['slots']['cond'], env, subst=False))
        if not (c.startswith('(! (mcall queue') and c.endswith('::empty q))')) and 'empty' not in c:
            continue
        body = n['slots']['body']
        loops = [m for m in walk(body) if m.get('k') == 'CXXForRangeStmt' and 'supertypes' in show(canon(m['slots']['range'], env, subst=False)) and 'front' in show(canon(m['slots']['range'], env, subst=False))]
        push_all = False
        for l in loops:
            pushes = [x for x in walk(l['slots']['body']) if x.get('k') == 'CXXMemberCallExpr' and (x.get('callee_name') or '').endswith('::push')]
            cond = any(x.get('k') in ('IfStmt', 'BreakStmt', 'ContinueStmt') for x in walk(l['slots']['body']))
            guarded = False
            for a in f.ancestors(l):
                if a is n:
                    break
                if a.get('k') in ('IfStmt', 'SwitchStmt', 'ConditionalOperator'):
                    # `if (q.front() == this) return true; else { visit }` (is_assignable_from) is a search, handled by its own rule
                    guarded = True
            if pushes and not cond and (not guarded or f.name.endswith('is_assignable_from')):
                push_all = True
        pops = [x for x in walk(body) if x.get('k') == 'CXXMemberCallExpr' and (x.get('callee_name') or '').endswith('::pop')]
        early = [x for x in walk_nolambda(body) if x.get('k') in ('BreakStmt', 'ReturnStmt') and not any(a.get('k') == 'CXXForRangeStmt' for a in f.ancestors(x) if a is not n and any(y is a for y in walk(body)))]
        act = action_pred(body)
        if push_all and pops and act and not early:
            return True
    return False


def subtyping_recursive(ctx, rid, f, env):
    """the recursive form of the subtyping test:  this == &t  ||  exists st in t.supertypes . is_assignable_from(*st)
    - the base case returns true; the loop over the supertypes of the argument returns (true) only when the recursive call on that supertype
    holds, so that every supertype is tried; after the loop the answer is false."""
    def rec(t, over):
        return isinstance(t, tuple) and t[0] == 'mcall' and t[1] == 'ratio::type::is_assignable_from' and len(t) == 4 and t[2] == 'this' and show(t[3]) == over
    base = any(n.get('k') == 'IfStmt' and show(canon(n['slots']['cond'], env, subst=False)) in ('(== t this)', '(== this t)')
               and any(r.get('k') == 'ReturnStmt' and show(canon(r['c'][0], env)) == 'true' for r in walk(n['slots']['then']))
               and not any(a.get('k') in ('CXXForRangeStmt', 'WhileStmt', 'ForStmt', 'IfStmt') for a in f.ancestors(n)) for n in f.nodes())
    loops = [n for n in f.nodes() if n.get('k') == 'CXXForRangeStmt' and show(canon(n['slots']['range'], env, subst=False)) in ('(. t supertypes)', '(member t supertypes)', 't.supertypes')]
    if not loops:
        loops = [n for n in f.nodes() if n.get('k') == 'CXXForRangeStmt' and 'supertypes' in show(canon(n['slots']['range'], env, subst=False)) and ' t' in show(canon(n['slots']['range'], env, subst=False))]
    if not loops:
        raise AnalysisBroken('%s: neither the worklist form (a std::queue of types) nor a loop over the supertypes of the argument: the form of the subtyping test is not one this rule can read' % f.id)
    every = False
    for l in loops:
        if any(a.get('k') in ('IfStmt', 'CXXForRangeStmt', 'WhileStmt', 'ForStmt') for a in f.ancestors(l)):
            continue
        var = l['slots']['var']
        vname = env.rename.get(var.get('loc')) or var.get('name')
        rets = [r for r in walk_nolambda(l['slots']['body']) if r.get('k') == 'ReturnStmt']
        exits = [r for r in walk_nolambda(l['slots']['body']) if r.get('k') in ('BreakStmt', 'GotoStmt')]
        good = bool(rets) and not exits
        for r in rets:
            guards = [a for a in f.ancestors(r) if a.get('k') == 'IfStmt' and any(x is a for x in walk(l['slots']['body']))]
            in_then = [a for a in guards if any(x is r for x in walk(a['slots']['then']))]
            if not (show(canon(r['c'][0], env)) == 'true' and len(guards) == 1 and in_then and rec(canon(guards[0]['slots']['cond'], env, subst=False), vname)):
                good = False
        every = every or good
    tail = f.body['c'][-1] if f.body.get('c') else None
    last = tail is not None and tail.get('k') == 'ReturnStmt' and show(canon(tail['c'][0], env)) == 'false'
    ctx.instance(rid, [f.id, 'subtyping'], {'form': 'recursive', 'base_case_this_is_the_argument': base, 'every_supertype_is_tried': every, 'false_after_the_loop': last})
    if not (base and every and last):
        ctx.finding(rid, f.id, 'subtyping', 'type::is_assignable_from must return true iff this type is the argument or one of its transitive supertypes '
                    '(recursive form: base case %s, every supertype of the argument tried %s, false after the loop %s)' % (base, every, last), loc=f.loc)


def r1(ctx, fs):
    rid = 'C17.R1'
    ctx.rule(rid, 'breadth-first visit of ALL supertypes (no filter, no early exit) in type::new_instance (instance appended to each), predicate::new_instance (atom appended to each) and '
                  'type::new_predicates (new_predicate notified to each when notify is set)', floor=3)
    cases = [
        ('ratio::type::new_instance', lambda body, env: any((x.get('callee_name') or '').endswith('::push_back') and 'instances' in show(canon(x, env, subst=False)) and 'front' in show(canon(x, env, subst=False)) for x in walk(body) if x.get('k') == 'CXXMemberCallExpr')),
        ('ratio::predicate::new_instance', lambda body, env: any((x.get('callee_name') or '').endswith('::push_back') and 'instances' in show(canon(x, env, subst=False)) and 'front' in show(canon(x, env, subst=False)) for x in walk(body) if x.get('k') == 'CXXMemberCallExpr')),
        ('ratio::type::new_predicates', lambda body, env: any(x.get('callee_name') == 'ratio::type::new_predicate' and 'front' in show(canon(x, env, subst=False)) for x in walk(body) if x.get('k') == 'CXXMemberCallExpr')),
    ]
    for name, act in cases:
        f = fs.fn(name)
        env = LocalEnv(f)
        env.local_role('q', lambda n, i: 'std::queue<' in (n.get('t') or ''))
        ok = bfs_all_supertypes(f, env, lambda body, act=act, env=env: act(body, env))
        seed = any(canon(n, env, subst=False)[:3] == ('mcall', [x for x in [n.get('callee_name')]][0], 'q') and canon(n, env, subst=False)[3] == 'this' for n in f.nodes()
                   if n.get('k') == 'CXXMemberCallExpr' and (n.get('callee_name') or '').endswith('::push') and len(canon(n, env, subst=False)) == 4)
        ctx.instance(rid, [f.id, 'bfs'], {'function': f.id, 'visits_every_supertype': ok, 'starts_at_this': seed})
        if not ok or not seed:
            ctx.finding(rid, f.id, 'bfs', '%s must register with the type itself and with every transitive supertype (complete breadth-first visit)' % f.name, loc=f.loc)
    f = fs.fn('ratio::type::new_predicates')
    env = LocalEnv(f)
    env.param_roles(['ps', 'notify'])
    wl = [n for n in f.nodes() if n.get('k') == 'WhileStmt']
    guards = [show(canon(a['slots']['cond'], env, subst=False)) for a in f.ancestors(wl[0]) if a.get('k') == 'IfStmt'] if wl else None
    if guards != ['notify']:
        ctx.finding(rid, f.id, 'notify', 'type::new_predicates: the notification of the supertypes must depend on `notify` only (found %s)' % guards, loc=f.loc)
    f = fs.fn('ratio::type::is_assignable_from')
    env = LocalEnv(f)
    env.param_roles(['t'])
    if env.local_role('q', lambda n, i: 'std::queue<' in (n.get('t') or ''), optional=True) is None:
        return subtyping_recursive(ctx, rid, f, env)
    rets = sorted(show(canon(n['c'][0], env)) for n in f.nodes() if n.get('k') == 'ReturnStmt')
    hit = any(n.get('k') == 'IfStmt' and canon(n['slots']['cond'], env, subst=False) == ('==', ) + tuple(sorted((('mcall', 'std::queue<const ratio::type *>::front', 'q'), 'this'), key=repr)) for n in f.nodes())
    ctx.instance(rid, [f.id, 'subtyping'], {'returns': rets, 'compares_each_visited_type_with_this': hit})
    if rets != ['false', 'true'] or not hit:
        ctx.finding(rid, f.id, 'subtyping', 'type::is_assignable_from must return true iff this type is the argument or one of its transitive supertypes', loc=f.loc)


def r2(ctx, fs):
    rid = 'C17.R2'
    ctx.rule(rid, 'type::new_existential: single instance returned as is, otherwise an object variable over ALL instances; enum_type::get_all_instances: own values + recursively every included enum, '
                  'unconditionally; enum_type::new_instance = new_enum over get_all_instances()', floor=4)
    f = fs.fn('ratio::type::new_existential')
    env = LocalEnv(f)
    vecs = [d for d, n in env.decls.items() if 'std::vector<ratio::item *>' in (n.get('t') or '')]
    ok_all = False
    for n in f.nodes():
        if n.get('k') == 'CXXForRangeStmt' and canon(n['slots']['range'], env, subst=False) == 'ratio::type::instances':
            pushes = [x for x in walk(n['slots']['body']) if x.get('k') == 'CXXMemberCallExpr' and (x.get('callee_name') or '').endswith('::push_back')]
            cond = any(x.get('k') in ('IfStmt', 'BreakStmt', 'ContinueStmt') for x in walk(n['slots']['body']))
            ok_all = len(pushes) == 1 and not cond
    rets = {}
    for p in enum_paths(f.body):
        if p.end == 'return':
            conds = tuple((show(canon(c[1], env, subst=False)), c[2]) for c in p.conds if c[0] == 'if')
            rets[conds] = show(canon(p.endnode['c'][0], env, subst=False))
    single = [v for k, v in rets.items() if k and k[-1][1] is True and 'size' in k[-1][0] and ' 1)' in k[-1][0]]
    multi = [v for k, v in rets.items() if k and k[-1][1] is False]
    ok = ok_all and single and 'cbegin' in single[0] and multi and 'core::new_enum' in multi[0]
    ctx.instance(rid, [f.id, 'domain'], {'all_instances_collected': ok_all, 'returns': {str(k): v[:120] for k, v in rets.items()}})
    if not ok:
        ctx.finding(rid, f.id, 'domain', 'type::new_existential must range over every instance of the type (the only one when there is just one)', loc=f.loc)
    f = fs.fn('ratio::enum_type::get_all_instances')
    env = LocalEnv(f)
    own = inc = False
    for n in f.nodes():
        if n.get('k') == 'CXXForRangeStmt':
            r = canon(n['slots']['range'], env, subst=False)
            cond = any(x.get('k') in ('IfStmt', 'BreakStmt', 'ContinueStmt') for x in walk(n['slots']['body']))
            if r == 'ratio::type::instances':
                own = not cond and any((x.get('callee_name') or '').endswith('::push_back') for x in walk(n['slots']['body']))
            if r == 'ratio::enum_type::enums':
                v = n['slots']['var'].get('name')
                rec = [canon(x, env, subst=False) for x in walk(n['slots']['body']) if x.get('callee_name') == 'ratio::enum_type::get_all_instances']
                ins = [x for x in walk(n['slots']['body']) if x.get('k') == 'CXXMemberCallExpr' and (x.get('callee_name') or '').endswith('::insert')]
                # the values of the included enum are appended: one range insert, or an unconditional loop over them that appends each one
                app = len(ins)
                for m in walk(n['slots']['body']):
                    if m.get('k') == 'CXXForRangeStmt' and m is not n:
                        rr = canon(m['slots']['range'], env)
                        ev = m['slots']['var'].get('name')
                        pushes = [canon(x, env, subst=False) for x in walk(m['slots']['body']) if x.get('k') == 'CXXMemberCallExpr' and (x.get('callee_name') or '').endswith('::push_back')]
                        plain = not any(x.get('k') in ('IfStmt', 'BreakStmt', 'ContinueStmt') for x in walk(m['slots']['body']))
                        if isinstance(rr, tuple) and rr[:2] == ('mcall', 'ratio::enum_type::get_all_instances') and plain and len(pushes) == 1 and pushes[0][-1] == ev:
                            app += 1
                cond = any(x.get('k') in ('IfStmt', 'BreakStmt', 'ContinueStmt') for x in walk(n['slots']['body']))
                inc = not cond and len(rec) == 1 and rec[0][2] == v and app == 1
    ctx.instance(rid, [f.id, 'union'], {'own_values': own, 'included_enums_recursively': inc})
    if not (own and inc):
        ctx.finding(rid, f.id, 'union', 'enum_type::get_all_instances must return the declared values and, recursively, the values of every included enum', loc=f.loc)
    f = fs.fn('ratio::enum_type::new_instance')
    rets = [show(canon(n['c'][0], LocalEnv(f))) for n in f.nodes() if n.get('k') == 'ReturnStmt']
    ok = len(rets) == 1 and 'core::new_enum' in rets[0] and 'enum_type::get_all_instances this' in rets[0]
    ctx.instance(rid, [f.id, 'variable'], {'returns': rets})
    if not ok:
        ctx.finding(rid, f.id, 'variable', 'enum_type::new_instance must create a variable over get_all_instances()', loc=f.loc)
    f = fs.fn('ratio::core::new_enum', params=['type', 'std::vector<ratio::item'])
    rets = [show(canon(n['c'][0], LocalEnv(f))) for n in f.nodes() if n.get('k') == 'ReturnStmt']
    ok = len(rets) == 1 and 'ov_theory::new_var' in rets[0] and 'allowed_vals' in rets[0] or (len(rets) == 1 and 'ov_theory::new_var' in rets[0])
    ctx.instance(rid, [f.id, 'all-values'], {'returns': [r[:200] for r in rets]})
    if not ok:
        ctx.finding(rid, f.id, 'all-values', 'core::new_enum(type, values) must create an object variable over exactly the given values', loc=f.loc)


def r3(ctx, fs):
    rid = 'C17.R3'
    ctx.rule(rid, 'constructor::invoke: `this` and the arguments bound first; supertypes constructed (explicit initialiser or default constructor) before the assignment list, which precedes the default '
                  'initialisation of the fields not yet set (guarded by !exprs.count), which precedes the body; constructor::new_instance creates the instance through the type and then invokes', floor=5)
    f = fs.fn('ratio::constructor::invoke')
    env = LocalEnv(f)
    env.param_roles(['itm', 'exprs'])
    env.local_role('ctx', lambda n, i: (n.get('t') or '') == 'ratio::context')
    fl = [n for n in f.nodes() if n.get('k') == 'CXXForRangeStmt' and 'get_fields' in show(canon(n['slots']['range'], env, subst=False)) and len(n['slots']['var'].get('bindings') or ()) == 2]
    if not fl:
        raise AnalysisBroken('%s: the loop over the fields of the class (default initialisation) was not found' % f.id)

    def is_default_store(t):
        # an emplace into itm.exprs under the name of the field the (a) field loop is visiting
        for l in fl:
            if any(x is t for x in walk(l['slots']['body'])):
                return canon(t, env, subst=False)[3] == l['slots']['var']['bindings'][0]
        return False
    g = cfg.Graph(f)
    sup = g.events(lambda t: t.get('callee_name') == 'ratio::constructor::invoke')
    asg = g.events(lambda t: t.get('k') == 'CXXMemberCallExpr' and (t.get('callee_name') or '').endswith('::emplace') and 'init_list' in show(canon(t, env, subst=False)) and '(. itm exprs)' in show(canon(t, env, subst=False)))
    dfl = g.events(lambda t: t.get('k') == 'CXXMemberCallExpr' and (t.get('callee_name') or '').endswith('::emplace') and '(. itm exprs)' in show(canon(t, env, subst=False)) and is_default_store(t))
    body = g.events(lambda t: (t.get('callee_name') or '').endswith('statement::execute'))
    facts = {
        'supertype constructors before the assignment list': bool(sup and asg) and g.never_after(asg, sup),
        'assignment list before default initialisation': bool(asg and dfl) and g.never_after(dfl, asg),
        'default initialisation before the body': bool(dfl and body) and g.never_after(body, dfl) and g.never_after(body, asg) and g.never_after(body, sup),
    }
    # only unset, non-synthetic fields get a default: decided on the atomic decisions of the paths through the loop(s) over the fields
    guard_ok = True
    n_store_paths = 0
    for l in fl:
        bname = l['slots']['var']['bindings'][0]
        for p in enum_paths(l['slots']['body']):
            syn = cnt = None
            for kind, node, pol in p.conds:
                if kind != 'if':
                    continue
                c = canon(node, env, subst=False)
                if isinstance(c, tuple) and c[0] == 'mcall' and c[1] == 'ratio::field::is_synthetic':
                    syn = pol
                if isinstance(c, tuple) and c[0] == 'mcall' and str(c[1]).endswith('::count') and c[2] == ('.', 'itm', 'exprs') and c[3] == bname:
                    cnt = pol
            stores = [m for st in p.stmts for m in walk(st) if m.get('k') == 'CXXMemberCallExpr' and (m.get('callee_name') or '').endswith('::emplace') and
                      isinstance(canon(m, env, subst=False), tuple) and canon(m, env, subst=False)[2] == ('.', 'itm', 'exprs')]
            if stores:
                n_store_paths += 1
                if syn is not False or cnt is not False:
                    guard_ok = False
    facts['only unset, non-synthetic fields get a default'] = guard_ok and n_store_paths > 0
    sups = [n for n in f.nodes() if n.get('k') == 'CXXForRangeStmt' and 'get_supertypes' in show(canon(n['slots']['range'], env, subst=False))]
    facts['every supertype constructed (explicit or default)'] = len(sups) == 1 and len([m for m in walk(sups[0]['slots']['body']) if m.get('callee_name') == 'ratio::constructor::invoke']) == 2
    binds = [canon(n, env, subst=False) for n in f.nodes() if n.get('k') == 'CXXMemberCallExpr' and (n.get('callee_name') or '').endswith('::emplace') and '(. ctx exprs)' in show(canon(n, env, subst=False))]
    facts['`this` and every argument bound in the constructor context'] = any(('str', 'this') in b for b in binds) and any('args' in show(b) and 'exprs' in show(b[-1]) for b in binds)
    for k, v in facts.items():
        ctx.instance(rid, [f.id, k], {'fact': k, 'holds': v})
        if not v:
            ctx.finding(rid, f.id, k, 'constructor::invoke: "%s" does not hold - fields would not be set as written' % k, loc=f.loc)
    f = fs.fn('ratio::constructor::new_instance')
    env = LocalEnv(f)
    s = [show(canon(n, env, subst=False)) for n in f.nodes() if n.get('k') == 'CXXMemberCallExpr' and n.get('callee_name') in ('ratio::type::new_instance', 'ratio::constructor::invoke')]
    ok = len(s) == 2 and 'type::new_instance' in s[0] and 'constructor::invoke' in s[1]
    ctx.instance(rid, [f.id, 'create-then-invoke'], {'calls': s})
    if not ok:
        ctx.finding(rid, f.id, 'create-then-invoke', 'constructor::new_instance must create the instance through its type (registration with the supertypes) and then run the constructor on it', loc=f.loc)


def r4(ctx, fs):
    rid = 'C17.R4'
    ctx.rule(rid, 'var_item::get(field): a single possible value delegates to it; otherwise one literal per distinct field value (disjunction of the allows literals of the values sharing it), '
                  '{!v, !allows(other)} for every value of a different group, derived variable = new_enum(type of the field, literals, values); core::new_enum(type, lits, vals): {!l_i, x == val_i} for every i in all four primitive arms', floor=5)
    f = fs.fn('ratio::var_item::get')
    env = LocalEnv(f, fs)
    env.param_roles(['name'])
    _, cl = posted(fs, f, env=env)
    got = [c for c, _, _ in cl]
    ok = len(got) == 1 and len(got[0][1]) == 2 and all(isinstance(l, tuple) and l[0] == '!' for l in got[0][1]) and len([x for x in got[0][0] if x[0] == 'each']) == 3 and \
        any(x[0] == 'if' and x[1][0] == '!=' for x in got[0][0])
    ctx.instance(rid, [f.id, 'exclusion'], {'posted': [show_clause(c) for c in got]})
    if not ok:
        ctx.finding(rid, f.id, 'exclusion', 'var_item::get must make the literal of a field value exclude the allows-literal of every object whose field has a different value (found %s)' % [show_clause(c)[:200] for c in got], loc=f.loc)
    s = ' '.join(show(canon(n, env, subst=False)) for n in f.nodes() if n.get('k') == 'CXXMemberCallExpr' and n.get('callee_name') in ('smt::sat_core::new_disj', 'ratio::core::new_enum', 'smt::ov_theory::allows', 'smt::ov_theory::value'))
    facts = {
        'groups built from allows(ev, val) of every current value': 'ov_theory::allows' in s and 'ov_theory::value' in s,
        'group literal is the disjunction of its members': 'sat_core::new_disj' in s,
        'derived variable over the field type': 'core::new_enum' in s and 'get_field' in s.replace('type::get_field', 'get_field') or 'core::new_enum' in s,
    }
    for k, v in facts.items():
        ctx.instance(rid, [f.id, k], {'fact': k, 'holds': v})
        if not v:
            ctx.finding(rid, f.id, k, 'var_item::get: "%s" does not hold' % k, loc=f.loc)
    f = fs.fn('ratio::core::new_enum', params=['type', 'lit', 'item'])
    env = LocalEnv(f, fs)
    env.param_roles(['tp', 'lits', 'vals'])
    _, cl = posted(fs, f, env=env)
    ties = []
    for c, when, n in cl:
        loops = [x for x in c[0] if x[0] == 'for']
        if loops:
            lits = sorted(c[1], key=repr)
            neg = [l for l in lits if isinstance(l, tuple) and l[0] == '!' and l[1] == ('[]', 'lits', '$0')]
            eqs = [l for l in lits if isinstance(l, tuple) and l[0] == 'mcall' and l[1].endswith('::new_eq')]
            arm = [show(w[1]) for w in when if w[0] == 'if' and w[2] is True]
            ok = len(lits) == 2 and len(neg) == 1 and len(eqs) == 1 and '([] vals $0)' in show(eqs[0]) and loops[0][1:] == (('num', 0), ('<', '$0', ('mcall', 'std::vector<smt::lit>::size', 'lits')), ('++', '$0'))
            ties.append((arm[-1] if arm else '?', ok, show_clause(c)))
    ctx.instance(rid, [f.id, 'ties'], {'value_ties': [(a[:60], ok) for a, ok, _ in ties]})
    if len(ties) != 4 or not all(ok for _, ok, _ in ties):
        ctx.finding(rid, f.id, 'ties', 'core::new_enum(type, lits, vals): each primitive arm (bool, int, real, tp) must post {!lits[i], x == vals[i]} for every i (found %s)' % [(a[:40], ok, s[:120]) for a, ok, s in ties], loc=f.loc)
    theories = {'smt::sat_core::new_eq': 'BOOL', 'smt::lra_theory::new_eq': 'INT/REAL', 'smt::rdl_theory::new_eq': 'TP'}
    used = sorted({l[1] for c, _, _ in cl for l in c[1] if isinstance(l, tuple) and l[0] == 'mcall' and l[1].endswith('::new_eq')})
    if used != sorted(theories):
        pass
    new_enum_hull(ctx, fs, rid)
    if used != sorted(theories):
        ctx.finding(rid, f.id, 'theories', 'core::new_enum must tie bool values with sat_core::new_eq, int / real with lra_theory::new_eq and tp with rdl_theory::new_eq (found %s)' % used, loc=f.loc)


def new_enum_hull(ctx, fs, rid):
    """core::new_enum(type, lits, vals), arithmetic arms: the derived variable is folded to a constant only when ALL candidate values are the same
    constant, and the helping bounds enclose every candidate: min = least lower bound, max = greatest upper bound over vals (an exact dual pair),
    constant iff min == max, x >= min and x <= max."""
    f = fs.fn('ratio::core::new_enum', params=['type', 'lit', 'item'])
    env = LocalEnv(f)
    env.param_roles(['tp', 'lits', 'vals'])
    loops = [n for n in f.nodes() if n.get('k') == 'CXXForRangeStmt' and canon(n['slots']['range'], env, subst=False) == 'vals'
             and len(n['slots']['var'].get('bindings') or []) == 0]
    arms = 0
    for lp in loops:
        dec = [m for m in walk(lp['slots']['body']) if m.get('k') in ('DecompositionDecl',) or (m.get('k') == 'VarDecl' and m.get('bindings'))]
        binds = None
        for m in walk(lp['slots']['body']):
            if m.get('bindings') and len(m['bindings']) == 2:
                binds = m['bindings']
                init = m.get('init')
        if not binds:
            continue
        callee = [x.get('callee_name') for x in walk(init) if x.get('callee_name')] if init else []
        if not any((c or '').endswith('::bounds') for c in callee):
            continue
        arms += 1
        lo, hi = binds
        upd = []
        for m in walk(lp['slots']['body']):
            if m.get('k') == 'IfStmt':
                c = canon(m['slots']['cond'], env, subst=False)
                st = [canon(x, env, subst=False) for x in walk(m['slots']['then']) if x.get('k') in ('CXXOperatorCallExpr', 'BinaryOperator') and x.get('op') == '=']
                upd.append((c, st, m))
        roles = {}
        bad = []
        for c, st, m in upd:
            if len(st) != 1 or not isinstance(c, tuple) or c[0] not in ('<', '>', '<=', '>=') or len(c) != 3:
                bad.append(src(m))
                continue
            tgt, val = st[0][1], st[0][2]
            # normalise cond to tgt REL val
            if c[1] == tgt and c[2] == val:
                rel = c[0]
            elif c[2] == tgt and c[1] == val:
                rel = {'<': '>', '>': '<', '<=': '>=', '>=': '<='}[c[0]]
            else:
                bad.append(src(m))
                continue
            if val == lo and rel in ('>', '>='):
                roles['min'] = tgt
            elif val == hi and rel in ('<', '<='):
                roles['max'] = tgt
            else:
                bad.append(src(m))
        ok = not bad and set(roles) == {'min', 'max'} and roles['min'] != roles['max']
        par0 = f.parent(lp)
        before = list(kids(par0))
        before = before[:before.index(lp)]
        decl = {}
        for b in before:
            for m in walk(b):
                if m.get('k') == 'VarDecl' and m.get('init') is not None:
                    decl[m.get('name')] = show(canon(m['init'], env, subst=False))
        inits_ok = ok and 'POSITIVE_INFINITY' in decl.get(roles['min'], '') and 'NEGATIVE_INFINITY' in decl.get(roles['max'], '')
        key = [c for c in callee if (c or '').endswith('::bounds')][0].split('::')[1] + ':%d' % arms
        ctx.instance(rid, [f.id, 'hull', key], {'loop': short(lp.get('loc')), 'min': roles.get('min'), 'max': roles.get('max'), 'updates_ok': ok, 'inits_ok': inits_ok, 'unexpected': bad})
        if not ok or not inits_ok:
            ctx.finding(rid, f.id, 'hull:' + key, 'core::new_enum, arithmetic arm at %s: min must become the least lower bound (if (min > lb) min = lb, from +inf) and max the greatest upper bound (if (max < ub) max = ub, from -inf) '
                        'of the candidate values%s - otherwise candidates with different values are folded into one constant or cut off by the helping bounds, and the field read through the object variable is '
                        'no longer the field of the chosen object' % (short(lp.get('loc')), (' (unexpected: %s)' % '; '.join(bad)) if bad else ''), node=lp)
            continue
        # constant iff min == max ; bounds x >= min, x <= max
        mn, mx = roles['min'], roles['max']
        par = f.parent(lp)
        sibs = list(kids(par))
        after = sibs[sibs.index(lp) + 1:]
        cst = None
        for a in after:
            if a.get('k') == 'IfStmt':
                c = canon(a['slots']['cond'], env, subst=False)
                if isinstance(c, tuple) and c[0] == '==' and set(c[1:]) == {mn, mx}:
                    cst = a
        geq = leq = False
        for a in after:
            for x in walk(a):
                if x.get('k') == 'CXXMemberCallExpr' and (x.get('callee_name') or '').endswith('::new_geq'):
                    geq = geq or (mn in show(canon(x, env, subst=False)).split() or ('(mcall inf_rational::get_rational %s)' % mn) in show(canon(x, env, subst=False)))
                if x.get('k') == 'CXXMemberCallExpr' and (x.get('callee_name') or '').endswith('::new_leq'):
                    leq = leq or ('(mcall inf_rational::get_rational %s)' % mx) in show(canon(x, env, subst=False))
        ctx.instance(rid, [f.id, 'hull-use', key], {'constant_iff_min_eq_max': cst is not None, 'x_geq_min': geq, 'x_leq_max': leq})
        if cst is None or not geq or not leq:
            ctx.finding(rid, f.id, 'hull-use:' + key, 'core::new_enum, arithmetic arm at %s: the value is a constant only when min == max, and the helping bounds are x >= min and x <= max (found constant test: %s, >= min: %s, <= max: %s)'
                        % (short(lp.get('loc')), cst is not None, geq, leq), node=lp)
    if arms != 3:
        raise AnalysisBroken('%s: expected three arithmetic arms (int, real, tp) with a bounds loop, found %d' % (f.id, arms))


def r5(ctx, fs):
    rid = 'C17.R5'
    ctx.rule(rid, 'formula_statement::execute: an argument whose type is a supertype of the parameter type and that is an object variable gets !allows(v) asserted for every value not assignable to the parameter, '
                  'inconsistent when no value remains; unrelated types are inconsistent; every parameter of the predicate and of its super-predicates that is still unset gets a fresh instance (primitive) or an existential', floor=3)
    f = fs.fn('ratio::ast::formula_statement::execute')
    env = LocalEnv(f)
    env.param_roles(['scp', 'ctx'])
    vb = VecBuilder(f, env)
    nav = env.local_role('not_alwd_vals', lambda n, i: n.get('t') == 'std::vector<smt::lit>')
    its = vb.items.get(nav)
    ok = its is not None and len(its) == 1 and its[0][0] == 'ctx' and isinstance(its[0][2], tuple) and its[0][2][0] == '!' and 'ov_theory::allows' in show(its[0][2]) and \
        any(c[0] == 'if' and 'is_assignable_from' in show(c[1]) and show(c[1]).startswith('(! ') and c[2] is True for c in its[0][1]) and any(c[0] == 'each' for c in its[0][1])
    ctx.instance(rid, [f.id, 'narrowing'], {'excluded_values': fmt_items(its)[:300]})
    if not ok:
        ctx.finding(rid, f.id, 'narrowing', 'formula_statement::execute must exclude (assert !allows) exactly the values of the argument that are not assignable to the parameter type', loc=f.loc)
    # direction of the per-value test: the PARAMETER type must be assignable from the type of the value (receiver does not depend on the value, the argument does)
    dir_ok = False
    for n in f.nodes():
        if n.get('k') == 'CXXForRangeStmt' and 'alwd' in show(canon(n['slots']['range'], env, subst=False)) or (n.get('k') == 'CXXForRangeStmt' and 'ov_theory::value' in show(canon(n['slots']['range'], env))):
            lv = n['slots']['var'].get('name')
            for m in walk(n['slots']['body']):
                if m.get('k') == 'CXXMemberCallExpr' and m.get('callee_name') == 'ratio::type::is_assignable_from':
                    c = canon(m, env, subst=False)
                    recv, arg = show(c[2]), show(c[3])
                    dir_ok = (' %s)' % lv not in recv + ')' and lv not in recv.split()) and lv in arg.replace('(', ' ').replace(')', ' ').split()
    ctx.instance(rid, [f.id, 'narrowing-direction'], {'parameter_type_is_assignable_from_value_type': dir_ok})
    if not dir_ok:
        ctx.finding(rid, f.id, 'narrowing-direction', 'formula_statement::execute: a value of the argument is kept iff the PARAMETER type is assignable from the type of the value (tt.is_assignable_from(type of value)); '
                    'the reversed test keeps instances of supertypes of the parameter and drops instances of its subtypes', loc=f.loc)
    # every argument ends up in the atom: on every non-throwing path of the loop over the written arguments the evaluated expression is stored under the parameter name
    arg_loops = [n for n in f.nodes() if n.get('k') == 'CXXForRangeStmt' and len(n['slots']['var'].get('bindings') or ()) == 2 and show(canon(n['slots']['range'], env, subst=False)).endswith('formula_statement::assignments')]
    if len(arg_loops) != 1:
        raise AnalysisBroken('%s: the loop over the written arguments (assignments) was not found' % f.id)
    al = arg_loops[0]
    bname = al['slots']['var']['bindings'][0]
    n_paths = n_store = 0
    for p in enum_paths(al['slots']['body']):
        if p.end == 'throw':
            continue
        n_paths += 1
        stored = False
        for st in p.stmts:
            for m in walk(st):
                if m.get('k') == 'CXXMemberCallExpr' and (m.get('callee_name') or '').endswith('::emplace'):
                    c = canon(m, env, subst=False)
                    if isinstance(c, tuple) and len(c) == 5 and c[3] == ('.', bname, 'id') and not isinstance(c[2], tuple):
                        stored = True
        n_store += stored
    ctx.instance(rid, [f.id, 'argument-stored'], {'non_throwing_paths': n_paths, 'paths_storing_the_argument': n_store})
    if n_paths == 0 or n_store != n_paths:
        ctx.finding(rid, f.id, 'argument-stored', 'formula_statement::execute: on %d of %d non-throwing paths through the loop over the written arguments the evaluated argument is not stored in the atom: the parameter then '
                    'becomes a fresh variable unrelated to what was written (the narrowing branch must keep the narrowed variable)' % (n_paths - n_store, n_paths), node=al)
    calls = [canon(n, env, subst=False) for n in f.nodes() if n.get('callee_name') == 'ratio::core::assert_facts']
    okc = len(calls) == 1 and calls[0][-1] == 'not_alwd_vals'
    thr = [n for n in f.nodes() if n.get('k') == 'CXXThrowExpr']
    guards = []
    for t in thr:
        for a in f.ancestors(t):
            if a.get('k') == 'IfStmt':
                guards.append(show(canon(a['slots']['cond'], env, subst=False)))
                break
    empty_guard = any('size' in g and 'not_alwd_vals' in g and g.startswith('(== ') for g in guards)
    ctx.instance(rid, [f.id, 'inconsistent'], {'throw_sites': len(thr), 'no_value_left_is_inconsistent': empty_guard, 'exclusions_asserted': okc})
    if not okc or not empty_guard or len(thr) != 3:
        ctx.finding(rid, f.id, 'inconsistent', 'formula_statement::execute: the exclusions must be asserted, and the statement is inconsistent when no value remains, when a constant is not assignable and when the types are unrelated', loc=f.loc)
    env.local_role('q', lambda n, i: 'std::queue<' in (n.get('t') or ''))
    okb = bfs_all_supertypes(f, env, lambda body: any('get_args' in show(canon(x['slots']['range'], env, subst=False)) for x in walk(body) if x.get('k') == 'CXXForRangeStmt'))
    dflt = [show(canon(n, env, subst=False)) for n in f.nodes() if n.get('k') == 'CXXMemberCallExpr' and n.get('callee_name') in ('ratio::type::new_instance', 'ratio::type::new_existential')]
    ctx.instance(rid, [f.id, 'defaults'], {'inherited_parameters_visited': okb, 'defaults': dflt})
    if not okb or len(dflt) != 2:
        ctx.finding(rid, f.id, 'defaults', 'formula_statement::execute must give every unset parameter of the predicate and of all its super-predicates a fresh instance or an existential', loc=f.loc)


def r6(ctx, fs):
    rid = 'C17.R6'
    ctx.rule(rid, 'for bool_item, arith_item, var_item, string_item: new_eq and equates start with the identity case (TRUE_lit / true) and analyse the same dynamic-type cases in the same order; '
                  'arith_item routes tp operands to RDL and the others to LRA in both', floor=8)
    for cls in ('bool_item', 'arith_item', 'var_item', 'string_item'):
        shapes = {}
        for nm in ('new_eq', 'equates'):
            f = fs.fn('ratio::%s::%s' % (cls, nm))
            env = LocalEnv(f)
            env.param_roles(['i'])
            conds = []
            for n in f.nodes():
                if n.get('k') == 'IfStmt':
                    cv = n['slots'].get('condvar')
                    if cv is not None:
                        d = cv['c'][0]
                        conds.append(('dyncast', (d.get('t') or '').replace('const ', '').strip()))
                    else:
                        c = canon(n['slots']['cond'], env, subst=False)
                        if c == ('==', 'i', 'this') or c == ('==', 'this', 'i'):
                            conds.append(('identity',))
                        elif 'TP_KEYWORD' in show(c) or "'tp'" in show(c):
                            conds.append(('tp',))
            first_ret = None
            for p in enum_paths(f.body):
                if p.end == 'return' and p.conds and p.conds[0][0] == 'if' and p.conds[0][2] is True and len(p.conds) == 1:
                    first_ret = show(canon(p.endnode['c'][0], env, subst=False))
            shapes[nm] = (tuple(conds), first_ret)
            ctx.instance(rid, [f.id, 'shape'], {'function': f.id, 'cases': [c[0] + (':' + c[1] if len(c) > 1 else '') for c in conds], 'identity_returns': first_ret})
        a, b = shapes['new_eq'], shapes['equates']
        f = fs.fn('ratio::%s::equates' % cls)
        if a[0] != b[0]:
            ctx.finding(rid, f.id, 'cases', 'ratio::%s: new_eq analyses the cases %s but equates analyses %s: a candidate could be offered whose equality means something else' % (cls, a[0], b[0]), loc=f.loc)
        if a[1] != 'TRUE_lit' or b[1] != 'true':
            ctx.finding(rid, f.id, 'identity', 'ratio::%s: an item equals itself (new_eq -> TRUE_lit, equates -> true); found %s / %s' % (cls, a[1], b[1]), loc=f.loc)
    item_eq_tables(ctx, rid, fs)


def item_eq_tables(ctx, rid, fs):
    """new_eq of the item classes, decided on the paths: TRUE_lit only for the item itself (for string constants: equal texts), FALSE_lit only for an operand of
    another kind (string constants: different texts); an operand of the same kind gets the equality built by the sat core / the theory, under no further test
    than the tp routing of arith items (shared by C17.R6 and C13.R5)."""
    for cls, ok_extra in (('bool_item', ()), ('arith_item', ('tp',)), ('var_item', ())):
        f = fs.fn('ratio::%s::new_eq' % cls)
        env = LocalEnv(f)
        env.param_roles(['i'])
        n = 0
        for p in enum_paths(f.body):
            if p.end != 'return':
                continue
            ident = dyn = None
            extra = []
            for c in p.conds:
                if c[0] != 'if':
                    extra.append(('switch',))
                    continue
                t = canon(c[1], env, subst=False)
                if t in (('==', 'i', 'this'), ('==', 'this', 'i')):
                    ident = c[2]
                elif isinstance(t, tuple) and t[0] == 'dyncast':
                    dyn = c[2]
                elif 'TP_KEYWORD' in show(t) or "'tp'" in show(t):
                    if 'tp' not in ok_extra:
                        extra.append(t)
                else:
                    extra.append(t)
            r = show(canon(p.endnode['c'][0], env, subst=False))
            n += 1
            if r == 'TRUE_lit':
                good = ident is True and not extra
            elif r == 'FALSE_lit':
                good = dyn is False and not extra
            else:
                good = ident is False and not extra and ('new_eq' in r or 'allows' in r)
            ctx.instance(rid, [f.id, 'path#%d' % n], {'function': f.id, 'identity': ident, 'same_kind': dyn, 'returns': r[:120], 'ok': good})
            if not good:
                ctx.finding(rid, f.id, 'path:%s' % r[:60], 'ratio::%s::new_eq returns %s under the conditions identity=%s, operand of the same kind=%s%s: the equality of two different items is what the sat core / '
                            'the theory builds from their literals; TRUE_lit is only right for the item itself' % (cls, r[:100], ident, dyn, (', ' + ', '.join(show(x)[:80] for x in extra if isinstance(x, tuple))) if extra else ''),
                            node=p.endnode)


def run(ctx):
    fs = ctx.facts('P')
    r1(ctx, fs)
    r2(ctx, fs)
    r3(ctx, fs)
    r4(ctx, fs)
    r5(ctx, fs)
    r6(ctx, fs)
