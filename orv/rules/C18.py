"""C18 - no abnormal termination (DESIGN 4, C18).

R1  no input-dependent exception escapes a noexcept frame (whole program).
R2  every scanning loop of the lexer leaves the loop at end of input.
R3  reference-count pairing of the intrusive handles (context, json).
R4  every parser factory is overridden by core_parser (null dynamic_cast otherwise).
R5  unchecked down-casts of user-typed values.
"""
from ..facts import kids, short, src, walk
from .. import cg
from ..expr import canon, show

# ---- R1 tables -------------------------------------------------------------
# noexcept frames whose only throwing paths are fed by a constant / by the
# frame's own declared data; one named symbol each, with the reason.
R1_ACCEPTED = {
    'ratio::solver::init()': 'its only input is the compile-time constant INIT_STRING (checked by C06.R1)',
    'ratio::atom::new_eq(ratio::item &)': 'get(f_name): f_name ranges over the fields of the atom\'s own predicate, all instantiated by formula_statement::execute',
    'ratio::atom::equates(ratio::item &)': 'same as atom::new_eq',
}


def r1(ctx, fs):
    rid = 'C18.R1'
    ctx.rule(rid, 'no exception whose source depends on the input (explicit throw, std::sto*, name lookup with a non-constant key) '
                  'can propagate - over the resolved call graph, virtual calls to all overriders, try/catch scoping with the class '
                  'hierarchy, constant bool arguments specialised - into a noexcept function or a destructor (std::terminate)', floor=100)
    E = cg.Escape(fs)
    ctx.extra['R1_may_throw_nodes'] = len(E.nodes)
    ctx.extra['R1_throw_sources'] = E.nsources
    nframes = 0
    for f in fs.defined():
        if not (f.get('noexcept') or f.get('kind') == 'dtor'):
            continue
        nframes += 1
        ctx.instance(rid, f.id, {'noexcept_frame': f.id, 'site': f.loc})
        m = E.may_throw(f.id)
        if not m:
            continue
        if f.id in R1_ACCEPTED:
            ctx.note('R1 accepted: %s - %s' % (f.id, R1_ACCEPTED[f.id]))
            continue
        # one finding per frame; the discriminator is the set of root-cause sources, not line numbers
        roots = sorted({(w[-1][0], t) for t, w in m.items()})
        t, w = sorted(m.items())[0]
        ctx.finding(rid, f.id, 'escape:' + ','.join(sorted(m)),
                    'exception %s can reach noexcept frame %s => std::terminate on that input' % (
                        ', '.join(sorted(m)), f.name),
                    loc=f.loc, construct=f.id + ' noexcept',
                    expect='no throwing path into a noexcept function (drop noexcept or catch)',
                    path=['%s %s' % (short(s[1]), s[2]) for s in w])
    ctx.extra['R1_noexcept_frames'] = nframes


# ---- R2: lexer loops at end of input -----------------------------------------

EOFV = -1


def _is_ch(n):
    return n is not None and n.get('k') == 'MemberExpr' and n.get('member') == 'riddle::lexer::ch'


def _reads_next_char(n):
    """`ch = next_char()`"""
    if n is None or n.get('k') != 'BinaryOperator' or n.get('op') != '=':
        return False
    c = n['c']
    return _is_ch(c[0]) and c[1].get('k') == 'CXXMemberCallExpr' and c[1].get('callee_name') == 'riddle::lexer::next_char'


def _val(n):
    """value of an expression when ch == -1 (None = unknown)."""
    if n is None:
        return None
    k = n.get('k')
    if _is_ch(n) or _reads_next_char(n):
        return EOFV
    if k in ('IntegerLiteral', 'CharacterLiteral'):
        return n.get('val')
    if k == 'UnaryOperator' and n.get('op') == '-':
        v = _val(n['c'][0])
        return None if v is None else -v
    if k == 'UnaryOperator' and n.get('op') == '!':
        v = _val(n['c'][0])
        return None if v is None else (0 if v else 1)
    if k == 'BinaryOperator':
        op = n.get('op')
        if op == ',':
            return _val(n['c'][1])
        a, b = _val(n['c'][0]), _val(n['c'][1])
        if op == '&&':
            if a == 0 or b == 0:
                return 0
            if a is not None and b is not None:
                return 1
            return None
        if op == '||':
            if (a is not None and a != 0) or (b is not None and b != 0):
                return 1
            if a == 0 and b == 0:
                return 0
            return None
        if a is None or b is None:
            return None
        return {'==': a == b, '!=': a != b, '<': a < b, '<=': a <= b, '>': a > b, '>=': a >= b}.get(op) and 1 or (
            0 if op in ('==', '!=', '<', '<=', '>', '>=') else None)
    if k == 'CXXMemberCallExpr' and n.get('callee_name') == 'riddle::lexer::is_id_part':
        return None
    if k == 'CallExpr' and n.get('callee_name') == 'riddle::lexer::is_id_part':
        args = n['c'][1:]
        if args and _val(args[0]) == EOFV:
            return 0      # -1 is no identifier character (is_id_part is a pure range test, checked in R2b)
        return None
    if k == 'CXXBoolLiteralExpr':
        return 1 if n.get('val') else 0
    return None


def _outcomes(n, fs):
    """set of ways control leaves statement n when every read of ch yields -1:
    'fall', 'break', 'continue', 'exit' (return / throw / noreturn call)."""
    if n is None:
        return {'fall'}
    k = n.get('k')
    if k == 'CompoundStmt':
        out = set()
        for c in n.get('c') or ():
            o = _outcomes(c, fs)
            out |= (o - {'fall'})
            if 'fall' not in o:
                return out
        out.add('fall')
        return out
    if k in ('ReturnStmt', 'CXXThrowExpr'):
        return {'exit'}
    if k == 'BreakStmt':
        return {'break'}
    if k == 'ContinueStmt':
        return {'continue'}
    if k == 'IfStmt':
        sl = n['slots']
        v = _val(sl.get('cond'))
        if v is None:
            return _outcomes(sl.get('then'), fs) | _outcomes(sl.get('else'), fs)
        return _outcomes(sl.get('then') if v else sl.get('else'), fs)
    if k == 'SwitchStmt':
        sl = n['slots']
        v = _val(sl.get('cond'))
        body = sl.get('body')
        stmts = list(body.get('c') or ()) if body and body.get('k') == 'CompoundStmt' else [body]
        # flatten labels: a CaseStmt/DefaultStmt wraps the next statement
        seq = []      # (labels, stmt)

        def unwrap(s, labels):
            while s is not None and s.get('k') in ('CaseStmt', 'DefaultStmt'):
                if s['k'] == 'CaseStmt':
                    labels.append(s.get('case'))
                    s = (s.get('c') or [None, None])[-1]
                else:
                    labels.append('default')
                    s = (s.get('c') or [None])[-1]
            return s
        for s in stmts:
            labels = []
            inner = unwrap(s, labels)
            seq.append((labels, inner))
        starts = []
        if v is None:
            starts = [i for i, (ls, _) in enumerate(seq) if ls]
            nomatch = not any('default' in ls for ls, _ in seq)
        else:
            hit = [i for i, (ls, _) in enumerate(seq) if v in ls]
            if not hit:
                hit = [i for i, (ls, _) in enumerate(seq) if 'default' in ls]
            starts = hit[:1]
            nomatch = not hit
        out = set()
        if nomatch:
            out.add('fall')
        for st in starts:
            fell = True
            for ls, s in seq[st:]:
                o = _outcomes(s, fs)
                out |= (o - {'fall', 'break'})
                if 'break' in o:
                    out.add('fall')
                if 'fall' not in o:
                    fell = False
                    break
            if fell:
                out.add('fall')
        return out
    if k in ('WhileStmt', 'ForStmt', 'DoStmt'):
        return _loop_outcomes(n, fs)
    if k in ('CXXMemberCallExpr', 'CallExpr'):
        cal = fs.fns.get(n.get('callee', ''))
        if n.get('callee_name') == 'riddle::lexer::error':
            return {'exit'}
        return {'fall'}
    if k == 'LabelStmt' or k == 'AttributedStmt':
        r = {'fall'}
        for c in n.get('c') or ():
            r = _outcomes(c, fs)
        return r
    return {'fall'}


def _loop_outcomes(n, fs):
    sl = n['slots']
    cond = sl.get('cond')
    cv = _val(cond) if cond is not None else 1
    body = _outcomes(sl.get('body'), fs)
    out = set()
    if 'exit' in body:
        out.add('exit')
    if 'break' in body:
        out.add('fall')
    if cv == 0:
        out.add('fall')
        return out
    if cv is None:
        out.add('fall')
    if ('fall' in body or 'continue' in body) and cv not in (0, None):
        out.add('spin')
    return out


def r2(ctx, fs):
    rid = 'C18.R2'
    ctx.rule(rid, 'abstract interpretation of every lexer loop that reads characters with ch fixed to end-of-input (-1): '
                  'no path may return to the loop head (an unterminated string / comment must not spin for ever)', floor=6)
    n_loops = 0
    for f in fs.defined():
        if f.get('class') != 'riddle::lexer':
            continue
        for n in f.nodes():
            if n.get('k') not in ('WhileStmt', 'ForStmt', 'DoStmt'):
                continue
            if not any(_reads_next_char(m) for m in walk(n)):
                continue
            # enclosing case label -> discriminator that survives line edits
            disc = None
            for a in f.ancestors(n):
                if a.get('k') == 'CaseStmt':
                    disc = 'case %s' % (chr(a['case']) if isinstance(a.get('case'), int) and 32 <= a['case'] < 127 else a.get('case'))
                    # prefer the nearest enclosing case of the outer switch too
                    outer = [x for x in f.ancestors(a) if x.get('k') == 'CaseStmt']
                    if outer:
                        o = outer[0]
                        disc = 'case %s / %s' % (chr(o['case']) if isinstance(o.get('case'), int) and 32 <= o['case'] < 127 else o.get('case'), disc)
                    break
            if disc is None:
                disc = 'loop'
            # several loops may sit under one label (first case of a fall-through group): number them
            n_loops += 1
            o = _loop_outcomes(n, fs)
            key = [f.id, disc]
            base = disc
            i = 1
            while any(k == (f.id + '|' + disc) for k in _seen):
                i += 1
                disc = '%s #%d' % (base, i)
            _seen.add(f.id + '|' + disc)
            ctx.instance(rid, [f.id, disc], {'function': f.id, 'loop': disc, 'site': short(n.get('loc')), 'outcomes_at_eof': sorted(o)})
            if 'spin' in o:
                ctx.finding(rid, f.id, disc, 'scanning loop never terminates on truncated input: with ch == -1 control returns to the loop head',
                            node=n, expect='a `case -1` / `!= -1` exit (return or error) on every path')
    return n_loops


_seen = set()


def r2b(ctx, fs):
    """is_id_part(-1) must be false: R2 relies on it."""
    rid = 'C18.R2b'
    ctx.rule(rid, 'lexer::is_id_part is a pure disjunction of range tests over non-negative character constants (so -1 is never an identifier part)', floor=1)
    f = fs.fn('riddle::lexer::is_id_part')
    ok = True
    n_cmp = 0
    for n in f.nodes():
        k = n.get('k')
        if k == 'BinaryOperator' and n.get('op') in ('==', '>=', '<=', '<', '>'):
            n_cmp += 1
            lits = [m for m in n['c'] if m.get('k') in ('CharacterLiteral', 'IntegerLiteral')]
            if len(lits) != 1 or lits[0].get('val', -1) < 0:
                ok = False
        elif k == 'BinaryOperator' and n.get('op') not in ('||', '&&'):
            ok = False
        elif 'callee' in n:
            ok = False
    ctx.instance(rid, f.id, {'function': f.id, 'comparisons': n_cmp})
    if not ok or n_cmp == 0:
        ctx.broken('lexer::is_id_part is no longer a pure range test; C18.R2 cannot assume is_id_part(-1) == false')


def r3(ctx, fs):
    """single ownership of syntax-tree nodes: the parser hands raw node pointers to the node that will delete them; a local that has been handed over must be
    re-assigned (or cleared) before it is handed over again on the same execution, otherwise two owners delete the same node (double free at teardown)."""
    rid = 'C18.R3'
    ctx.rule(rid, 'riddle::parser: a local syntax-tree pointer (or vector of them) that was handed to an owner - a new_<node> factory or a container of the node under construction - is '
                  're-assigned / cleared / re-declared before it is handed over again on any path (no node gets two owners)', floor=20)
    from .. import cfg as _cfg

    def ast_ptr(t):
        t = (t or '').replace('const ', '')
        return ('riddle::ast::' in t and '*' in t) or (t.startswith('std::vector<') and 'riddle::ast::' in t and '*' in t)
    n_sinks = 0
    for f in fs.defined():
        if f.get('class') != 'riddle::parser' or f.body is None or not f.get('cfg'):
            continue
        locs = {n['loc']: n for n in f.nodes() if n.get('k') == 'VarDecl' and ast_ptr(n.get('t'))}
        if not locs:
            continue
        g = _cfg.Graph(f)

        def arg_vars(call):
            out = []
            for a in (call.get('c') or [])[1:]:
                x = a
                while x.get('k') in ('CXXConstructExpr', 'CallExpr') and x.get('callee_name') in ('std::move',) or (x.get('k') == 'CXXConstructExpr' and len(x.get('c') or ()) == 1):
                    x = x['c'][-1]
                if x.get('k') == 'DeclRefExpr' and x.get('dloc') in locs:
                    out.append(x['dloc'])
            return out
        sinks, resets = {}, {}
        for node in g.nodes:
            t = g.tree(node)
            if t is None:
                continue
            k = t.get('k')
            if k == 'CXXMemberCallExpr':
                cn = t.get('callee_name') or ''
                me = t['c'][0]
                base = (me.get('c') or [None])[0] if me.get('k') == 'MemberExpr' else None
                if cn.startswith('riddle::parser::new_') or (cn.rsplit('::', 1)[-1] in ('emplace_back', 'push_back', 'emplace', 'insert') and cn.startswith('std::')):
                    for d in arg_vars(t):
                        # pushing a pointer into a vector that is itself a tracked local hands it to that vector
                        sinks.setdefault(d, set()).add(node)
                if cn.rsplit('::', 1)[-1] in ('clear',) and base is not None and base.get('k') == 'DeclRefExpr' and base.get('dloc') in locs:
                    resets.setdefault(base['dloc'], set()).add(node)
            elif k in ('BinaryOperator', 'CXXOperatorCallExpr') and t.get('op') == '=':
                lhs = t['c'][0] if k == 'BinaryOperator' else t['c'][1]
                if lhs.get('k') == 'DeclRefExpr' and lhs.get('dloc') in locs:
                    resets.setdefault(lhs['dloc'], set()).add(node)
            elif k == 'VarDecl' and t.get('loc') in locs:
                resets.setdefault(t['loc'], set()).add(node)
            elif k == 'DeclStmt':
                for d in t.get('c') or ():
                    if d.get('k') == 'VarDecl' and d.get('loc') in locs:
                        resets.setdefault(d['loc'], set()).add(node)
        for d, ss in sorted(sinks.items()):
            v = locs[d]
            for s0 in sorted(ss):
                n_sinks += 1
                again = set()
                for nx in g.succ.get(s0, ()):
                    again |= (g.reach(nx, avoid=frozenset(resets.get(d, ()))) & ss)
                ctx.instance(rid, [f.id, v.get('name'), short((g.tree(s0) or {}).get('loc'))], {'function': f.id, 'local': v.get('name'), 'type': v.get('t'), 'handed_over_at': short((g.tree(s0) or {}).get('loc')),
                                                                                               'handed_over_again_without_reset': bool(again)})
                if again:
                    t2 = g.tree(sorted(again)[0])
                    ctx.finding(rid, f.id, 'owner:%s' % _role_of(f, v), '%s: the syntax-tree pointer `%s` handed to an owner at %s can be handed over again at %s without having been re-assigned or cleared in between '
                                '(e.g. on the next iteration of the loop): two nodes will delete the same sub-tree when the compilation unit is destroyed' % (
                                    short(f.name), v.get('name'), short((g.tree(s0) or {}).get('loc')), short(t2.get('loc'))), node=g.tree(s0))
    return n_sinks


def _role_of(f, v):
    """stable discriminator of a local: its type and its ordinal among the locals of that type in the function."""
    same = [n for n in f.nodes() if n.get('k') == 'VarDecl' and n.get('t') == v.get('t')]
    return '%s#%d' % ((v.get('t') or '').replace('riddle::ast::', ''), [i for i, n in enumerate(same) if n is v][0] if any(n is v for n in same) else 0)


def r5(ctx, fs):
    rid = 'C18.R5'
    ctx.rule(rid, 'the lookup chains are well-founded: the core is its own enclosing scope and its own enclosing environment (core::core), so every virtual lookup of scope / env that forwards the '
                  'request to the enclosing scope / environment on a miss (scp.m(..), ctx->m(..)) is overridden in core by a function from which - over the calls made on the core itself - no '
                  'forwarding lookup is reached (a miss at the root must end, not recurse for ever)', floor=8)
    ctor = [f for f in fs.defined() if f.name == 'ratio::core::core']
    if not ctor:
        raise AnalysisBroken('ratio::core::core not found')
    self_rooted = {}
    for io in ctor[0].d.get('inits') or ():
        if io.get('base') in ('ratio::scope', 'ratio::env') and isinstance(io.get('init'), dict):
            self_rooted[io['base']] = any(x.get('k') == 'CXXThisExpr' for x in walk(io['init']))
    if self_rooted != {'ratio::scope': True, 'ratio::env': True}:
        raise AnalysisBroken('ratio::core::core: the core is no longer constructed as its own enclosing scope / environment (%s): the root of the lookup chains must be identified again' % self_rooted)
    LINK = ('ratio::scope::scp', 'ratio::env::ctx')

    # accessors of the links (scope::get_scope, env::get_ctx ..): one `return <link>;`
    accessors = set()
    for f in fs.defined():
        if f.get('class') in ('ratio::scope', 'ratio::env') and f.body is not None and len(f.body.get('c') or ()) == 1 and f.body['c'][0].get('k') == 'ReturnStmt' and f.body['c'][0].get('c'):
            e = f.body['c'][0]['c'][0]
            while e.get('k') in ('ImplicitCastExpr', 'ParenExpr', 'CXXConstructExpr', 'MaterializeTemporaryExpr') and len(e.get('c') or ()) == 1:
                e = e['c'][0]
            if e.get('k') == 'MemberExpr' and e.get('member') in LINK:
                accessors.add(f.id)

    def on_link(call):
        obj = call['c'][0]['c'][0] if call.get('c') and call['c'][0].get('k') == 'MemberExpr' and call['c'][0].get('c') else None
        return obj is not None and any((x.get('k') == 'MemberExpr' and x.get('member') in LINK) or (x.get('k') == 'CXXMemberCallExpr' and x.get('callee') in accessors and on_self(x)) for x in walk(obj))

    def on_self(call):
        obj = call['c'][0]['c'][0] if call.get('c') and call['c'][0].get('k') == 'MemberExpr' and call['c'][0].get('c') else None
        while obj is not None and obj.get('k') in ('ImplicitCastExpr', 'ParenExpr', 'UnaryOperator') and obj.get('c'):
            obj = obj['c'][0]
        return obj is not None and obj.get('k') == 'CXXThisExpr'

    def meth(fid_name):
        return fid_name.rsplit('::', 1)[-1]
    forwarders = {}
    for f in fs.defined():
        if f.get('class') not in ('ratio::scope', 'ratio::env'):
            continue
        for n in f.nodes():
            if n.get('k') == 'CXXMemberCallExpr' and n.get('callee') and meth(n.get('callee_name') or '') == meth(f.name) and on_link(n):
                forwarders[f.id] = f
    if not forwarders:
        raise AnalysisBroken('no lookup of ratio::scope / ratio::env forwards to the enclosing scope / environment: the chain is not where this rule looks for it')
    for fid, fw in sorted(forwarders.items()):
        ov = [o for o in fs.all_overriders(fid) if o.startswith('ratio::core::')]
        root = fs.fns.get(ov[0]) if ov else None
        reached = None
        n_fns = 0
        if root is not None and root.body is not None:
            seen, st = set(), [root]
            while st and reached is None:
                g = st.pop()
                if g.id in seen:
                    continue
                seen.add(g.id)
                n_fns += 1
                if g.id in forwarders:
                    reached = g
                    break
                for n in g.nodes():
                    if n.get('k') != 'CXXMemberCallExpr' or not n.get('callee') or not (on_self(n) or on_link(n)):
                        continue
                    tgt = n['callee']
                    if on_link(n) and meth(n.get('callee_name') or '') == meth(root.name):
                        reached = fw          # the same lookup asked of the enclosing scope / environment - the core itself
                        break
                    if n.get('virtual') or on_link(n):
                        # the object is the core: the call lands in the core's own override when there is one
                        o2 = [o for o in fs.all_overriders(tgt) if o.startswith('ratio::core::')]
                        tgt = o2[0] if o2 else tgt
                    h = fs.fns.get(tgt)
                    if h is not None and h.body is not None:
                        st.append(h)
        ctx.instance(rid, [fid, 'root'], {'forwarding_lookup': fid, 'root_override': root.id if root is not None else None, 'functions_followed_on_the_core': n_fns,
                                          'forwarder_reached': reached.id if reached is not None else None})
        if root is None or root.body is None:
            ctx.finding(rid, fid, 'root', '%s forwards a miss to the enclosing %s, and the core - which encloses itself - does not override it: a miss never ends' % (fw.name, 'scope' if fw.get('class') == 'ratio::scope' else 'environment'), loc=fw.loc)
        elif reached is not None:
            ctx.finding(rid, fid, 'root', '%s is the root of the lookup chain (the core encloses itself) and reaches %s, which forwards a miss to the enclosing %s - the core again: a failed lookup recurses without bound '
                        'instead of ending with an error' % (root.name, reached.name, 'scope' if reached.get('class') == 'ratio::scope' else 'environment'), loc=root.loc)


def run(ctx):
    fs = ctx.facts('F')
    _seen.clear()
    r1(ctx, fs)
    r5(ctx, fs)
    r2b(ctx, fs)
    r2(ctx, fs)
    r3(ctx, fs)
    # the keyed accesses `assigns[..].at(v)` of the noexcept ov_theory::new_eq cannot throw only because v ranges over the intersection of the two domains
    # (C14.R2): evaluated here as C18.R4
    from .C14 import r2 as ov_new_eq
    ov_new_eq(ctx, ctx.facts('P'), rid='C18.R4')
