"""C02 - "unsolvable" only if there is no solution (DESIGN 4, C02): the structural part.

R1  throw discipline: every throw of unsolvable_exception / inconsistency_exception in the program is control-dependent on a failed
    consistency call (root-level inconsistency), or is one of the frozen, reasoned sites.
R2  no-goods are exactly the negation of the standing decisions (sat_core::next: C07.R3); solver::solve_inconsistencies learns
    {only choice} + !decisions, records it and checks propagation.
R3  graph pruning is guarded by the graph literal: every clause of h_1/h_2::prune contains !gamma; graph::check re-creates gamma
    only when it is false; a pruned flaw is only *closed*, the clause mentions !phi of that flaw.
R4  theory conflicts become clauses over their own literals: theory::analyze_and_backjump analyses `cnfl` and records the no-good after
    back-jumping; backtrack_analyze_and_backjump back-jumps to the highest level of the conflict first; root conflicts are posted as a clause.
"""
from ..expr import LocalEnv, canon, show
from ..facts import AnalysisBroken, short, src, walk
from ..schema import posted, show_clause
from ..tables import VecBuilder, arm_of, enum_paths, fmt_items, path_literals, value_of, eq_test
from .. import cfg
from .C01 import MUST_CHECK

PLANNER_EXC = ('ratio::unsolvable_exception', 'ratio::inconsistency_exception')

# throw sites that do not follow `if (!consistency_call(..)) throw`: function name -> reason
R1_FROZEN = {
    'ratio::h_1::build': 'flaw_q.empty() while some flaw has infinite cost: the causal graph is exhausted, no resolver can ever be found',
    'ratio::h_1::add_layer': 'flaw_q.empty(): nothing left to expand',
    'ratio::h_2::build': 'same as h_1::build',
    'ratio::h_2::add_layer': 'same as h_1::add_layer',
    'ratio::ast::compilation_unit::execute': 're-throw of unsolvable inside catch (inconsistency_exception): an inconsistency at top level leaves no alternative',
    'ratio::ast::local_field_statement::execute': 'no instance of the declared type exists: the variable has an empty domain',
    'ratio::ast::formula_statement::execute': 'no value assignable to the parameter remains / scope has no instance',
    'ratio::core::read': 're-throw as unsolvable of an inconsistency raised while executing top-level statements',
}


def thrown_type(n):
    for m in walk(n):
        if m.get('k') in ('CXXConstructExpr', 'CXXTemporaryObjectExpr', 'CXXFunctionalCastExpr') and m.get('t'):
            return m['t'].replace('const ', '').strip()
    return None


def r1(ctx, fs):
    rid = 'C02.R1'
    ctx.rule(rid, 'every `throw unsolvable_exception()` / `throw inconsistency_exception()` sits in the then-branch of an if whose condition is (a disjunction containing) the negation of a '
                  'consistency-reporting call (new_clause, propagate, assume, next, simplify_db, set*, backtrack_analyze_and_backjump, solve ...); the other sites are frozen with a reason', floor=25)
    for f in fs.defined():
        for n in f.nodes():
            if n.get('k') != 'CXXThrowExpr' or n.get('as'):
                continue
            t = thrown_type(n)
            if t not in PLANNER_EXC:
                continue
            guarded = False
            guard_txt = None
            for a in f.ancestors(n):
                if a.get('k') == 'IfStmt' and any(m is n for m in walk(a['slots'].get('then'))):
                    guard_txt = show(canon(a['slots']['cond'], None))
                    break
            # every path of the enclosing region (loop body / lambda / function) that ends in this throw has seen a consistency call come back false:
            # decided on the atomic decisions of the path, so `if (!c) throw`, `if (c) {..} else throw`, `if (x && !c) throw`, early-continue forms are all one
            region = f.body
            for a in f.ancestors(n):
                if a.get('k') in ('ForStmt', 'WhileStmt', 'DoStmt', 'CXXForRangeStmt'):
                    region = a['slots']['body']
                    break
                if a.get('k') == 'LambdaExpr':
                    region = (a.get('c') or [f.body])[0]
                    break
                if a.get('k') == 'CXXCatchStmt':
                    # the paths of a function body do not enter its handlers: a throw inside one is decided on the paths of the handler itself
                    hb = [c for c in (a.get('c') or ()) if c.get('k') == 'CompoundStmt']
                    if hb:
                        region = hb[0]
                    break
            try:
                ps = [p for p in enum_paths(region) if p.endnode is n]
            except AnalysisBroken:
                ps = []
            if ps:
                def failed_call(p):
                    for kind, node, pol in p.conds:
                        if kind != 'if':
                            continue
                        t = canon(node, None)
                        neg = isinstance(t, tuple) and len(t) == 2 and t[0] == '!'
                        if neg:
                            t, pol = t[1], not pol
                        if pol is False and isinstance(t, tuple) and t[0] in ('mcall', 'call') and t[1] in MUST_CHECK:
                            return True
                    return False
                guarded = all(failed_call(p) for p in ps)
            else:
                # the throw sits in a construct the path enumeration keeps opaque (a catch handler): the enclosing if must test the failed call directly
                for a in f.ancestors(n):
                    if a.get('k') == 'IfStmt' and any(m is n for m in walk(a['slots'].get('then'))):
                        for d in _disj(canon(a['slots']['cond'], None)):
                            if isinstance(d, tuple) and d[0] == '!' and isinstance(d[1], tuple) and d[1][0] in ('mcall', 'call') and d[1][1] in MUST_CHECK:
                                guarded = True
                        break
            if ps:
                if not guard_txt:
                    guard_txt = ' ; '.join(sorted({('' if c[2] else 'not ') + show(canon(c[1], None))[:60] for p in ps for c in p.conds if c[0] == 'if'}))[:200]
            ctx.instance(rid, [f.id, short(n.get('loc'))], {'function': f.id, 'throws': t.rsplit('::', 1)[-1], 'guard': (guard_txt or '')[:160], 'failed_consistency_call': guarded})
            if guarded:
                continue
            if f.name in R1_FROZEN:
                ctx.note('R1 frozen: %s - %s' % (f.name, R1_FROZEN[f.name]))
                if f.name in EXHAUSTION:
                    _exhaustion_frame(ctx, rid, f, n, guard_txt)
                continue
            ctx.finding(rid, f.id, 'throw:' + (guard_txt or 'unconditional')[:80], '%s declares the problem %s under the condition %s, which is not a detected root-level inconsistency: a solvable problem can be rejected' % (
                f.name, 'unsolvable' if 'unsolvable' in t else 'inconsistent', guard_txt or '(none)'), node=n, expect='throw only when new_clause / propagate / assume / next ... returned false')


# graph-exhaustion throws: `if (flaw_q.empty()) throw unsolvable` is only right while expanding the graph is REQUIRED
EXHAUSTION = {
    # function: (quantifier of the enclosing loop condition, what it ranges over, why)
    'ratio::h_1::build': ('std::any_of', 'get_flaws', 'some active flaw still has an infinite cost: without a further expansion it can never be resolved'),
    'ratio::h_2::build': ('std::any_of', 'get_flaws', 'same as h_1::build'),
    'ratio::h_1::add_layer': ('std::all_of', 'local-queue', 'no flaw of the frontier has a finite cost yet: the layer is not complete; one finite flaw is enough to stop (any_of would demand that every queued flaw, '
                                                            'also a never-resolvable alternative nobody needs, becomes finite, and declare a solvable problem unsolvable)'),
    'ratio::h_2::add_layer': ('std::all_of', 'local-queue', 'same as h_1::add_layer'),
}


def _exhaustion_frame(ctx, rid, f, thrown, guard_txt):
    env = LocalEnv(f)
    quant, rng, why = EXHAUSTION[f.name]
    loop = None
    for a in f.ancestors(thrown):
        if a.get('k') in ('WhileStmt', 'DoStmt', 'ForStmt'):
            loop = a
            break
    ok = False
    found = None
    if loop is not None and loop.get('k') == 'WhileStmt':
        c = canon(loop['slots']['cond'], env, subst=False)
        found = show(c)[:200]
        if isinstance(c, tuple) and c[0] == 'call' and c[1] == quant and len(c) == 5:
            over = c[2][2] if isinstance(c[2], tuple) and c[2][0] == 'mcall' and len(c[2]) == 3 else None
            if rng == 'get_flaws':
                okr = isinstance(over, tuple) and over[0] == 'mcall' and over[1].endswith('::get_flaws')
            else:
                # a local copy of the flaw queue taken before the loop
                okr = isinstance(over, str) and any(m.get('k') == 'VarDecl' and m.get('name') == over and 'flaw_q' in show(canon(m['init'], env, subst=False)) for m in f.nodes() if m.get('init') is not None)
            pred = show(c[4])
            okp = 'get_estimated_cost' in pred and ('is_infinite' in pred or 'is_positive_infinite' in pred) and '(! ' not in pred
            ok = okr and okp
    gq = 'flaw_q' in (guard_txt or '') and 'empty' in (guard_txt or '') and '(! ' not in (guard_txt or '')
    ctx.instance(rid, [f.id, 'exhaustion'], {'function': f.id, 'loop_condition': found, 'expected_quantifier': quant, 'ok': ok and gq})
    if not (ok and gq):
        ctx.finding(rid, f.id, 'exhaustion', '%s gives up (unsolvable) when the flaw queue is empty, which is only justified while %s; the enclosing loop must run while %s(%s, cost is infinite) - found %s, guard %s' % (
            f.name, why, quant, 'active flaws' if rng == 'get_flaws' else 'snapshot of the queue', found, guard_txt), node=thrown)


def _disj(t):
    if isinstance(t, tuple) and t and t[0] == '||':
        for x in t[1:]:
            yield from _disj(x)
    else:
        yield t


def r2(ctx, fs):
    rid = 'C02.R2'
    ctx.rule(rid, 'solver::solve_inconsistencies, single-choice inconsistency: the learnt clause is {the choice} + the negation of every decision of the SAT core, it is recorded, propagation is checked '
                  '(failure -> unsolvable); an inconsistency without choices back-tracks with next()', floor=4)
    f = fs.fn('ratio::solver::solve_inconsistencies')
    env = LocalEnv(f, fs)
    vb = VecBuilder(f, env)
    lr = env.local_role('learnt', lambda n, i: n.get('t') == 'std::vector<smt::lit>')
    its = vb.items.get(lr)
    ok = its is not None and not vb.unrec.get(lr) and len(its) == 2
    if ok:
        one = [i for i in its if i[0] == 'one' or (i[0] == 'ctx' and not [c for c in i[1] if c[0] == 'each'])]
        each = [i for i in its if i[0] == 'ctx' and [c for c in i[1] if c[0] == 'each']]
        ok = len(one) == 1 and len(each) == 1
        if ok:
            e = each[0]
            ec = [c for c in e[1] if c[0] == 'each'][0]
            ok = show(ec[1]) in ('(mcall sat_core::get_decisions (mcall core::get_sat_core this))', '(. core::sat_cr decisions)', '(mcall sat_core::get_decisions core::sat_cr)') or 'decisions' in show(ec[1])
            ok = ok and e[2] == ('!', ec[2]) and not [c for c in e[1] if c[0] == 'if' and 'det_flw' not in show(c[1]) and 'Undefined' not in show(c[1])]
            o = one[0][2] if one[0][0] == 'ctx' else one[0][1]
            ok = ok and 'det_flw' in show(o) and show(o).endswith('first)')
    ctx.instance(rid, [f.id, 'learnt'], {'learnt_clause': fmt_items(its)})
    if not ok:
        ctx.finding(rid, f.id, 'learnt', 'solve_inconsistencies: the clause learnt from a single-choice inconsistency must be {choice} + !d for every standing decision d (found %s): anything stronger rejects solvable problems' % fmt_items(its), loc=f.loc)
    g = cfg.Graph(f)
    rec = g.events(lambda t: t.get('callee_name') == 'smt::theory::record')
    prop = g.events(lambda t: t.get('callee_name') == 'smt::sat_core::propagate')
    okr = len(rec) == 1 and len(prop) >= 1 and g.always_before(rec, prop)
    args = [canon(g.tree(n), env, subst=False) for n in rec]
    okr = okr and args and args[0][3] == 'learnt'
    chk = False
    for n in prop:
        t = g.tree(n)
        for a in f.ancestors(t):
            if a.get('k') == 'IfStmt' and any(m is t for m in walk(a['slots']['cond'])):
                chk = any(m.get('k') == 'CXXThrowExpr' for m in walk(a['slots']['then']))
    ctx.instance(rid, [f.id, 'record'], {'recorded_then_propagated': okr, 'propagation_checked': chk})
    if not okr or not chk:
        ctx.finding(rid, f.id, 'record', 'solve_inconsistencies must record the learnt clause and check the propagation that follows', loc=f.loc)
    # empty choice set -> next(); single -> learn; otherwise decide
    arms = {}
    for n in walk(f.body):
        if n.get('k') == 'LambdaExpr':
            rets = [canon(m['c'][0], env, subst=False) for m in walk(n) if m.get('k') == 'ReturnStmt']
            if rets:
                arms[show(rets[0])] = n
    has_empty = any('empty' in k for k in arms)
    has_single = any('size' in k and ' 1)' in k for k in arms)
    nxt = [n for n in f.nodes() if n.get('callee_name') == 'ratio::solver::next']
    dec = [n for n in f.nodes() if n.get('callee_name') == 'ratio::solver::take_decision']
    ctx.instance(rid, [f.id, 'arms'], {'unsolvable_inconsistency_backtracks': has_empty and len(nxt) == 1, 'deterministic_learns': has_single, 'otherwise_decides': len(dec) == 1})
    if not (has_empty and len(nxt) == 1 and has_single and len(dec) == 1):
        ctx.finding(rid, f.id, 'arms', 'solve_inconsistencies must back-track on an inconsistency without choices, learn from one with a single choice and decide otherwise', loc=f.loc)
    # the decision taken is one of the choices of the selected inconsistency
    if dec:
        t = show(canon(dec[0], env, subst=False))
        okd = 'min_element' in t and 'bst_inc' in t and t.rstrip(')').endswith('first')
        ctx.instance(rid, [f.id, 'choice'], {'decision': t[:200]})
        if not okd:
            ctx.finding(rid, f.id, 'choice', 'the decision taken must be a choice of the selected inconsistency', node=dec[0])


def r3(ctx, fs, cfgname):
    rid = 'C02.R3'
    ctx.rule(rid, 'h_1::prune / h_2::prune: every clause contains lit(gamma, false) (so that re-building the graph with a fresh gamma re-opens the closed flaws) and closes exactly the flaw it iterates; '
                  'failures throw; graph::check calls init() (fresh gamma) only in the gamma == False arm and always decides gamma afterwards', floor=3)
    prunes = [f for f in fs.defined() if f.name in ('ratio::h_1::prune', 'ratio::h_2::prune')]
    if not prunes:
        raise AnalysisBroken('no prune() of the configured heuristic found [%s]' % cfgname)
    for f in prunes:
        env = LocalEnv(f, fs)
        _, cl = posted(fs, f, env=env)
        if not cl:
            raise AnalysisBroken('%s posts no clause' % f.id)
        for c, when, n in cl:
            lits = c[1]
            G = ('!', ('lit', 'ratio::graph::gamma'))
            ok = G in lits
            ctx.instance(rid, [f.id, show_clause(c)], {'function': f.id, 'clause': show_clause(c), 'guarded_by_not_gamma': ok})
            if not ok:
                ctx.finding(rid, f.id, 'unguarded ' + show_clause(c), '%s posts %s without !gamma: the pruning survives the re-building of the graph and alternatives are excluded for ever' % (f.name, show_clause(c)), node=n,
                            expect='{lit(gamma, false), ...}')
            thr = any(a.get('k') == 'IfStmt' and any(m is n for m in walk(a['slots']['cond'])) and any(m.get('k') == 'CXXThrowExpr' for m in walk(a['slots']['then'])) for a in f.ancestors(n))
            if not thr:
                ctx.finding(rid, f.id, 'unchecked ' + show_clause(c), '%s ignores the failure of %s' % (f.name, show_clause(c)), node=n)
    f = fs.fn('ratio::graph::check')
    env = LocalEnv(f, fs)
    # decided on the paths of the function, whatever spells the three-way test on the value of gamma (switch with fall-through, if chain, early return):
    # gamma False -> init() (fresh gamma), then the decision; Undefined -> the decision only; True -> neither
    cn = lambda n: canon(n, env, subst=False)
    is_val = lambda t: isinstance(t, tuple) and t[0] == 'mcall' and str(t[1]).endswith('::value') and t[-1] == 'ratio::graph::gamma'
    ok = True
    seen = set()
    for p in enum_paths(f.body):
        L = path_literals(p, cn)
        if L is None:
            continue
        es = {ek[0] for c in L if c[0] == 'if' for ek in [eq_test(c[1])] if ek is not None and is_val(ek[0])}
        v = value_of(L, next(iter(es))) if len(es) == 1 else None
        calls = [(m.get('callee_name'), m) for st in p.stmts if not st.get('as') for m in walk(st) if m.get('callee_name') in ('ratio::graph::init', 'ratio::solver::take_decision')]
        names = [c[0] for c in calls]
        decided = [cn(m)[-1] for nm, m in calls if nm == 'ratio::solver::take_decision']
        seen.add(v)
        if v == 'False':
            good = names == ['ratio::graph::init', 'ratio::solver::take_decision'] and decided == [('lit', 'ratio::graph::gamma')]
        elif v == 'Undefined':
            good = names == ['ratio::solver::take_decision'] and decided == [('lit', 'ratio::graph::gamma')]
        elif v == 'True':
            good = not names
        else:
            good = False
        ok = ok and good
    ok = ok and {'False', 'Undefined'} <= seen
    ctx.instance(rid, [f.id, 'gamma'], {'fresh_gamma_only_when_false_and_decided': ok})
    if not ok:
        ctx.finding(rid, f.id, 'gamma', 'graph::check must create a fresh gamma only when the current one is false and then take gamma as a decision', loc=f.loc)


def r4(ctx, fs):
    rid = 'C02.R4'
    ctx.rule(rid, 'theory::analyze_and_backjump: conflict clause = the theory\'s cnfl, analysed, cnfl cleared, back-jump to the computed level, no-good recorded; '
                  'backtrack_analyze_and_backjump: back-jumps to max level(l) over cnfl, at root posts cnfl as a clause and propagates, else analyses; both results reported', floor=8)
    f = fs.fn('smt::theory::analyze_and_backjump')
    env = LocalEnv(f)
    env.local_role('cnfl_cl', lambda n, i: n.get('t') == 'smt::clause')
    env.local_role('no_good', lambda n, i: n.get('t') == 'std::vector<smt::lit>')
    env.local_role('bt_level', lambda n, i: n.get('t') == 'unsigned long')
    init = env.init_of('cnfl_cl')
    effs = [canon(n, env, subst=False) for n in f.nodes() if n.get('k') in ('CXXMemberCallExpr',)]
    facts = {
        'conflict clause built from cnfl': isinstance(init, tuple) and init[-1] == 'smt::theory::cnfl',
        'analysed into (no_good, bt_level)': ('mcall', 'smt::sat_core::analyze', 'smt::theory::sat', 'cnfl_cl', 'no_good', 'bt_level') in effs,
        'cnfl cleared': ('mcall', 'std::vector<smt::lit>::clear', 'smt::theory::cnfl') in effs,
        'no-good recorded': ('mcall', 'smt::sat_core::record', 'smt::theory::sat', 'no_good') in effs,
    }
    bj = [n for n in f.nodes() if n.get('k') == 'WhileStmt']
    facts['back-jump to bt_level'] = len(bj) == 1 and canon(bj[0]['slots']['cond'], env, subst=False) == ('<', 'bt_level', ('mcall', 'smt::sat_core::decision_level', 'smt::theory::sat')) and \
        any(m.get('callee_name') == 'smt::sat_core::pop' for m in walk(bj[0]['slots']['body']))
    g = cfg.Graph(f)
    an = g.events(lambda t: t.get('callee_name') == 'smt::sat_core::analyze')
    pp = g.events(lambda t: t.get('callee_name') == 'smt::sat_core::pop')
    rc = g.events(lambda t: t.get('callee_name') == 'smt::sat_core::record')
    facts['order analyse -> back-jump -> record'] = bool(an and rc) and g.always_before(an, pp) and g.always_before(an, rc) and g.never_after(rc, pp)
    for k, v in facts.items():
        ctx.instance(rid, [f.id, k], {'fact': k, 'holds': v})
        if not v:
            ctx.finding(rid, f.id, k, 'theory::analyze_and_backjump: "%s" does not hold - a theory conflict would be learnt wrongly or not at all' % k, loc=f.loc)
    f = fs.fn('smt::theory::backtrack_analyze_and_backjump')
    env = LocalEnv(f)
    env.local_role('bt_level', lambda n, i: n.get('t') == 'unsigned long')
    lv = lambda l: ('[]', ('.', 'smt::theory::sat', 'level'), ('call', 'smt::variable', l))
    okmax = False
    for n in f.nodes():
        if n.get('k') == 'CXXForRangeStmt' and canon(n['slots']['range'], env, subst=False) == 'smt::theory::cnfl':
            l = n['slots']['var'].get('name')
            ifs = [m for m in walk(n['slots']['body']) if m.get('k') == 'IfStmt']
            asg = [canon(m, env, subst=False) for m in walk(n['slots']['body']) if m.get('k') == 'BinaryOperator' and m.get('op') == '=']
            if ifs and canon(ifs[0]['slots']['cond'], env, subst=False) == ('<', 'bt_level', lv(l)) and asg == [('=', 'bt_level', lv(l))]:
                okmax = True
            # ... or the running maximum written with std::max, unconditionally
            if not ifs and len(asg) == 1 and isinstance(asg[0][2], tuple) and asg[0][:2] == ('=', 'bt_level') and asg[0][2][:2] == ('call', 'std::max') and sorted(asg[0][2][2:], key=repr) == sorted(['bt_level', lv(l)], key=repr):
                okmax = True
    rets = [canon(n['c'][0], env, subst=False) for n in f.nodes() if n.get('k') == 'ReturnStmt']
    prop = ('mcall', 'smt::sat_core::propagate', 'smt::theory::sat')
    want_rets = [('&&', ('mcall', 'smt::sat_core::new_clause', 'smt::theory::sat', 'smt::theory::cnfl'), prop), prop]
    # decided on the paths: at root the conflict is posted as a clause and, when that succeeds, propagated (`return a && b`, or `if (!a) return false; ...
    # return b`); below root it is analysed and then propagated; every path reports what the last call answered
    NC = ('mcall', 'smt::sat_core::new_clause', 'smt::theory::sat', 'smt::theory::cnfl')
    ROOT = ('mcall', 'smt::sat_core::root_level', 'smt::theory::sat')
    ok_root = ok_below = True
    seen_root = set()
    for p in enum_paths(f.body):
        if p.end != 'return':
            ok_root = False
            continue
        lits = [(canon(c[1], env, subst=False), c[2]) for c in p.conds if c[0] == 'if']
        root = next((pol for t, pol in lits if t == ROOT), None)
        r = canon(p.endnode['c'][0], env, subst=False)
        nc = next((pol for t, pol in lits if t == NC), None)
        called = [m.get('callee_name') for st in p.stmts[:-1] if not st.get('as') for m in walk(st) if m.get('callee_name')]
        if root is True:
            if nc is None:
                good = r == tuple([want_rets[0][0]] + sorted(want_rets[0][1:], key=repr))
            elif nc is False:
                good = r == 'false'
            else:
                good = r == prop
            good = good and 'smt::theory::analyze_and_backjump' not in called
            seen_root.add(nc)
            ok_root = ok_root and good
        elif root is False:
            ok_below = ok_below and r == prop and 'smt::theory::analyze_and_backjump' in called
        else:
            ok_root = ok_below = False
    ok_root = ok_root and (seen_root == {None} or seen_root == {True, False})
    facts = {
        'back-jump level = max level over the conflict': okmax and env.init_of('bt_level') == ('num', 0),
        'root conflict posted as a clause, both results reported': ok_root,
        'analysed below root': ok_below and any(n.get('callee_name') == 'smt::theory::analyze_and_backjump' for n in f.nodes()),
    }
    for k, v in facts.items():
        ctx.instance(rid, [f.id, k], {'fact': k, 'holds': v, 'returns': [show(r) for r in rets]})
        if not v:
            ctx.finding(rid, f.id, k, 'theory::backtrack_analyze_and_backjump: "%s" does not hold' % k, loc=f.loc)


RESTS_ON = ['C07', 'C09', 'C10', 'C11', 'C12', 'C13', 'C14', 'C15', 'C16', 'C17']


def run(ctx):
    fs = ctx.facts('F')
    r1(ctx, fs)
    r2(ctx, fs)
    r3(ctx, fs, 'F')
    if ctx.tier == 'thorough':
        for name in ('M_h2_max_ci0_df1_ls0', 'M_h_add_ci0_df0_ls0', 'M_h2_add_ci1_df0_ls1'):
            mfs = ctx.facts(name)
            r3(ctx, mfs, name)
            r1(ctx, mfs)        # the #ifdef arms of solve() / the h_2 heuristic throw too
        ctx.cfg = 'F'
    r4(ctx, fs)
    # the end-to-end property rests on the structural clauses of the SAT core, the theories and the language front end: a problem is only rightly called unsolvable if no encoding is stronger than what was written
    for dep in RESTS_ON:
        ctx.include(dep)
    ctx.note('rule packs of the properties this one rests on were evaluated as part of this check: ' + ', '.join(RESTS_ON))
