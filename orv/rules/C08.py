"""C08 - undoing decisions restores the network exactly: the undo-log discipline (DESIGN 4, C08).

R1  who may write backtrackable state (frozen writer table; a new writer is a violation).
R2  save before write: every store to a backtrackable location in a guarded setter is preceded, on every path on
    which an undo layer exists and the key is not yet saved, by a save of the *current value of that very location*
    under the same key.
R3  first write wins: the save cannot overwrite an older saved value.
R4  restore overwrites and is complete: pop() re-assigns from every undo map of the layer and pops exactly one layer.
R5  pairing: push() pushes exactly one layer; sat_core::assume/pop and solver::push/pop reach every theory / the graph.
"""
from ..expr import LocalEnv, canon, show
from ..facts import AnalysisBroken, short, src, walk
from ..tables import enum_paths
from .. import effects

# ---- R1 table: backtrackable field -> functions allowed to mutate it (qualified names) ---------------------------
# creation at root (constructors, new_var, resize), the guarded setters, pop.
WRITERS = {
    'smt::lra_theory::c_bounds': {'smt::lra_theory::lra_theory', 'smt::lra_theory::new_var', 'smt::lra_theory::assert_lower',
                                  'smt::lra_theory::assert_upper', 'smt::lra_theory::pop'},
    'smt::lra_theory::layers': {'smt::lra_theory::lra_theory', 'smt::lra_theory::push', 'smt::lra_theory::pop',
                                'smt::lra_theory::assert_lower', 'smt::lra_theory::assert_upper'},
    'smt::sat_core::assigns': {'smt::sat_core::sat_core', 'smt::sat_core::new_var', 'smt::sat_core::enqueue', 'smt::sat_core::pop_one'},
    'smt::sat_core::level': {'smt::sat_core::sat_core', 'smt::sat_core::new_var', 'smt::sat_core::enqueue', 'smt::sat_core::pop_one'},
    'smt::sat_core::reason': {'smt::sat_core::sat_core', 'smt::sat_core::new_var', 'smt::sat_core::enqueue', 'smt::sat_core::pop_one',
                              # clears the reason of a literal whose clause is deleted by simplify_db at root level (guarded by reason[x] == this)
                              'smt::constr::remove_constr_from_reason'},
    'smt::sat_core::trail': {'smt::sat_core::sat_core', 'smt::sat_core::enqueue', 'smt::sat_core::pop_one'},
    'smt::sat_core::trail_lim': {'smt::sat_core::sat_core', 'smt::sat_core::assume', 'smt::sat_core::pop'},
    'smt::sat_core::decisions': {'smt::sat_core::sat_core', 'smt::sat_core::assume', 'smt::sat_core::pop'},
    'ratio::solver::flaws': {'ratio::solver::new_flaw', 'ratio::solver::expand_flaw', 'ratio::solver::propagate', 'ratio::solver::pop'},
    'ratio::flaw::est_cost': {'ratio::solver::set_cost', 'ratio::solver::pop', 'ratio::flaw::flaw'},
    'ratio::solver::trail': {'ratio::solver::push', 'ratio::solver::pop', 'ratio::solver::propagate', 'ratio::solver::set_cost'},
    'smt::ov_theory::layers': {'smt::ov_theory::push', 'smt::ov_theory::pop', 'smt::ov_theory::propagate', 'smt::ov_theory::ov_theory'},
}
for _t, _d in (('idl', 'long'), ('rdl', 'inf_rational')):
    T = 'smt::%s_theory' % _t
    WRITERS[T + '::_dists'] = {T + '::%s_theory' % _t, T + '::resize', T + '::set_dist', T + '::pop'}
    WRITERS[T + '::_preds'] = {T + '::%s_theory' % _t, T + '::resize', T + '::set_pred', T + '::pop'}
    WRITERS[T + '::dist_constr'] = {T + '::%s_theory' % _t, T + '::propagate', T + '::pop'}
    WRITERS[T + '::layers'] = {T + '::%s_theory' % _t, T + '::push', T + '::pop', T + '::propagate', T + '::set_dist', T + '::set_pred'}


def r1(ctx, fs):
    rid = 'C08.R1'
    ctx.rule(rid, 'every function that mutates a backtrackable member (bounds, distances, predecessors, responsible constraints, '
                  'assignment trail, flaw set and costs, undo layers) belongs to the reviewed writer table', floor=40)
    for field, allowed in sorted(WRITERS.items()):
        w = effects.field_writers(fs, field)
        if not w:
            raise AnalysisBroken('no writer at all found for backtrackable field %s (renamed?)' % field)
        for fid, sts in sorted(w.items()):
            f = fs.fns[fid]
            ctx.instance(rid, [field, f.name], {'field': field, 'writer': fid, 'how': sorted({s.how for s in sts})})
            if f.name not in allowed:
                s = sts[0]
                ctx.finding(rid, fid, field, 'backtrackable state %s is modified by %s, which is outside the undo-log discipline (allowed writers: %s)' % (
                    field, f.name, ', '.join(sorted(x.rsplit('::', 1)[-1] for x in allowed))), node=s.node,
                    expect='stores only through the guarded setters, creation at root level, and pop()')


# ---- R2/R3: guarded setters ------------------------------------------------------------------------------------------
# (function name, parameter filter, stored location field, undo-layer container field, undo map member or None when the layer *is* the map)
SETTERS = [
    ('smt::lra_theory::assert_lower', None, 'smt::lra_theory::c_bounds', 'smt::lra_theory::layers', None),
    ('smt::lra_theory::assert_upper', None, 'smt::lra_theory::c_bounds', 'smt::lra_theory::layers', None),
    ('ratio::solver::set_cost', None, 'ratio::flaw::est_cost', 'ratio::solver::trail', 'old_f_costs'),
]
for _t in ('idl', 'rdl'):
    T = 'smt::%s_theory' % _t
    SETTERS += [
        (T + '::set_dist', None, T + '::_dists', T + '::layers', 'old_dists'),
        (T + '::set_pred', None, T + '::_preds', T + '::layers', 'old_preds'),
        (T + '::propagate', ['lit'], T + '::dist_constr', T + '::layers', 'old_constrs'),
    ]


def _inline_accessors(fs, t, depth=0):
    """replace calls of trivial accessors `T f(args) const { return E; }` by E with parameters substituted."""
    if not isinstance(t, tuple) or depth > 4:
        return t
    t = tuple(_inline_accessors(fs, x, depth) for x in t)
    if t and t[0] == 'mcall' and len(t) >= 3 and t[2] == 'this':
        cands = [f for f in fs.by_name.get(t[1], []) if f.is_def and len(f['params']) == len(t) - 3]
        if len(cands) == 1:
            f = cands[0]
            body = f.body
            c = body.get('c') or []
            if len(c) == 1 and c[0].get('k') == 'ReturnStmt' and c[0].get('c'):
                e = canon(c[0]['c'][0], None)
                sub = {p['name']: a for p, a in zip(f['params'], t[3:])}
                e = _subst(e, sub)
                return _inline_accessors(fs, e, depth + 1)
    return t


def _subst(t, sub):
    if isinstance(t, str):
        return sub.get(t, t)
    if isinstance(t, tuple):
        return tuple(_subst(x, sub) for x in t)
    return t


def _conjuncts(t):
    if isinstance(t, tuple) and t and t[0] == '&&':
        for x in t[1:]:
            yield from _conjuncts(x)
    else:
        yield t


def _key_terms(t):
    """a key may be spelled {a, b}, std::make_pair(a, b), pair(a, b), found_iterator->first or a plain term; normalise."""
    if isinstance(t, tuple):
        if len(t) == 3 and t[0] == '.' and t[2] == 'first' and isinstance(t[1], tuple) and t[1][0] == 'mcall' and t[1][1].endswith('::find') and len(t[1]) == 4:
            return _key_terms(t[1][3])
        if t[0] in ('list',):
            return tuple(_key_terms(x) for x in t[1:])
        if t[0] == 'new' and isinstance(t[1], str) and t[1].startswith('std::pair'):
            return tuple(_key_terms(x) for x in t[2:])
        if t[0] == 'call' and t[1] == 'std::make_pair':
            return tuple(_key_terms(x) for x in t[2:])
    return t


def _pair_parts(t):
    """(k, v) of a pair spelled {k, v} / std::pair(k, v) / make_pair(k, v) (possibly wrapped in a value_type construction)."""
    while isinstance(t, tuple) and t[0] == 'new' and len(t) == 3 and isinstance(t[1], str) and t[1].startswith('std::pair') and isinstance(t[2], tuple) and t[2][0] in ('list', 'new'):
        t = t[2]
    if isinstance(t, tuple):
        if t[0] == 'list' and len(t) == 3:
            return t[1], t[2]
        if t[0] == 'new' and isinstance(t[1], str) and t[1].startswith('std::pair') and len(t) == 4:
            return t[2], t[3]
        if t[0] == 'call' and t[1] == 'std::make_pair' and len(t) == 4:
            return t[2], t[3]
    return None


def _loc_key(t):
    """index key of a location term: ([] ([] L a) b) -> (a, b); ([] L a) -> a; (. obj field) -> obj."""
    if isinstance(t, tuple) and t[0] == '[]':
        inner = t[1]
        if isinstance(inner, tuple) and inner[0] == '[]':
            return (_key_terms(inner[2]), _key_terms(t[2]))
        return _key_terms(t[2])
    if isinstance(t, tuple) and t[0] == '.':
        return t[1]
    return None


def r2(ctx, fs):
    rid = 'C08.R2'
    rid3 = 'C08.R3'
    ctx.rule(rid, 'in every guarded setter each store to backtrackable location L[k] is preceded (on every path where an undo layer exists and k '
                  'is unsaved) by a save into the undo map under the same key k of the value read from L[k] itself', floor=9)
    ctx.rule(rid3, 'first write wins: the save is non-overwriting (insert / emplace / try_emplace) or guarded by !count(k)', floor=9)
    for fname, params, loc_field, layers_field, mapname in SETTERS:
        f = fs.fn(fname, params=params) if params else fs.fn(fname)
        _CUR_FN[0] = f
        env = LocalEnv(f, fs)
        loc_short = loc_field.rsplit('::', 1)[-1]
        n_stores = 0
        for p in enum_paths(f.body):
            conds = []
            for c in p.conds:
                if c[0] == 'if':
                    conds.append((_inline_accessors(fs, canon(c[1], env)), c[2]))
            saves = []      # (key, value, how, node)
            for s in p.stmts:
                if s.get('as'):
                    continue
                for st in _stores_in(s):
                    flds = st.fields
                    if layers_field in flds and (mapname is None or any(x.endswith('::' + mapname) for x in flds)) and st.how in (
                            'insert', 'emplace', 'try_emplace', 'insert_or_assign', '=', 'emplace_hint'):
                        args = [canon(a, env) for a in (st.value if isinstance(st.value, list) else [st.value])]
                        if st.how == '=':
                            key = _loc_key(canon(st.target, env))
                            val = args[0]
                        elif len(args) == 1:
                            kv = _pair_parts(args[0])
                            if kv is not None:
                                key, val = _key_terms(kv[0]), kv[1]
                            else:
                                key, val = _key_terms(args[0]), None
                        else:
                            key, val = _key_terms(args[0]), args[1]
                        saves.append((key, _inline_accessors(fs, val) if val is not None else None, st.how, st.node))
                    elif loc_field in flds and flds[0] == loc_field or (loc_field in flds and st.how in ('emplace', 'insert', 'insert_or_assign', 'try_emplace', 'erase')):
                        # a store to the backtrackable location
                        n_stores += 1
                        if st.how in ('emplace', 'insert', 'insert_or_assign', 'try_emplace'):
                            args = [canon(a, env) for a in st.value]
                            kv = _pair_parts(args[0]) if len(args) == 1 else None
                            key = _key_terms(kv[0]) if kv is not None else _key_terms(args[0])
                            loc_t = ('[]', loc_field, key)
                            reads = {('find', key), ('at', key)}
                        else:
                            loc_t = canon(st.target, env)
                            key = _loc_key(loc_t)
                        disc = '%s[%s]' % (loc_short, show(key) if not isinstance(key, tuple) or key and isinstance(key[0], str) else ','.join(show(k) for k in key))
                        ctx.instance(rid, [f.id, disc], {'setter': f.id, 'store': src(st.node), 'location': show(loc_t), 'saves_before': [show(sv[0]) for sv in saves]})
                        # guard state on this path: the path conditions are atomic decisions, each a literal (term, polarity)
                        lits = []
                        for ct, pol in conds:
                            if pol:
                                lits.extend(_conjuncts(ct))
                            else:
                                lits.append(_neg(ct))
                        has_layer = None
                        unsaved = None
                        for l in lits:
                            if _is_not_empty(l, layers_field):
                                has_layer = True if has_layer is None else has_layer
                            elif _is_not_empty(_neg(l), layers_field):
                                has_layer = False
                            if _is_not_count(l, layers_field, mapname, key):
                                unsaved = True if unsaved is None else unsaved
                            elif _is_not_count(_neg(l), layers_field, mapname, key):
                                has_layer = False       # already saved in this layer: nothing to log
                            elif isinstance(l, tuple) and l[0] == '!' and isinstance(l[1], tuple) and l[1][0] == '&&':
                                # a failed conjunction that was not decomposed: cannot tell which conjunct failed
                                if any(_is_not_empty(x, layers_field) or _is_not_count(x, layers_field, mapname, key) for x in _conjuncts(l[1])):
                                    has_layer = False
                        matching = [sv for sv in saves if _same_key(sv[0], key)]
                        if has_layer is False:
                            continue      # root level or already saved: nothing to log
                        if not matching:
                            ctx.finding(rid, f.id, disc, '%s overwrites %s without first logging the old value in the undo layer (%s): a later pop() cannot restore it' % (
                                f.name, show(loc_t), mapname or 'layer'), node=st.node,
                                expect='if (!layers.empty() && !layers.back().%s.count(k)) layers.back().%s.insert({k, <current value>}) before the store' % (mapname or 'map', mapname or 'map'))
                            continue
                        sv = matching[-1]
                        ctx.instance(rid3, [f.id, disc], {'setter': f.id, 'save': src(sv[3]), 'how': sv[2], 'guarded_by_not_count': unsaved})
                        # the "already saved?" test must look the very key of the save up: a test on another key skips the save of an unsaved location
                        for cj in lits:
                            if True:
                                if True:
                                    gk = _count_guard_key(cj, layers_field, mapname)
                                    if gk is not None and gk != key:
                                        ctx.finding(rid3, f.id, disc + '/guard-key', '%s: the save of %s is skipped when key %s is already in the undo layer, but the location saved and overwritten has key %s: '
                                                    'when the other key was saved first in this decision level the old value is never logged and pop() cannot restore it' % (
                                                        f.name, show(loc_t), show(gk), show(key)), node=sv[3], expect='!count(<the key of the save>)')
                        if sv[2] in ('=', 'insert_or_assign') and unsaved is not True:
                            ctx.finding(rid3, f.id, disc, '%s: the save of %s overwrites an older saved value (first write must win across several updates in one decision level)' % (
                                f.name, show(loc_t)), node=sv[3], expect='guard with !count(k) or use insert/try_emplace')
                        # value check
                        if sv[1] is not None:
                            want = [_norm_idx(w) for w in _current_value_forms(fs, loc_t, st)]
                            if _is_map_field(fs, loc_field):
                                want.append('nullptr')      # key absent so far: pop() erases the entry
                            if _norm_idx(_norm_find(sv[1])) not in want:
                                ctx.finding(rid, f.id, disc + '/value', '%s saves %s as the old value of %s, which is not the value stored there (expected %s): after two updates across levels pop() restores a wrong value' % (
                                    f.name, show(sv[1]), show(loc_t), show(want[0])), node=sv[3], expect='save the current content of the location being overwritten')
        if n_stores == 0:
            raise AnalysisBroken('%s: no store to %s found' % (f.id, loc_field))


_CUR_FN = [None]


def _stores_in(s):
    class _F:
        def __init__(self, s):
            self.s = s
            self.fn = _CUR_FN[0]        # lets effects resolve reference locals (`auto &top = layers.back();`) to what they name

        def nodes(self):
            return walk(self.s)
    return effects.stores(_F(s))


def _same_key(a, b):
    return a == b


def _is_not_empty(t, layers_field):
    return t == ('!', ('mcall', _m(t), layers_field)) if False else (
        isinstance(t, tuple) and len(t) == 2 and t[0] == '!' and isinstance(t[1], tuple) and t[1][0] == 'mcall' and
        t[1][1].endswith('::empty') and t[1][2] == layers_field)


def _m(t):
    return ''


def _is_not_count(t, layers_field, mapname, key):
    if not (isinstance(t, tuple) and len(t) == 2 and t[0] == '!' and isinstance(t[1], tuple) and t[1][0] == 'mcall'):
        return False
    c = t[1]
    if not (c[1].endswith('::count') or c[1].endswith('::contains')):
        return False
    obj = c[2]
    if mapname is not None:
        if not (isinstance(obj, tuple) and obj[0] == '.' and obj[2] == mapname):
            return False
    return len(c) == 4 and _key_terms(c[3]) == key


def _neg(t):
    if isinstance(t, tuple) and len(t) == 2 and t[0] == '!':
        return t[1]
    return ('!', t)


def _mentions(t, name):
    if t == name:
        return True
    return isinstance(t, tuple) and any(_mentions(x, name) for x in t)


def _count_guard_key(t, layers_field, mapname):
    """key tested by a `!M.count(k)` / `!M.contains(k)` conjunct on the undo map of the top layer, else None."""
    if not (isinstance(t, tuple) and len(t) == 2 and t[0] == '!' and isinstance(t[1], tuple) and t[1][0] == 'mcall'):
        return None
    c = t[1]
    if not (c[1].endswith('::count') or c[1].endswith('::contains')) or len(c) != 4:
        return None
    obj = c[2]
    if not _mentions(obj, layers_field):
        return None
    if mapname is not None and not (isinstance(obj, tuple) and obj[0] == '.' and obj[2] == mapname):
        return None
    return _key_terms(c[3])


def _norm_find(t):
    """(. (mcall find M k) second) -> ([] M k): the value found under k."""
    if isinstance(t, tuple):
        t = tuple(_norm_find(x) for x in t)
        if len(t) == 3 and t[0] == '.' and t[2] == 'second' and isinstance(t[1], tuple) and t[1][0] == 'mcall' and t[1][1].endswith('::find') and len(t[1]) == 4:
            return ('[]', t[1][2], _key_terms(t[1][3]))
    return t


def _norm_idx(t):
    if isinstance(t, tuple):
        t = tuple(_norm_idx(x) for x in t)
        if t and t[0] == '[]' and len(t) == 3:
            return ('[]', t[1], _key_terms(t[2]))
    return t


def _is_map_field(fs, field):
    cls, name = field.rsplit('::', 1)
    for fl in (fs.records.get(cls) or {}).get('fields', []):
        if fl['name'] == name:
            return 'map<' in fl['t']
    return False


def _current_value_forms(fs, loc_t, st):
    """acceptable spellings of 'the current value of the location': the read itself, or the aggregate of all its fields."""
    forms = [loc_t]
    # aggregate {L.f1, L.f2, ...} for struct-valued locations
    tgt_t = (st.target or {}).get('t', '')
    rec = fs.records.get(tgt_t.replace('const ', '').strip())
    if rec and rec.get('fields'):
        forms.append(('list',) + tuple(('.', loc_t, fl['name']) for fl in rec['fields']))
    return forms


# ---- R4 / R5 ---------------------------------------------------------------------------------------------------------------
POPS = [
    ('smt::lra_theory::pop', 'smt::lra_theory::layers', {None: 'smt::lra_theory::c_bounds'}),
    ('ratio::solver::pop', 'ratio::solver::trail', {'old_f_costs': 'ratio::flaw::est_cost', 'new_flaws': 'ratio::solver::flaws', 'solved_flaws': 'ratio::solver::flaws'}),
]
for _t in ('idl', 'rdl'):
    T = 'smt::%s_theory' % _t
    POPS.append((T + '::pop', T + '::layers', {'old_dists': T + '::_dists', 'old_preds': T + '::_preds', 'old_constrs': T + '::dist_constr'}))


def r4(ctx, fs):
    rid = 'C08.R4'
    ctx.rule(rid, 'pop() iterates every undo map of the top layer and re-assigns (operator= / insert_or_assign / erase for an absent value, never a '
                  'non-overwriting emplace/insert) the location it was saved from, then pops exactly one layer', floor=9)
    for fname, layers_field, maps in POPS:
        f = fs.fn(fname)
        env = LocalEnv(f)
        loops = {}
        for n in walk(f.body):
            if n.get('k') == 'CXXForRangeStmt':
                r = canon(n['slots']['range'], env)
                # (. (mcall back layers) M)  or (mcall back layers)
                if isinstance(r, tuple) and r[0] == '.' and isinstance(r[1], tuple) and r[1][0] == 'mcall' and r[1][1].endswith('::back') and r[1][2] == layers_field:
                    loops[r[2]] = n
                elif isinstance(r, tuple) and r[0] == 'mcall' and r[1].endswith('::back') and r[2] == layers_field:
                    loops[None] = n
        for m, loc_field in maps.items():
            disc = 'restore:%s' % (m or 'layer')
            loop = loops.get(m)
            ctx.instance(rid, [f.id, disc], {'pop': f.id, 'undo_map': m or '(the layer itself)', 'restores': loc_field, 'loop': short(loop.get('loc')) if loop else None})
            if loop is None:
                ctx.finding(rid, f.id, disc, '%s does not restore %s from the undo map %s of the layer being popped' % (f.name, loc_field, m or '(layer)'),
                            loc=f.loc, expect='for (k, v : layers.back().%s) %s[k] = v' % (m or 'map', loc_field.rsplit('::', 1)[-1]))
                continue
            sts = [s for s in _stores_in(loop['slots']['body']) if loc_field in s.fields]
            if not sts:
                ctx.finding(rid, f.id, disc, '%s iterates %s but never writes %s' % (f.name, m or 'the layer', loc_field), node=loop)
                continue
            is_set = 'set<' in ((fs.records.get(loc_field.rsplit('::', 1)[0]) or {}).get('fields') and
                               next((fl['t'] for fl in fs.records[loc_field.rsplit('::', 1)[0]]['fields'] if fl['name'] == loc_field.rsplit('::', 1)[1]), '') or '')
            for s in sts:
                if s.how in ('emplace', 'insert', 'try_emplace', 'emplace_hint') and not is_set:
                    ctx.finding(rid, f.id, disc + '/' + s.how, '%s restores %s with %s(), which does nothing when the key is present: the entry installed after the save survives the pop' % (
                        f.name, loc_field, s.how), node=s.node, expect='overwrite: %s[k] = saved / insert_or_assign' % loc_field.rsplit('::', 1)[-1])
        # exactly one layer popped, outside any loop
        pops = [s for s in effects.stores(f) if layers_field in s.fields and s.fields[0] == layers_field and s.how == 'pop_back']
        in_loop = [s for s in pops if any(a.get('k') in ('CXXForRangeStmt', 'ForStmt', 'WhileStmt', 'DoStmt') for a in f.ancestors(s.node))]
        ctx.instance(rid, [f.id, 'pop_back'], {'pop': f.id, 'pop_back_calls': len(pops)})
        if len(pops) != 1 or in_loop:
            ctx.finding(rid, f.id, 'pop_back', '%s removes %d undo layers (%d inside a loop); it must remove exactly the one it restored from' % (f.name, len(pops), len(in_loop)),
                        loc=f.loc, expect='exactly one %s.pop_back() after the restore loops' % layers_field.rsplit('::', 1)[-1])


PUSHES = [('smt::lra_theory::push', 'smt::lra_theory::layers'), ('smt::idl_theory::push', 'smt::idl_theory::layers'),
          ('smt::rdl_theory::push', 'smt::rdl_theory::layers'), ('smt::ov_theory::push', 'smt::ov_theory::layers'),
          ('ratio::solver::push', 'ratio::solver::trail')]


def r5(ctx, fs):
    rid = 'C08.R5'
    ctx.rule(rid, 'push() adds exactly one layer; ov_theory::pop removes exactly one; sat_core::assume / pop call push / pop of every theory '
                  '(unfiltered loop over `theories`) and move trail_lim and decisions together; solver::push/pop pair the graph', floor=9)
    for fname, layers_field in PUSHES:
        f = fs.fn(fname)
        adds = [s for s in effects.stores(f) if s.fields and s.fields[0] == layers_field and s.how in ('push_back', 'emplace_back')]
        in_loop = [s for s in adds if any(a.get('k') in ('CXXForRangeStmt', 'ForStmt', 'WhileStmt', 'DoStmt', 'IfStmt') for a in f.ancestors(s.node))]
        ctx.instance(rid, [f.id, 'push'], {'push': f.id, 'layers_added': len(adds)})
        if len(adds) != 1 or in_loop:
            ctx.finding(rid, f.id, 'push', '%s adds %d undo layers (%d conditionally); pop() removes exactly one per decision' % (f.name, len(adds), len(in_loop)), loc=f.loc,
                        expect='exactly one unconditional push_back/emplace_back')
    f = fs.fn('smt::ov_theory::pop')
    pops = [s for s in effects.stores(f) if s.fields and s.fields[0] == 'smt::ov_theory::layers' and s.how == 'pop_back']
    ctx.instance(rid, [f.id, 'pop_back'], {'pop': f.id, 'pop_back_calls': len(pops)})
    if len(pops) != 1:
        ctx.finding(rid, f.id, 'pop_back', 'ov_theory::pop removes %d layers' % len(pops), loc=f.loc)
    # sat_core::assume / pop
    for fname, meth, moves in (('smt::sat_core::assume', 'smt::theory::push', 'push_back'), ('smt::sat_core::pop', 'smt::theory::pop', 'pop_back')):
        f = fs.fn(fname)
        calls = [n for n in f.nodes() if n.get('callee_name') == meth]
        ok = False
        for n in calls:
            anc = list(f.ancestors(n))
            loops = [a for a in anc if a.get('k') == 'CXXForRangeStmt']
            conds = [a for a in anc if a.get('k') in ('IfStmt', 'SwitchStmt', 'ConditionalOperator')]
            if len(loops) == 1 and not conds and canon(loops[0]['slots']['range'], None) == 'smt::sat_core::theories':
                ok = True
        ctx.instance(rid, [f.id, meth], {'function': f.id, 'calls': len(calls), 'unfiltered_loop_over_theories': ok})
        if not ok:
            ctx.finding(rid, f.id, meth, '%s does not call %s on every theory (unconditional loop over `theories`)' % (f.name, meth), loc=f.loc,
                        expect='for (const auto &th : theories) th->%s();' % meth.rsplit('::', 1)[-1])
        for fld in ('smt::sat_core::trail_lim', 'smt::sat_core::decisions'):
            mv = [s for s in effects.stores(f) if s.fields and s.fields[0] == fld and s.how == moves]
            cond = [s for s in mv if any(a.get('k') in ('IfStmt', 'CXXForRangeStmt', 'ForStmt', 'WhileStmt', 'DoStmt') for a in f.ancestors(s.node))]
            ctx.instance(rid, [f.id, fld], {'function': f.id, 'field': fld, moves: len(mv)})
            if len(mv) != 1 or cond:
                ctx.finding(rid, f.id, fld, '%s performs %d %s on %s (%d conditional); decision levels and the decision list must move together, once' % (
                    f.name, len(mv), moves, fld, len(cond)), loc=f.loc)
    # sat_core::pop pops assignments down to the level mark: loop `while (trail_lim.back() < trail.size()) pop_one()`
    f = fs.fn('smt::sat_core::pop')
    ok = False
    envp = LocalEnv(f)
    for n in f.nodes():
        if n.get('k') == 'WhileStmt':
            c = canon(n['slots']['cond'], envp, subst=False)
            # the level mark may have been read into a local before the loop (a snapshot of trail_lim.back() taken while it is still the top)
            if isinstance(c, tuple) and len(c) == 3 and isinstance(c[1], str):
                for d in envp.decls.values():
                    if d.get('name') == c[1] and isinstance(d.get('init'), dict):
                        c = (c[0], canon(d['init'], envp, subst=False), c[2])
            body_calls = [m for m in walk(n['slots']['body']) if m.get('callee_name') == 'smt::sat_core::pop_one']
            if body_calls and c == ('<', ('mcall', 'std::vector<unsigned long>::back', 'smt::sat_core::trail_lim'), ('mcall', 'std::vector<smt::lit>::size', 'smt::sat_core::trail')):
                ok = True
    ctx.instance(rid, [f.id, 'unwind'], {'function': f.id, 'unwinds_to_level_mark': ok})
    if not ok:
        ctx.finding(rid, f.id, 'unwind', 'sat_core::pop does not unassign every literal above the level mark (while (trail_lim.back() < trail.size()) pop_one())', loc=f.loc)
    # pop_one resets assigns / level / reason of the popped variable and shrinks the trail
    f = fs.fn('smt::sat_core::pop_one')
    env = LocalEnv(f)
    want = {'smt::sat_core::assigns': 'smt::Undefined', 'smt::sat_core::level': ('num', 0), 'smt::sat_core::reason': 'nullptr'}
    got = {}
    for s in effects.stores(f):
        if s.how == '=' and s.fields and s.fields[0] in want:
            t = canon(s.target, env)
            got[s.fields[0]] = (t[2] if isinstance(t, tuple) and t[0] == '[]' else None, canon(s.value, env))
    vterm = ('call', 'smt::variable', ('mcall', 'std::vector<smt::lit>::back', 'smt::sat_core::trail'))
    for fld, val in want.items():
        ctx.instance(rid, [f.id, fld], {'function': f.id, 'reset': fld, 'got': show(got.get(fld)) if got.get(fld) else None})
        g = got.get(fld)
        if g is None or g[0] != vterm or g[1] != val:
            ctx.finding(rid, f.id, fld, 'sat_core::pop_one does not reset %s of the popped variable to %s' % (fld.rsplit('::', 1)[-1], show(val)), loc=f.loc,
                        expect='%s[variable(trail.back())] = %s' % (fld.rsplit('::', 1)[-1], show(val)))
    tp = [s for s in effects.stores(f) if s.fields and s.fields[0] == 'smt::sat_core::trail' and s.how == 'pop_back']
    if len(tp) != 1:
        ctx.finding(rid, f.id, 'trail', 'sat_core::pop_one removes %d entries from the trail' % len(tp), loc=f.loc)
    # solver::push / pop pair the graph
    for fname, meth in (('ratio::solver::push', 'ratio::graph::push'), ('ratio::solver::pop', 'ratio::graph::pop')):
        f = fs.fn(fname)
        calls = [n for n in f.nodes() if n.get('callee_name') == meth and not any(a.get('k') in ('IfStmt', 'CXXForRangeStmt', 'ForStmt', 'WhileStmt') for a in f.ancestors(n))]
        ctx.instance(rid, [f.id, meth], {'function': f.id, 'calls': len(calls)})
        if len(calls) != 1:
            ctx.finding(rid, f.id, meth, '%s calls %s %d times unconditionally (must be exactly once)' % (f.name, meth, len(calls)), loc=f.loc)


def r6(ctx, fs):
    """solver::propagate mirrors every flaws.insert/erase below root level into the trail layer."""
    rid = 'C08.R6'
    ctx.rule(rid, 'in solver::propagate every flaws.insert(x) / flaws.erase(x) is accompanied on the same path, when a trail layer exists, by '
                  'trail.back().new_flaws / solved_flaws .insert(x)', floor=2)
    f = fs.fn('ratio::solver::propagate')
    env = LocalEnv(f)
    sts = [s for s in effects.stores(f) if s.fields and s.fields[0] == 'ratio::solver::flaws' and s.how in ('insert', 'erase')]
    for s in sts:
        arg = canon(s.value[0], env) if s.value else None
        mirror = 'new_flaws' if s.how == 'insert' else 'solved_flaws'
        # nearest enclosing compound statement: look for the mirrored insert with the same argument among its siblings / descendants
        found = False
        for a in f.ancestors(s.node):
            if a.get('k') == 'CompoundStmt':
                for t in _stores_in(a):
                    if t.how == 'insert' and 'ratio::solver::trail' in t.fields and any(x.endswith('::' + mirror) for x in t.fields) and t.value and canon(t.value[0], env) == arg:
                        found = True
                break
        disc = '%s(%s)' % (s.how, show(arg))
        ctx.instance(rid, [f.id, disc], {'store': src(s.node), 'mirrored_in': mirror, 'found': found})
        if not found:
            ctx.finding(rid, f.id, disc, 'solver::propagate performs flaws.%s(%s) without recording it in trail.back().%s: solver::pop cannot undo it' % (s.how, show(arg), mirror),
                        node=s.node, expect='if (!trail.empty()) trail.back().%s.insert(%s)' % (mirror, show(arg)))


def agenda_restore(ctx, fs, rid='C08.R6'):
    """solver::pop undoes the agenda bookkeeping of the popped level exactly: every flaw solved at that level comes back, every flaw that appeared at that level goes,
    every saved cost is written back - all three unconditionally - and one trail layer is removed (shared by C08.R6 and C03.R7)."""
    f = fs.fn('ratio::solver::pop')
    env = LocalEnv(f)
    want = {'solved_flaws': ('insert', 'a flaw solved at the popped level is open again'), 'new_flaws': ('erase', 'a flaw that appeared at the popped level no longer exists')}
    seen = {}
    for n in f.nodes():
        if n.get('k') != 'CXXForRangeStmt':
            continue
        rng = canon(n['slots']['range'], env, subst=False)
        for fld, (op, why) in want.items():
            if isinstance(rng, tuple) and rng[0] == '.' and rng[2] == fld and 'ratio::solver::trail' in show(rng).replace('solver::trail', 'ratio::solver::trail') and 'back' in show(rng):
                v = n['slots']['var'].get('name')
                sts = [st for st in _stores_in(n['slots']['body']) if st.fields and st.fields[0] == 'ratio::solver::flaws']
                cond = any(m.get('k') in ('IfStmt', 'ContinueStmt', 'BreakStmt', 'ConditionalOperator', 'ReturnStmt') for m in walk(n['slots']['body']))
                ok = len(sts) == 1 and sts[0].how == op and sts[0].value and canon(sts[0].value[0], env, subst=False) == v and not cond
                seen[fld] = ok
                ctx.instance(rid, [f.id, 'agenda', fld], {'loop_over': 'trail.back().' + fld, 'operation': [st.how for st in sts], 'unconditional': not cond, 'ok': ok})
                if not ok:
                    ctx.finding(rid, f.id, 'agenda:' + fld, 'solver::pop must flaws.%s(f) for EVERY f of trail.back().%s, unconditionally (%s); otherwise solve() can stop with an empty agenda while an active flaw '
                                'has no resolver, or keep a flaw that no longer exists' % (op, fld, why), node=n)
    for fld in want:
        if fld not in seen:
            ctx.finding(rid, f.id, 'agenda:' + fld, 'solver::pop does not iterate trail.back().%s' % fld, loc=f.loc)
    pops = [st for st in effects.stores(f) if st.fields and st.fields[0] == 'ratio::solver::trail' and st.how == 'pop_back' and st.target is not None and canon(st.target, env, subst=False) == 'ratio::solver::trail']
    cond = [st for st in pops if any(a.get('k') in ('IfStmt', 'CXXForRangeStmt', 'ForStmt', 'WhileStmt', 'DoStmt') for a in f.ancestors(st.node))]
    ctx.instance(rid, [f.id, 'agenda', 'layer'], {'trail_pop_back': len(pops), 'conditional': len(cond)})
    if len(pops) != 1 or cond:
        ctx.finding(rid, f.id, 'agenda:layer', 'solver::pop removes %d trail layers (%d conditionally); exactly one per pop' % (len(pops), len(cond)), loc=f.loc)


def run(ctx):
    fs = ctx.facts('P')
    r1(ctx, fs)
    r2(ctx, fs)
    r4(ctx, fs)
    r5(ctx, fs)
    r6(ctx, fs)
    agenda_restore(ctx, fs)
    # the watch lists are not undone by pop(): that the network behaves alike after an undo rests on the watch invariants of the SAT core (C07: a learnt clause
    # watches its two highest-level literals, a clause never loses a watch)
    ctx.include('C07')
