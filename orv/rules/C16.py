"""C16 - RIDDLE is read and evaluated with the language's semantics (DESIGN 4, C16).

R1  symbol production / consumption: every symbol the parser consumes is produced by the lexer; no lexeme is mapped to the symbol of another one.
R2  keyword / punctuation trie of lexer::next against the oracle (keyword lexeme = lower-cased stem of the enumerator; punctuation table of the grammar);
    every keyword path ends with the identifier escape and falls back to finish_id on a mismatch.
R4  token typestate of the parser: a raw `tk = next()` / a down-cast of `tk` only on a token whose symbol has been examined.
R5  precedence table of parser::_expression.
R7  routing chain: lexeme -> symbol -> parser factory -> core_parser node -> core operation; every parser factory is overridden by core_parser.
"""
from ..expr import LocalEnv, canon, show
from ..facts import AnalysisBroken, kids, short, src, walk, walk_nolambda
from ..tables import arm_of, enum_paths, switch_arms
from .. import cfg

LEX = 'riddle::lexer::'
PAR = 'riddle::parser::'

PUNCT = {
    '.': 'DOT_ID', ',': 'COMMA_ID', ':': 'COLON_ID', ';': 'SEMICOLON_ID', '(': 'LPAREN_ID', ')': 'RPAREN_ID', '[': 'LBRACKET_ID', ']': 'RBRACKET_ID',
    '{': 'LBRACE_ID', '}': 'RBRACE_ID', '+': 'PLUS_ID', '-': 'MINUS_ID', '*': 'STAR_ID', '/': 'SLASH_ID', '&': 'AMP_ID', '|': 'BAR_ID', '=': 'EQ_ID',
    '>': 'GT_ID', '<': 'LT_ID', '!': 'BANG_ID', '==': 'EQEQ_ID', '<=': 'LTEQ_ID', '>=': 'GTEQ_ID', '!=': 'BANGEQ_ID', '->': 'IMPLICATION_ID', '^': 'CARET_ID',
}
LITERAL_SYMS = {'ID_ID', 'BoolLiteral_ID', 'IntLiteral_ID', 'RealLiteral_ID', 'StringLiteral_ID', 'EOF_ID'}
BOOL_LEXEMES = {'true': True, 'false': False}


def keyword_oracle(enumerators):
    """keyword symbol -> lexeme: the lower-cased stem of the enumerator name."""
    kws = {}
    for e in enumerators:
        if e in LITERAL_SYMS or e in PUNCT.values():
            continue
        if e.endswith('_ID') and e[:-3].isupper():
            kws[e] = e[:-3].lower()
    return kws


CH = LEX + 'ch'
NEXTC = ('mcall', LEX + 'next_char', 'this')
READ = ('=', CH, NEXTC)


def lexer_paths(f):
    """[(lexeme chars, boundary-checked?, result term, mismatch-returns)] for every return of lexer::next that yields a keyword / punctuation / bool token."""
    env = LocalEnv(f)
    out = []
    for p in enum_paths(f.body, limit=20000):
        if p.end != 'return':
            continue
        r = canon(p.endnode['c'][0], env, subst=False)
        if not (isinstance(r, tuple) and r[0] == 'mcall' and r[1] in (LEX + 'mk_token', LEX + 'mk_bool_token')):
            continue
        chars = []
        boundary = False
        ok = True
        digit_atoms = []
        for c in p.conds:
            if c[0] == 'switch':
                t = canon(c[1], env, subst=False)
                labs = [l for l in c[2] if l[0] == 'case']
                if t in (CH, READ) or (isinstance(t, tuple) and t[0] == ',' and t[-1] == READ):
                    if any(l[0] == 'nomatch' for l in c[2]):
                        continue            # look-ahead character matched no case: nothing consumed into the lexeme
                    if len(labs) != 1:
                        ok = False
                        break
                    chars.append(labs[0][1])
                else:
                    ok = False
                    break
            else:
                t = canon(c[1], env, subst=False)
                if isinstance(t, tuple) and t[0] == ',':
                    t = t[-1]
                pol = c[2]
                # conditions arrive as atomic decisions (tables.decisions): a comparison of the character just read, is_id_part(ch), or a range test
                if isinstance(t, tuple) and t[0] in ('!=', '==') and len(t) == 3 and (READ in t[1:] or CH in t[1:]):
                    other = [x for x in t[1:] if x not in (READ, CH)]
                    if len(other) != 1 or not (isinstance(other[0], tuple) and other[0][0] == 'num'):
                        ok = False
                        break
                    eq = (t[0] == '==') == pol
                    if other[0][1] == -1:
                        if eq:
                            boundary = True         # end of input right after the lexeme
                    elif eq:
                        chars.append(other[0][1])
                    else:
                        chars.append(('not', other[0][1]))
                elif isinstance(t, tuple) and t[0] in ('call', 'mcall') and str(t[1]).endswith('is_id_part'):
                    if pol:
                        ok = False      # identifier continues: not a keyword path
                        break
                    boundary = True
                elif isinstance(t, tuple) and t[0] in ('<', '<=') and len(t) == 3 and (CH in t[1:] or READ in t[1:]):
                    # digit range test after '.': ch >= '0' and ch <= '9' in any spelling
                    lo = (t[1] == ('num', 48) and t[0] == '<=' and pol) or (t[2] == ('num', 48) and t[0] == '<' and not pol)
                    hi = (t[2] == ('num', 57) and t[0] == '<=' and pol) or (t[1] == ('num', 57) and t[0] == '<' and not pol)
                    digit_atoms.append('lo' if lo else ('hi' if hi else 'out'))
                else:
                    ok = False
                    break
        if 'lo' in digit_atoms and 'hi' in digit_atoms:
            ok = False              # a digit follows the '.': number literal path
        if not ok:
            continue
        out.append((chars, boundary, r, p))
    return out


def lexeme(chars):
    s = ''
    for c in chars:
        if isinstance(c, tuple):
            continue
        if c == -1:
            return None
        s += chr(c)
    return s


def r1_r2(ctx, fs):
    rid1, rid2 = 'C16.R1', 'C16.R2'
    ctx.rule(rid1, 'every enumerator of riddle::symbol that the parser consumes (match, case, tk->sym ==/!=) is produced by the lexer; every keyword / punctuation symbol is produced by exactly one lexeme', floor=40)
    ctx.rule(rid2, 'character paths of lexer::next: keyword lexeme = lower-cased stem of its enumerator, true/false -> mk_bool_token(true/false), punctuation per the RIDDLE grammar table; '
                   'keyword paths end with the identifier-boundary test (next char is -1 or no identifier part) and every mismatch on the way returns finish_id', floor=40)
    enum = [e['name'] for e in fs.enum('riddle::symbol')['enumerators']]
    kw = keyword_oracle(enum)
    f = fs.fn(LEX + 'next')
    paths = lexer_paths(f)
    produced = {}       # symbol -> set of lexemes
    bools = {}
    for chars, boundary, r, p in paths:
        lx = lexeme(chars)
        if lx is None:
            if r[1] == LEX + 'mk_token' and r[3] == 'EOF_ID':
                produced.setdefault('EOF_ID', set()).add('<eof>')
            continue
        if r[1] == LEX + 'mk_bool_token':
            bools.setdefault(lx, set()).add(r[3])
            produced.setdefault('BoolLiteral_ID', set()).add(lx)
        else:
            produced.setdefault(r[3], set()).add(lx)
        # R2 per path
        is_word = lx[:1].isalpha()
        ctx.instance(rid2, [f.id, lx], {'lexeme': lx, 'token': show(r[3]) if r[1].endswith('mk_token') else 'bool(%s)' % show(r[3]), 'identifier_boundary_checked': boundary})
        if is_word:
            want = None
            if lx in BOOL_LEXEMES:
                want = ('bool', 'true' if BOOL_LEXEMES[lx] else 'false')
                got = ('bool', r[3]) if r[1] == LEX + 'mk_bool_token' else ('sym', r[3])
            else:
                sym = [k for k, v in kw.items() if v == lx]
                want = ('sym', sym[0]) if sym else None
                got = ('sym', r[3]) if r[1] == LEX + 'mk_token' else ('bool', r[3])
            if want is None:
                ctx.finding(rid2, f.id, 'word:' + lx, 'lexer::next turns the word `%s` into %s although no keyword symbol is named after it' % (lx, show(r)), node=p.endnode)
            elif got != want:
                ctx.finding(rid2, f.id, 'word:' + lx, 'lexer::next: the keyword `%s` must produce %s, it produces %s' % (lx, want[1], got[1]), node=p.endnode, expect=want[1])
            if not boundary:
                ctx.finding(rid2, f.id, 'boundary:' + lx, 'lexer::next: `%s` is recognised without testing that the identifier ends there (`%sx` would be split)' % (lx, lx), node=p.endnode)
        else:
            want = PUNCT.get(lx)
            if want is None:
                ctx.finding(rid2, f.id, 'punct:' + lx, 'lexer::next produces %s for `%s`, which is not a punctuation of the language' % (show(r[3]), lx), node=p.endnode)
            elif r[3] != want:
                ctx.finding(rid2, f.id, 'punct:' + lx, 'lexer::next: `%s` must produce %s, it produces %s' % (lx, want, show(r[3])), node=p.endnode, expect=want)
    # completeness of the oracle side
    consumed_syms = _consumed(fs, enum)
    for sym, lx in sorted(kw.items()):
        if sym not in consumed_syms and not produced.get(sym):
            ctx.note('R2: keyword symbol %s is neither produced nor consumed (`%s` is handled as a plain identifier)' % (sym, lx))
            continue
        if lx not in produced.get(sym, ()):
            ctx.finding(rid2, f.id, 'missing:' + lx, 'lexer::next never produces %s: the keyword `%s` is read as %s' % (sym, lx, sorted(s for s, ls in produced.items() if lx in ls) or 'an identifier'), loc=f.loc, expect='`%s` -> %s' % (lx, sym))
    for lx, sym in sorted(PUNCT.items()):
        if lx not in produced.get(sym, ()):
            ctx.finding(rid2, f.id, 'missing:' + lx, 'lexer::next never produces %s for `%s`' % (sym, lx), loc=f.loc)
    for lx, b in BOOL_LEXEMES.items():
        if bools.get(lx) != {'true' if b else 'false'}:
            ctx.finding(rid2, f.id, 'missing:' + lx, 'lexer::next: the literal `%s` must produce mk_bool_token(%s) (found %s)' % (lx, 'true' if b else 'false', sorted(bools.get(lx, ()))), loc=f.loc)
    # mismatch fallback: every `!= 'x'` test on a keyword path returns finish_id(str) when it fails
    env = LocalEnv(f)
    n_fb = 0
    for n in f.nodes():
        if n.get('k') == 'IfStmt':
            t = canon(n['slots']['cond'], env, subst=False)
            if isinstance(t, tuple) and t[0] == ',':
                t = t[-1]
            if isinstance(t, tuple) and t[0] == '!=' and READ in t[1:] and any(isinstance(x, tuple) and x[0] == 'num' and x[1] > 0 and chr(x[1]).isalpha() for x in t[1:]):
                n_fb += 1
                rets = [canon(r['c'][0], env, subst=False) for r in walk(n['slots']['then']) if r.get('k') == 'ReturnStmt']
                if not (len(rets) == 1 and isinstance(rets[0], tuple) and rets[0][1] == LEX + 'finish_id'):
                    ctx.finding(rid2, f.id, 'fallback@' + show(t), 'lexer::next: a mismatch inside a keyword must continue the word as an identifier (return finish_id(str)); found %s' % [show(r) for r in rets], node=n)
    ctx.instance(rid2, [f.id, 'fallbacks'], {'keyword_mismatch_tests': n_fb})
    # literal-token producers: from the token subclasses' constructors
    for cls, sym in (('id_token', 'ID_ID'), ('bool_token', 'BoolLiteral_ID'), ('int_token', 'IntLiteral_ID'), ('real_token', 'RealLiteral_ID'), ('string_token', 'StringLiteral_ID')):
        ctor = fs.fns_named('riddle::%s::%s' % (cls, cls))
        got = None
        for c in ctor:
            for io in c.get('inits') or ():
                if io.get('base') == 'riddle::token':
                    t = canon(io['init'], None)
                    got = t[2] if isinstance(t, tuple) and len(t) > 2 else None
        ctx.instance(rid1, ['token-class', cls], {'class': cls, 'symbol': show(got)})
        if got != sym:
            ctx.finding(rid1, 'riddle::' + cls, 'symbol', 'riddle::%s must carry the symbol %s (found %s)' % (cls, sym, show(got)), loc='riddle/riddle_lexer.h')
        else:
            produced.setdefault(sym, set()).add('<%s>' % cls)
    # R1: consumption
    consumed = _consumed(fs, enum)
    for sym in enum:
        uses = consumed.get(sym, [])
        ctx.instance(rid1, ['symbol', sym], {'symbol': sym, 'produced_by': sorted(produced.get(sym, ())), 'consumed_at': len(uses)})
        if uses and not produced.get(sym):
            g, n = uses[0]
            ctx.finding(rid1, 'riddle::symbol', 'unproduced:' + sym, 'the parser consumes %s at %d site(s) (e.g. %s) but the lexer never produces it: that part of the grammar is unreachable' % (sym, len(uses), short(n.get('loc'))),
                        node=n, expect='a lexeme producing %s' % sym)
        if sym not in LITERAL_SYMS and len(produced.get(sym, ())) > 1:
            ctx.finding(rid1, 'riddle::symbol', 'ambiguous:' + sym, 'the lexer maps several lexemes %s to %s' % (sorted(produced[sym]), sym), loc=f.loc, expect='one lexeme per keyword / punctuation symbol')


def _consumed(fs, enum):
    consumed = {}
    for g in fs.defined():
        if g.get('class') != 'riddle::parser':
            continue
        genv = LocalEnv(g)
        for n in g.nodes():
            if n.get('as'):
                continue
            if n.get('k') == 'CXXMemberCallExpr' and n.get('callee_name') == PAR + 'match':
                a = canon(n['c'][1], genv, subst=False)
                consumed.setdefault(a, []).append((g, n))
            elif n.get('k') == 'CaseStmt' and n.get('case_name'):
                sw = [a for a in g.ancestors(n) if a.get('k') == 'SwitchStmt']
                if sw and show(canon(sw[0]['slots']['cond'], genv, subst=False)).endswith('sym)'):
                    consumed.setdefault(n['case_name'], []).append((g, n))
            elif n.get('k') == 'BinaryOperator' and n.get('op') in ('==', '!='):
                t = canon(n, genv, subst=False)
                syms = [x for x in t[1:] if isinstance(x, str) and x in enum]
                if syms and any(isinstance(x, tuple) and x[-1] == 'sym' for x in t[1:]):
                    consumed.setdefault(syms[0], []).append((g, n))
    return consumed


# ---- R5 ---------------------------------------------------------------------------------------------------------------------

LEVELS = {'EQEQ_ID': 0, 'BANGEQ_ID': 0, 'LT_ID': 1, 'LTEQ_ID': 1, 'GTEQ_ID': 1, 'GT_ID': 1, 'IMPLICATION_ID': 1, 'BAR_ID': 1, 'AMP_ID': 1, 'CARET_ID': 1,
          'PLUS_ID': 2, 'MINUS_ID': 2, 'STAR_ID': 3, 'SLASH_ID': 3}
FACTORY = {'EQEQ_ID': 'new_eq_expression', 'BANGEQ_ID': 'new_neq_expression', 'LT_ID': 'new_lt_expression', 'LTEQ_ID': 'new_leq_expression', 'GTEQ_ID': 'new_geq_expression',
           'GT_ID': 'new_gt_expression', 'IMPLICATION_ID': 'new_implication_expression', 'BAR_ID': 'new_disjunction_expression', 'AMP_ID': 'new_conjunction_expression',
           'CARET_ID': 'new_exct_one_expression', 'PLUS_ID': 'new_addition_expression', 'MINUS_ID': 'new_subtraction_expression', 'STAR_ID': 'new_multiplication_expression',
           'SLASH_ID': 'new_division_expression'}
UNARY = {'PLUS_ID': 'new_plus_expression', 'MINUS_ID': 'new_minus_expression', 'BANG_ID': 'new_not_expression'}
NARY = {'BAR_ID', 'AMP_ID', 'CARET_ID', 'PLUS_ID', 'MINUS_ID', 'STAR_ID', 'SLASH_ID'}


def r5(ctx, fs):
    rid = 'C16.R5'
    ctx.rule(rid, 'parser::_expression: the loop admits an operator iff its level >= pr with levels {== !=}=0 < {< <= >= > -> | & ^}=1 < {+ -}=2 < {* /}=3; each binary case parses its right operand one level higher, '
                  'n-ary cases loop on their own symbol only, unary + - ! bind at level 4; every operator builds its own node kind', floor=17)
    f = fs.fn(PAR + '_expression')
    env = LocalEnv(f)
    env.param_roles(['pr'])
    wl = [n for n in f.nodes() if n.get('k') == 'WhileStmt' and 'pr' in show(canon(n['slots']['cond'], env, subst=False)) and 'sym' in show(canon(n['slots']['cond'], env, subst=False))]
    if len(wl) != 1:
        raise AnalysisBroken('%s: operator loop not found' % f.id)
    cond = canon(wl[0]['slots']['cond'], env, subst=False)
    got_levels = {}
    for d in _flat(cond, '||'):
        parts = list(_flat(d, '&&'))
        lv = [p for p in parts if isinstance(p, tuple) and p[0] == '<=' and p[1] == 'pr' and isinstance(p[2], tuple) and p[2][0] == 'num']
        syms = [s for p in parts for s in _syms(p)]
        if len(lv) != 1:
            raise AnalysisBroken('%s: loop condition group without a level test: %s' % (f.id, show(d)))
        for s in syms:
            got_levels[s] = lv[0][2][1]
    for s, l in sorted(LEVELS.items()):
        ctx.instance(rid, [f.id, 'level', s], {'operator': s, 'level': got_levels.get(s), 'expected': l})
        if got_levels.get(s) != l:
            ctx.finding(rid, f.id, 'level:' + s, 'parser::_expression admits %s at level %s; the documented precedence puts it at level %d' % (s, got_levels.get(s), l), node=wl[0]['slots']['cond'], expect='level %d' % l)
    for s in set(got_levels) - set(LEVELS):
        ctx.finding(rid, f.id, 'level:' + s, 'parser::_expression treats %s as a binary operator' % s, node=wl[0]['slots']['cond'])
    sw = [n for n in walk(wl[0]['slots']['body']) if n.get('k') == 'SwitchStmt']
    cells = {}
    for labels, st in switch_arms(sw[0]):
        for l in labels:
            if l[0] == 'case':
                cells[l[2]] = st
    # statements of an arm are siblings after the labelled one: collect by arm_of
    arms = {}
    for n in walk(sw[0]['slots']['body']):
        if n.get('k') in ('CXXMemberCallExpr', 'WhileStmt'):
            a = arm_of(sw[0], n)
            names = [l[2] for l in (a or ()) if l[0] == 'case']
            if len(names) == 1:
                arms.setdefault(names[0], []).append(n)
    for s, l in sorted(LEVELS.items()):
        nodes = arms.get(s, [])
        rec = [canon(n, env, subst=False) for n in nodes if n.get('callee_name') == PAR + '_expression']
        fac = [n.get('callee_name').rsplit('::', 1)[-1] for n in nodes if (n.get('callee_name') or '').startswith(PAR + 'new_')]
        loops = [canon(n['slots']['cond'], env, subst=False) for n in nodes if n.get('k') == 'WhileStmt']
        lv = sorted({r[3][1] for r in rec if isinstance(r[3], tuple) and r[3][0] == 'num'}) if rec else []
        ok = lv == [l + 1] and fac == [FACTORY[s]]
        if s in NARY:
            ok = ok and loops == [('mcall', PAR + 'match', 'this', s)]
        else:
            ok = ok and not loops
        ctx.instance(rid, [f.id, 'case', s], {'operator': s, 'right_operand_level': lv, 'node': fac, 'loops_on': [show(x) for x in loops]})
        if not ok:
            ctx.finding(rid, f.id, 'case:' + s, 'parser::_expression, operator %s: right operand parsed at level %s (expected %d), node %s (expected %s), repetition on %s' % (
                s, lv, l + 1, fac, FACTORY[s], [show(x) for x in loops]), node=cells.get(s) or sw[0], expect='_expression(%d) and %s' % (l + 1, FACTORY[s]))
    # unary operators (first switch)
    first = [n for n in f.nodes() if n.get('k') == 'SwitchStmt' and n is not sw[0]]
    first = [n for n in first if not any(a is wl[0] for a in f.ancestors(n))]
    una = {}
    for n in walk(first[0]['slots']['body']):
        if n.get('k') == 'CXXMemberCallExpr' and (n.get('callee_name') or '').startswith(PAR + 'new_'):
            a = arm_of(first[0], n)
            names = [l[2] for l in (a or ()) if l[0] == 'case']
            if len(names) == 1 and names[0] in UNARY:
                t = canon(n, env, subst=False)
                una[names[0]] = (n.get('callee_name').rsplit('::', 1)[-1], t[3] if len(t) > 3 else None)
    for s, fac in UNARY.items():
        g = una.get(s)
        ok = g is not None and g[0] == fac and g[1] == ('mcall', PAR + '_expression', 'this', ('num', 4))
        ctx.instance(rid, [f.id, 'unary', s], {'operator': s, 'node': g[0] if g else None, 'operand': show(g[1]) if g else None})
        if not ok:
            ctx.finding(rid, f.id, 'unary:' + s, 'parser::_expression: unary %s must build %s over _expression(4) (found %s)' % (s, fac, (g[0], show(g[1])) if g else None), node=first[0])


def _flat(t, op):
    if isinstance(t, tuple) and t and t[0] == op:
        for x in t[1:]:
            yield from _flat(x, op)
    else:
        yield t


def _syms(t):
    if isinstance(t, tuple):
        if t[0] == '==' and len(t) == 3:
            for x in t[1:]:
                if isinstance(x, str) and x.endswith('_ID'):
                    yield x
        else:
            for x in t[1:]:
                yield from _syms(x)


# ---- R7 ------------------------------------------------------------------------------------------------------------------------

EVAL_ROUTE = {
    # ast node           core operation(s) that must be applied to the evaluated operand(s)
    'bool_literal_expression': ['ratio::core::new_bool'], 'int_literal_expression': ['ratio::core::new_int'], 'real_literal_expression': ['ratio::core::new_real'],
    'string_literal_expression': ['ratio::core::new_string'], 'minus_expression': ['ratio::core::minus'], 'not_expression': ['ratio::core::negate'],
    'eq_expression': ['ratio::core::eq'], 'neq_expression': ['ratio::core::eq', 'ratio::core::negate'], 'lt_expression': ['ratio::core::lt'], 'leq_expression': ['ratio::core::leq'],
    'geq_expression': ['ratio::core::geq'], 'gt_expression': ['ratio::core::gt'], 'implication_expression': ['ratio::core::disj', 'ratio::core::negate'],
    'disjunction_expression': ['ratio::core::disj'], 'conjunction_expression': ['ratio::core::conj'], 'exct_one_expression': ['ratio::core::exct_one'],
    'addition_expression': ['ratio::core::add'], 'subtraction_expression': ['ratio::core::sub'], 'multiplication_expression': ['ratio::core::mult'], 'division_expression': ['ratio::core::div'],
    'plus_expression': [], 'cast_expression': [],
}


def r7(ctx, fs):
    rid = 'C16.R7'
    ctx.rule(rid, 'each of the 41 virtual parser::new_<node> factories is overridden in ratio::riddle_parser by a function returning `new ratio::ast::<node>` of the same name with the same arguments; '
                  'each ratio::ast::<op>_expression::evaluate evaluates all of its operands (in order) and applies exactly the core operation of its name; core::add/sub/mult/div/minus use +=, -=, *=, /, unary - of lin', floor=60)
    facs = [g for g in fs.fns.values() if g.get('class') == 'riddle::parser' and g.name.rsplit('::', 1)[-1].startswith('new_') and g.get('virtual')]
    if len(facs) < 41:
        raise AnalysisBroken('expected 41 virtual parser factories, found %d' % len(facs))
    for g in sorted(facs, key=lambda g: g.id):
        node = g.name.rsplit('::', 1)[-1][4:]
        ovs = [fs.fns[o] for o in fs.overriders.get(g.id, ()) if fs.fns[o].get('class') == 'ratio::riddle_parser']
        ok = False
        got = None
        if len(ovs) == 1 and ovs[0].is_def:
            o = ovs[0]
            rets = [canon(n['c'][0], None) for n in o.nodes() if n.get('k') == 'ReturnStmt']
            if len(rets) == 1 and isinstance(rets[0], tuple) and rets[0][0] == 'new*':
                got = rets[0][1]
                args = rets[0][2][2:] if len(rets[0]) > 2 and isinstance(rets[0][2], tuple) else ()
                pnames = tuple(p['name'] for p in o['params'])
                ok = got == 'ratio::ast::' + node and tuple(args) == pnames
        ctx.instance(rid, ['factory', node], {'factory': g.name, 'overridden_by': ovs[0].id if ovs else None, 'creates': got})
        if not ok:
            ctx.finding(rid, g.id, 'factory:' + node, 'riddle_parser does not override parser::new_%s by `return new ratio::ast::%s(<all arguments, in order>)` (found %s): the node would not be evaluable / would be built from the wrong operands' % (
                node, node, got), loc=(ovs[0].loc if ovs else g.loc), expect='new ratio::ast::%s' % node)
    for node, ops in sorted(EVAL_ROUTE.items()):
        f = fs.fn('ratio::ast::%s::evaluate' % node)
        env = LocalEnv(f)
        calls = [n.get('callee_name') for n in f.nodes() if (n.get('callee_name') or '').startswith('ratio::core::') and n.get('callee_name') not in ('ratio::core::get_type',)]
        evs = [canon(n['c'][0]['c'][0], env, subst=False) for n in f.nodes() if n.get('k') == 'CXXMemberCallExpr' and (n.get('callee_name') or '').endswith('expression::evaluate')]
        # operands evaluated
        flds = {x[1].rsplit('::', 1)[-1] if isinstance(x, tuple) and x[0] in ('dyncast', 'cast') and isinstance(x[-1], str) else show(x) for x in []}
        operands = [show(x) for x in evs]
        binary = node in ('eq_expression', 'neq_expression', 'lt_expression', 'leq_expression', 'geq_expression', 'gt_expression', 'implication_expression')
        nary = node in ('disjunction_expression', 'conjunction_expression', 'exct_one_expression', 'addition_expression', 'subtraction_expression', 'multiplication_expression', 'division_expression')
        ok_ops = sorted(calls) == sorted(ops)
        ok_opnd = True
        if binary:
            ok_opnd = len(operands) == 2 and 'left' in operands[0] and 'right' in operands[1]
        elif nary:
            loops = [n for n in f.nodes() if n.get('k') == 'CXXForRangeStmt']
            ok_opnd = len(loops) == 1 and show(canon(loops[0]['slots']['range'], env, subst=False)).endswith('expressions') and len(operands) == 1 and \
                not any(m.get('k') in ('IfStmt', 'BreakStmt', 'ContinueStmt') for m in walk(loops[0]['slots']['body']))
        elif node in ('minus_expression', 'not_expression', 'plus_expression', 'cast_expression'):
            ok_opnd = len(operands) == 1 and 'xpr' in operands[0]
        ctx.instance(rid, ['evaluate', node], {'node': node, 'core_operations': calls, 'operands': operands})
        if not ok_ops or not ok_opnd:
            ctx.finding(rid, f.id, 'evaluate', 'ratio::ast::%s::evaluate must evaluate all its operands in order and apply exactly %s (found operations %s, operands %s)' % (node, ops or 'nothing', calls, operands), loc=f.loc)
        # argument order of binary relations: (l, r)
        if binary and ok_ops and node != 'implication_expression':
            env2 = LocalEnv(f)
            op_call = [canon(n, env2) for n in f.nodes() if n.get('callee_name') == ops[0]]
            s = show(op_call[0]) if op_call else ''
            if not (0 <= s.find('left') < s.find('right')):
                ctx.finding(rid, f.id, 'operand-order', 'ratio::ast::%s::evaluate passes its operands to %s in the wrong order' % (node, ops[0]), loc=f.loc)
        if node == 'implication_expression' and ok_ops:
            env2 = LocalEnv(f)
            d = [canon(n, env2) for n in f.nodes() if n.get('callee_name') == 'ratio::core::disj']
            s = show(d[0]) if d else ''
            neg = [canon(n, env2) for n in f.nodes() if n.get('callee_name') == 'ratio::core::negate']
            if not neg or 'left' not in show(neg[0]) or 'right' in show(neg[0]):
                ctx.finding(rid, f.id, 'implication', 'l -> r must be evaluated as disj({negate(l), r})', loc=f.loc)
    # core arithmetic builders
    want = {'ratio::core::add': {'+='}, 'ratio::core::sub': {'+=', '-='}, 'ratio::core::mult': {'*='}, 'ratio::core::div': {'/', '*='}, 'ratio::core::minus': {'-'}}
    for name, ops in want.items():
        f = fs.fn(name)
        got = {n.get('op') for n in f.nodes() if n.get('k') == 'CXXOperatorCallExpr' and (n.get('callee_name') or '').startswith(('smt::lin::operator', 'smt::rational::operator', 'smt::operator')) and not n.get('as')
               and n.get('op') in ('+=', '-=', '*=', '/=', '+', '-', '*', '/')}
        ctx.instance(rid, ['arith', name], {'function': name, 'lin_operators_used': sorted(got)})
        if got != ops:
            ctx.finding(rid, f.id, 'arith', '%s must combine its operands with %s of smt::lin / smt::rational (found %s)' % (name, sorted(ops), sorted(got)), loc=f.loc)
    f = fs.fn('ratio::core::sub')
    env = LocalEnv(f)
    okfirst = False
    # the loop over the operands adds the FIRST one and subtracts the others, however "first" is spelled (iterator == cbegin(), index == 0) and however the if is laid out
    for lp in f.nodes():
        if lp.get('k') not in ('ForStmt', 'CXXForRangeStmt', 'WhileStmt'):
            continue
        cells = {}
        for p in enum_paths(lp['slots']['body']):
            ops = [m.get('op') for st in p.live(env) for m in walk(st) if m.get('k') == 'CXXOperatorCallExpr' and m.get('op') in ('+=', '-=')]
            first = None
            for kind, node, pol in p.conds:
                if kind != 'if':
                    continue
                c = canon(node, env, subst=False)
                if isinstance(c, tuple) and len(c) == 3 and c[0] in ('==', '!='):
                    is_first_test = any(isinstance(x, tuple) and x[0] == 'mcall' and x[1].rsplit('::', 1)[-1] in ('cbegin', 'begin') for x in c[1:]) or ('num', 0) in c[1:]
                    if is_first_test:
                        first = (c[0] == '==') == pol
            cells[first] = ops
        if cells.get(True) == ['+='] and cells.get(False) == ['-='] and set(cells) == {True, False}:
            okfirst = True
    if not okfirst:
        ctx.finding(rid, f.id, 'sub-first', 'core::sub must add its first operand and subtract all the others', loc=f.loc)


# ---- R4 -------------------------------------------------------------------------------------------------------------------------

def r4(ctx, fs):
    rid = 'C16.R4'
    ctx.rule(rid, 'token typestate over the CFG of every parser function: the current token is *examined* after a case label of switch (tk->sym), a successful tk->sym == X test or at function entry of a non-terminal '
                  'whose callers dispatch on it; a raw `tk = next()` (consuming without match) and a static_cast of `tk` to a token subclass are only allowed on an examined token', floor=40)
    n_adv = 0
    for f in fs.defined():
        if f.get('class') != 'riddle::parser' or f.name.rsplit('::', 1)[-1] in ('next', 'match', 'backtrack', 'parser', '~parser', 'error') or f.name.rsplit('::', 1)[-1].startswith('new_'):
            continue
        env = LocalEnv(f)
        g = cfg.Graph(f)
        TK = PAR + 'tk'

        def is_adv(t):
            return t.get('k') == 'BinaryOperator' and t.get('op') == '=' and canon(t['c'][0], env, subst=False) == TK and canon(t['c'][1], env, subst=False) == ('mcall', PAR + 'next', 'this')

        def is_match(t):
            return t.get('k') == 'CXXMemberCallExpr' and t.get('callee_name') == PAR + 'match'

        def is_nonterminal(t):
            return t.get('k') == 'CXXMemberCallExpr' and (t.get('callee_name') or '').startswith(PAR + '_')

        def is_backtrack(t):
            return t.get('k') == 'CXXMemberCallExpr' and t.get('callee_name') == PAR + 'backtrack'
        # forward dataflow: state at node = 'K' (examined) / 'U' (unexamined); join = U if any U
        state = {}
        work = [(g.start, 'K')]       # parse(): the first statement is the priming read of the token stream
        # entry of a non-terminal: callers dispatched on the token (checked by R4b below for the statement / declaration entry points); parse() starts unexamined
        while work:
            node, st = work.pop()
            old = state.get(node)
            new = st if old is None else ('U' if 'U' in (old, st) else 'K')
            if old == new:
                continue
            state[node] = new
            t = g.tree(node)
            out = new
            if t is not None:
                if is_adv(t) or is_match(t) or is_nonterminal(t) or is_backtrack(t):
                    out = 'U'
                elif t.get('k') == 'CaseStmt' or t.get('k') == 'DefaultStmt':
                    out = 'K'
            succs = g.succ.get(node, ())
            # block-level refinement: entering a case label block of switch (tk->sym) makes the token examined
            for s in succs:
                sst = out
                lab = g.blocks[s[0]].get('label') if s[1] in (0, None) else None
                if lab is not None:
                    ln = f.node(lab)
                    if ln is not None and ln.get('k') in ('CaseStmt', 'DefaultStmt'):
                        sw = [a for a in f.ancestors(ln) if a.get('k') == 'SwitchStmt']
                        if sw and show(canon(sw[0]['slots']['cond'], env, subst=False)).endswith('tk sym)'):
                            sst = 'K'
                # branch on tk->sym == X / != X: both outcomes have looked at the token
                bt = g.blocks[node[0]].get('term') if node[1] is None else None
                if bt is not None:
                    tn = f.node(bt)
                    c = tn['slots'].get('cond') if tn is not None and tn.get('slots') else None
                    if c is not None and 'tk sym)' in show(canon(c, env, subst=False)) and 'match' not in show(canon(c, env, subst=False)):
                        sst = 'K'
                work.append((s, sst))
        for node, st in state.items():
            t = g.tree(node)
            if t is None:
                continue
            if is_adv(t):
                n_adv += 1
                disc = 'advance@%s' % _ctx_label(f, t)
                ctx.instance(rid, [f.id, disc, short(t.get('loc'))], {'function': f.id, 'raw_advance': src(t), 'token_examined': st == 'K', 'site': short(t.get('loc'))})
                if st == 'U':
                    ctx.finding(rid, f.id, disc, '%s consumes a token with a raw `tk = next()` although the current token has not been examined on every path reaching it: whatever follows is silently dropped' % f.name,
                                node=t, expect='match(<expected symbol>) or a preceding test of tk->sym')
            if t.get('k') == 'CXXStaticCastExpr' and 'token' in (t.get('t') or '') and canon(t['c'][0], env, subst=False) == TK:
                disc = 'cast@%s' % _ctx_label(f, t)
                ctx.instance(rid, [f.id, disc, short(t.get('loc'))], {'function': f.id, 'cast': src(t), 'token_examined': st == 'K'})
                if st == 'U':
                    ctx.finding(rid, f.id, disc, '%s down-casts the current token to %s without having examined its symbol: on other input this reads a token of a different class (undefined behaviour)' % (f.name, t.get('t')),
                                node=t, expect='the cast dominated by a test of tk->sym')
    ctx.extra['R4_raw_advances'] = n_adv


def _ctx_label(f, t):
    """stable label of a site: enclosing case names."""
    names = []
    for a in f.ancestors(t):
        if a.get('k') == 'SwitchStmt':
            lab = arm_of(a, t)
            if lab:
                names.append('/'.join(str(l[2] or l[0]) for l in lab[:3]))
    return '>'.join(reversed(names)) or 'body'


def run(ctx):
    fs = ctx.facts('P')
    r1_r2(ctx, fs)
    r3(ctx, fs)
    r4(ctx, fs)
    r4c(ctx, fs)
    r5(ctx, fs)
    r6(ctx, fs)
    r7(ctx, fs)
    r10(ctx, fs)
    # R8 / R9: the last hop of the routing chain, core::<rel> -> theory constructor of the same relation (shared with C11.R6 and C13.R5)
    from .C11 import r6 as arith_routes
    from .C13 import r5 as bool_routes
    arith_routes(ctx, fs, rid='C16.R8')
    bool_routes(ctx, fs, rid='C16.R9')
    # the arithmetic an expression is evaluated with (core::add/sub/mult/div use the compound operators of lin): the rule pack of C15
    ctx.include('C15')



# ---- R10: the digits of a numeral -----------------------------------------------------------------------------------------------

def r10(ctx, fs):
    rid = 'C16.R10'
    ctx.rule(rid, 'numerals: in the arms of lexer::next that make an integer / rational token, a digit held in `ch` (at the entry of a digit arm, or just read there) is appended to a part of the '
                  'literal before `ch` is read again or the function returns - on every CFG path the digit class admits (branches on ch decided by the class, as in R6)', floor=4)
    from .. import scan
    f = fs.fn('riddle::lexer::next')
    A = scan.Automaton(f)
    g = A.g
    DIG = ord('5')
    top = next((n for n in walk(f.body) if n.get('k') == 'SwitchStmt'), None)
    if top is None:
        raise AnalysisBroken('%s: no dispatch on the current character' % f.id)
    MK = ('riddle::lexer::mk_integer_token', 'riddle::lexer::mk_rational_token')
    scope = set()
    groups = []          # a label carries its first statement only: an arm is the labelled statement and the unlabelled ones that follow it
    for ch_ in kids(top['slots']['body']):
        if ch_.get('k') in ('CaseStmt', 'DefaultStmt') or not groups:
            groups.append([])
        groups[-1].append(ch_)
    for grp in groups:
        if any(x.get('k') == 'CXXMemberCallExpr' and x.get('callee_name') in MK for ch_ in grp for x in walk(ch_)):
            scope |= {id(x) for ch_ in grp for x in walk(ch_)}
    if not scope:
        raise AnalysisBroken('%s: no arm makes a numeric token' % f.id)

    def keeps(t):
        """t appends ch to a string: X += ch, X.push_back(ch), X.append(.., ch), X = X + ch"""
        if t is None:
            return False
        k = t.get('k')
        if k == 'CXXOperatorCallExpr' and t.get('op') in ('+=', '=') and 'basic_string' in ((t['c'][1].get('t') if len(t.get('c') or ()) > 1 else '') or '') :
            return any(scan._is_ch(x) for a in t['c'][2:] for x in walk(a))
        if k == 'CXXMemberCallExpr' and (t.get('callee_name') or '').startswith('std::basic_string') and (t.get('callee_name') or '').rsplit('::', 1)[-1] in ('push_back', 'append', 'insert', 'operator+='):
            return any(scan._is_ch(x) for a in t['c'][1:] for x in walk(a))
        return False
    if not any(keeps(x) for x in walk(top) if id(x) in scope):
        raise AnalysisBroken('%s: the numeral arms do not build the literal by appending `ch`: a form this rule cannot read' % f.id)
    def explore(f, A, starts):
        g = A.g
        for idx, (start, what, site, after) in enumerate(starts):
            seen = set()
            st = list(g.succ.get(start, [])) if after else [start]
            bad = None
            while st and bad is None:
                n = st.pop()
                if n in seen:
                    continue
                seen.add(n)
                bid, i = n
                if i is None:
                    if bid == g.exit:
                        bad = ('the function ends', None)
                        break
                    for sb in A._branch(bid, DIG):
                        st.append((sb, 0) if (A.blocks[sb].get('elems') or []) else (sb, None))
                    continue
                t = g.tree(n)
                if keeps(t):
                    continue
                if t is not None and (scan._is_read_assign(t) or (scan._is_next_char(t) and not A._is_rhs_of_read(t))):
                    bad = ('the next character is read at %s' % short(t.get('loc')), t)
                    break
                if t is not None and t.get('k') == 'ReturnStmt':
                    bad = ('the function returns at %s' % short(t.get('loc')), t)
                    break
                st.extend(g.succ.get(n, []))
            ctx.instance(rid, [f.id, '%s #%d' % (what.split(' at ')[0], idx)], {'digit_in_ch': what, 'kept_on_every_path': bad is None, 'cfg_nodes_explored': len(seen)})
            if bad is not None:
                ctx.finding(rid, f.id, '%s #%d' % (what.split(' at ')[0], idx), '%s: a digit of a numeric literal is lost - with a digit in `ch` (%s) %s before the digit has been appended to the literal' % (f.name.replace('riddle::', ''), what, bad[0]), node=site)
    starts = []
    for n in g.nodes:
        t = g.tree(n)
        if t is not None and id(t) in scope and scan._is_read_assign(t):
            starts.append((n, 'read at %s' % short(t.get('loc')), t, True))
    # entry of the arm of the digits (fall-through chain of the top switch): the block labelled by the LAST digit label that carries the statements
    for bid, b in A.blocks.items():
        ln = f.node(b['label']) if b.get('label') is not None else None
        if ln is None or ln.get('k') != 'CaseStmt' or id(ln) not in scope or not (48 <= (ln.get('case') or 0) <= 57):
            continue
        sw = next((a for a in f.ancestors(ln) if a.get('k') == 'SwitchStmt'), None)
        if sw is not top or not (b.get('elems') or []):
            continue
        starts.append(((bid, 0), 'entry of case %r' % chr(ln['case']), ln, False))
    explore(f, A, starts)
    # scanning loops of the numerals moved into helpers that the reviewed inventory does not know (their statements are in the tree of lexer::next, their
    # CFG is their own): every read of a character in such a helper is a numeral state
    for h in fs.defined():
        if h.get('class') != 'riddle::lexer' or not h.d.get('_new_helper') or h.body is None:
            continue
        if not any(x.get('k') == 'CXXMemberCallExpr' and x.get('callee_name') in MK for x in h.nodes()):
            continue
        try:
            HA = scan.Automaton(h)
        except AnalysisBroken:
            continue
        hs = []
        for n in HA.g.nodes:
            t = HA.g.tree(n)
            if t is not None and scan._is_read_assign(t):
                hs.append((n, 'read at %s' % short(t.get('loc')), t, True))
        explore(h, HA, hs)


# ---- R6: scanner automata ------------------------------------------------------------------------------------------------------

def r6(ctx, fs):
    rid = 'C16.R6'
    ctx.rule(rid, 'the scanning loops of lexer::next are the automata of the language: a block comment ends at the FIRST "*/" (after any run of stars) and only there; a string literal ends at the first '
                  'unescaped double quote; end of input (and a raw newline in a string) inside them is an error. Extracted from the CFG over character classes and compared with the reference DFA '
                  'by exhaustive product exploration', floor=2)
    from .. import scan
    f = fs.fn('riddle::lexer::next')
    A = scan.Automaton(f)

    def loop_under(path):
        """the while-loop reached through the nested case labels `path` (character codes)."""
        cur = [f.body]
        for code in path:
            nxt = []
            for root in cur:
                for n in walk(root):
                    if n.get('k') == 'CaseStmt' and n.get('case') == code:
                        nxt.append(n)
                        break
            if not nxt:
                return None
            cur = nxt
        for n in walk(cur[0]):
            if n.get('k') in ('WhileStmt', 'DoStmt', 'ForStmt'):
                return n
        return None

    def first_read(loop):
        for n in walk(loop):
            if n.get('k') == 'CXXMemberCallExpr' and n.get('callee_name') == 'riddle::lexer::next_char':
                return n
        return None
    STAR, SLASH, QUOTE, BSL, CR, NL = 42, 47, 34, 92, 13, 10
    specs = [
        ('block comment', [SLASH, STAR], [STAR, SLASH, scan.OTHER, scan.EOF],
         lambda q, a: 'REJ' if a == scan.EOF else ({'q0': {STAR: 'q1'}, 'q1': {STAR: 'q1', SLASH: 'ACC'}}[q].get(a, 'q0')),
         'a block comment must end at the first "*/" - also after a run of stars ("**/") - and nowhere else; end of input inside it is an error'),
        ('string literal', [QUOTE], [QUOTE, BSL, CR, NL, scan.OTHER, scan.EOF],
         lambda q, a: ({'q0': {QUOTE: 'ACC', BSL: 'q1', CR: 'REJ', NL: 'REJ', scan.EOF: 'REJ'}, 'q1': {}}[q].get(a, 'q0')),
         'a string literal ends at the first double quote that is not escaped by a backslash; a raw newline or the end of input inside it is an error'),
    ]
    for name, path, alphabet, delta, what in specs:
        loop = loop_under(path)
        rd = first_read(loop) if loop is not None else None
        if rd is None:
            raise AnalysisBroken('%s: the scanning loop of the %s (case %s) was not found' % (f.id, name, '/'.join(chr(c) for c in path)))
        start = A.node_of(rd)
        problems, n_states = A.explore(start, alphabet, delta, 'q0', {'ACC'}, {'REJ'})
        kinds = sorted({k for k, _, _ in problems})
        ctx.instance(rid, [f.id, name], {'construct': name, 'site': short(loop.get('loc')), 'alphabet': [chr(a) if 0 < a < 127 else ('other' if a == scan.OTHER else 'EOF') for a in alphabet],
                                         'product_states_explored': n_states, 'disagreements': kinds})
        if problems:
            expl = {'error-early': 'an input the language accepts is reported as an error (the terminator was missed)',
                    'accepts-rejected': 'a truncated / malformed input is accepted',
                    'ends-early': 'the construct is ended before its terminator'}
            k, q, t = problems[0]
            ctx.finding(rid, f.id, name, 'lexer::next, %s: the scanner is not the automaton of the language - %s (reference state %s at %s). %s' % (name, '; '.join(expl[x] for x in kinds), q, short(t.get('loc')), what),
                        node=loop)

# ---- R3 / R4b: FIRST sets by abstract interpretation of the non-terminals over the symbol of the current token -----------------

ACCEPT, REJECT, NEXT = 'accept', 'reject', 'next'
# dispatch gaps that are intended: (function, non-terminal, token) -> reason
R3_ACCEPTED_GAPS = {
    ('riddle::parser::parse', '_statement', 'RETURN_ID'): '`return` is only meaningful inside a method body; at compilation-unit level it is rightly a syntax error',
}


class First:
    """accepts(N, t): started on a current token of symbol t, does non-terminal N consume it (ACCEPT) or reach error() first (REJECT)?"""

    def __init__(self, fs, enum):
        self.fs, self.enum = fs, enum
        self.memo = {}
        self.fns = {f.name: f for f in fs.defined() if f.get('class') == 'riddle::parser'}
        self.envs = {}

    def env(self, f):
        if f.id not in self.envs:
            self.envs[f.id] = LocalEnv(f)
        return self.envs[f.id]

    def accepts(self, name, t):
        key = (name, t)
        if key in self.memo:
            return self.memo[key]
        self.memo[key] = REJECT          # recursion guard: a cycle that consumes nothing does not accept
        f = self.fns.get(name)
        if f is None:
            self.memo[key] = ACCEPT
            return ACCEPT
        r = self.stmt(f, f.body, t)
        r = ACCEPT if r in (NEXT, 'reset') else r   # returned without consuming or failing: the caller goes on with the same token (treated as accepted prefix)
        self.memo[key] = r
        return r

    def first(self, name):
        return {t for t in self.enum if self.accepts(name, t) == ACCEPT}

    # expression evaluation: (value, effect) where value in True/False/None and effect in ACCEPT/REJECT/None
    def expr(self, f, n, t):
        env = self.env(f)
        k = n.get('k')
        c = n.get('c') or []
        if k == 'CXXMemberCallExpr':
            nm = n.get('callee_name')
            if nm == PAR + 'match':
                a = canon(c[1], env, subst=False)
                return (True, ACCEPT) if a == t else (False, None)
            if nm == PAR + 'error':
                return (None, REJECT)
            if nm and nm.startswith(PAR + '_'):
                return (None, self.accepts(nm, t))
            if nm == PAR + 'next':
                return (None, ACCEPT)
            if nm == PAR + 'backtrack':
                return (None, 'reset')      # the current token is no longer the one this analysis follows
        if k == 'BinaryOperator':
            op = n.get('op')
            if op == '=' and canon(c[0], env, subst=False) == PAR + 'tk':
                return (None, ACCEPT)
            if op in ('==', '!='):
                tt = canon(n, env, subst=False)
                syms = [x for x in tt[1:] if isinstance(x, str) and x in self.enum]
                if syms and any(isinstance(x, tuple) and x[-1] == 'sym' for x in tt[1:]):
                    v = (syms[0] == t)
                    return (v if op == '==' else not v, None)
            if op in ('&&', '||'):
                lv, le = self.expr(f, c[0], t)
                if le:
                    return (None, le) if le == REJECT else (lv, le)
                if op == '&&' and lv is False:
                    return (False, None)
                if op == '||' and lv is True:
                    return (True, None)
                rv, re_ = self.expr(f, c[1], t)
                if re_:
                    return (rv, re_)
                if lv is None or rv is None:
                    return (None, None)
                return ((lv and rv) if op == '&&' else (lv or rv), None)
        if k == 'UnaryOperator' and n.get('op') == '!':
            v, e = self.expr(f, c[0], t)
            return (None if v is None else (not v), e)
        # generic: look for decisive sub-expressions in evaluation order
        for x in c:
            if isinstance(x, dict):
                v, e = self.expr(f, x, t)
                if e:
                    return (None, e)
        return (None, None)

    def stmt(self, f, n, t):
        if n is None:
            return NEXT
        k = n.get('k')
        if k == 'CompoundStmt':
            for s in n.get('c') or ():
                r = self.stmt(f, s, t)
                if r != NEXT:
                    return r
            return NEXT
        if k == 'SwitchStmt':
            env = self.env(f)
            cond = canon(n['slots']['cond'], env, subst=False)
            if not show(cond).endswith('tk sym)'):
                return NEXT
            arms = switch_arms(n)
            start = None
            for i, (labels, _) in enumerate(arms):
                if any(l[0] == 'case' and l[2] == t for l in labels):
                    start = i
            if start is None:
                for i, (labels, _) in enumerate(arms):
                    if any(l[0] == 'default' for l in labels):
                        start = i
            if start is None:
                return NEXT
            for labels, st in arms[start:]:
                r = self.stmt(f, st, t)
                if r == 'break':
                    return NEXT
                if r != NEXT:
                    return r
            return NEXT
        if k == 'IfStmt':
            sl = n['slots']
            if sl.get('init') is not None:
                r = self.stmt(f, sl['init'], t)
                if r != NEXT:
                    return r
            v, e = self.expr(f, sl['cond'], t)
            if e:
                if e == ACCEPT and v is True:
                    return ACCEPT
                return e
            if v is True:
                return self.stmt(f, sl.get('then'), t)
            if v is False:
                return self.stmt(f, sl.get('else'), t)
            a, b = self.stmt(f, sl.get('then'), t), self.stmt(f, sl.get('else'), t)
            if a == b:
                return a
            if ACCEPT in (a, b):
                return ACCEPT
            return NEXT
        if k in ('WhileStmt',):
            v, e = self.expr(f, n['slots']['cond'], t)
            if e:
                return e
            if v is False:
                return NEXT
            r = self.stmt(f, n['slots']['body'], t)
            return r if r not in ('break',) else NEXT
        if k == 'DoStmt':
            r = self.stmt(f, n['slots']['body'], t)
            if r != NEXT:
                return r if r != 'break' else NEXT
            v, e = self.expr(f, n['slots']['cond'], t)
            return e or NEXT
        if k in ('ForStmt', 'CXXForRangeStmt'):
            return NEXT
        if k == 'BreakStmt':
            return 'break'
        if k == 'ReturnStmt':
            c = n.get('c') or []
            if c:
                v, e = self.expr(f, c[0], t)
                if e:
                    return e
            return ACCEPT if False else NEXT
        if k == 'DeclStmt':
            for d in n.get('c') or ():
                if isinstance(d.get('init'), dict):
                    v, e = self.expr(f, d['init'], t)
                    if e:
                        return e
            return NEXT
        if k in ('CaseStmt', 'DefaultStmt', 'LabelStmt', 'AttributedStmt'):
            c = n.get('c') or []
            return self.stmt(f, c[-1], t) if c else NEXT
        v, e = self.expr(f, n, t)
        return e or NEXT


def r4c(ctx, fs):
    """speculative look-ahead: between `c_pos = pos` and `backtrack(c_pos)` the parser only *looks*; an error() raised there on the very token the
    speculation starts with rejects inputs that the alternative chosen after the backtrack would have accepted."""
    rid = 'C16.R4'
    enum = [e['name'] for e in fs.enum('riddle::symbol')['enumerators']]
    F = First(fs, enum)
    n_regions = 0
    for f in fs.defined():
        if f.get('class') != 'riddle::parser' or f.body is None:
            continue
        env = F.env(f)
        for comp in f.nodes():
            if comp.get('k') != 'CompoundStmt':
                continue
            sts = list(kids(comp))
            for i, s in enumerate(sts):
                if s.get('k') != 'DeclStmt':
                    continue
                ds = [d for d in kids(s) if d.get('k') == 'VarDecl' and isinstance(d.get('init'), dict) and canon(d['init'], env, subst=False) == PAR + 'pos']
                if not ds:
                    continue
                cpos = ds[0]

                def is_bt(m):
                    return m.get('k') == 'CXXMemberCallExpr' and m.get('callee_name') == PAR + 'backtrack' and any(x.get('k') == 'DeclRefExpr' and x.get('dloc') == cpos.get('loc') for x in walk(m))
                # region: the statements after the declaration up to (excluding) the first one that backtracks
                j = i + 1
                while j < len(sts) and not any(is_bt(m) for m in walk(sts[j])):
                    j += 1
                if j >= len(sts):
                    continue
                region, decide = sts[i + 1:j], sts[j]
                n_regions += 1
                bad = []
                for t in enum:
                    out = NEXT
                    for r in region:
                        out = F.stmt(f, r, t)
                        if out != NEXT:
                            break
                    if out != REJECT:
                        continue
                    # alternatives: what follows each backtrack(c_pos) inside the deciding statement
                    for bt in [m for m in walk(decide) if is_bt(m)]:
                        # the statements after the backtrack in its own block
                        par = f.parent(bt)
                        while par is not None and par.get('k') != 'CompoundStmt':
                            bt, par = par, f.parent(par)
                        if par is None:
                            continue
                        after = list(kids(par))
                        after = after[[k for k, x in enumerate(after) if x is bt][0] + 1:]
                        o2 = NEXT
                        for a in after:
                            o2 = F.stmt(f, a, t)
                            if o2 != NEXT:
                                break
                        if o2 == ACCEPT:
                            bad.append(t)
                            break
                ctx.instance(rid, [f.id, 'speculation', short(cpos.get('loc'))], {'function': f.id, 'look_ahead_from': short(cpos.get('loc')), 'tokens_rejected_inside_although_an_alternative_accepts_them': bad[:12]})
                if bad:
                    ctx.finding(rid, f.id, 'speculation:%d' % n_regions, '%s: the speculative scan that starts at %s calls error() when the first token is one of %s, although the alternative taken after '
                                'backtrack() accepts such a token: a look-ahead must only decide, not reject (e.g. "(2.0 + x) * 3.0" dies while the parser is merely checking whether "(" opens a cast)' % (
                                    short(f.name), short(cpos.get('loc')), ', '.join(bad[:8]) + (' ...' if len(bad) > 8 else '')), node=cpos)
    if n_regions < 3:
        raise AnalysisBroken('C16.R4c: fewer than three speculative look-ahead regions found (%d)' % n_regions)


def r3(ctx, fs):
    rid = 'C16.R3'
    ctx.rule(rid, 'FIRST sets computed from the code (abstract interpretation of every non-terminal over the 48 token kinds): (a) where a function dispatches on the current token with an erroring default and '
                  'hands the token to non-terminal N in some arm, every token kind N accepts is routed to N; (b) a non-terminal is never called on a token kind (known from the enclosing case label) that it rejects', floor=12)
    enum = [e['name'] for e in fs.enum('riddle::symbol')['enumerators']]
    F = First(fs, enum)
    firsts = {}
    for name in sorted(F.fns):
        if name.rsplit('::', 1)[-1].startswith('_'):
            firsts[name] = F.first(name)
    ctx.extra['R3_FIRST'] = {k.rsplit('::', 1)[-1]: sorted(v) for k, v in firsts.items()}
    for f in sorted(F.fns.values(), key=lambda f: f.id):
        env = F.env(f)
        for sw in [n for n in f.nodes() if n.get('k') == 'SwitchStmt' and show(canon(n['slots']['cond'], env, subst=False)).endswith('tk sym)')]:
            arms = switch_arms(sw)
            labelled = {l[2] for labels, _ in arms for l in labels if l[0] == 'case'}
            default_errors = False
            groups = []
            cur = None
            for labels, st in arms:
                if labels:
                    cur = {'labels': labels, 'stmts': []}
                    groups.append(cur)
                if cur is not None and st is not None:
                    cur['stmts'].append(st)
            for gr in groups:
                if any(l[0] == 'default' for l in gr['labels']):
                    first_calls = [m for s in gr['stmts'] for m in walk(s) if m.get('k') == 'CXXMemberCallExpr']
                    default_errors = bool(first_calls) and first_calls[0].get('callee_name') == PAR + 'error'
            # (b) known token handed to a non-terminal that rejects it
            for gr in groups:
                names = [l[2] for l in gr['labels'] if l[0] == 'case']
                for t in names:
                    # the first decisive event of the arm when started on t
                    r = NEXT
                    culprit = None
                    for s in gr['stmts']:
                        r = F.stmt(f, s, t)
                        if r != NEXT:
                            culprit = s
                            break
                    ctx.instance(rid, [f.id, _ctx_label(f, gr['stmts'][0]) if gr['stmts'] else t, t], {'function': f.id, 'token': t, 'arm_outcome': r})
                    if r == REJECT:
                        # is the rejection an explicit error in this arm (intended) or a call of a non-terminal that cannot start with t?
                        calls = [m for m in walk(culprit) if m.get('k') == 'CXXMemberCallExpr' and (m.get('callee_name') or '').startswith(PAR + '_')]
                        errs = [m for m in walk(culprit) if m.get('callee_name') == PAR + 'error']
                        if calls and (not errs or _posn(calls[0]) < _posn(errs[0])):
                            N = calls[0]['callee_name']
                            ctx.finding(rid, f.id, 'dead:%s->%s' % (t, N.rsplit('::', 1)[-1]), '%s: in the arm for %s the token is handed, unconsumed, to %s, which does not accept it (FIRST = %s): this construct can never be parsed' % (
                                f.name, t, N.rsplit('::', 1)[-1], sorted(firsts.get(N, ()))[:12]), node=calls[0], expect='consume %s first (match / tk = next())' % t)
            # (a) coverage
            if default_errors:
                for gr in groups:
                    names = [l[2] for l in gr['labels'] if l[0] == 'case']
                    if not names:
                        continue
                    # non-terminal the arm hands the *same* token to (no consumption before the call)
                    for s in gr['stmts']:
                        calls = [m for m in walk(s) if m.get('k') == 'CXXMemberCallExpr' and (m.get('callee_name') or '').startswith(PAR + '_')]
                        adv = [m for m in walk(s) if (m.get('k') == 'CXXMemberCallExpr' and m.get('callee_name') in (PAR + 'match', PAR + 'next', PAR + 'backtrack')) or
                               (m.get('k') == 'BinaryOperator' and m.get('op') == '=' and canon(m['c'][0], env, subst=False) == PAR + 'tk')]
                        if calls and not [a for a in adv if _posn(a) < _posn(calls[0])]:
                            N = calls[0]['callee_name']
                            missing = sorted(t for t in firsts.get(N, ()) if t not in labelled)
                            ctx.instance(rid, [f.id, 'coverage', N.rsplit('::', 1)[-1]], {'function': f.id, 'hands_token_to': N.rsplit('::', 1)[-1], 'FIRST': sorted(firsts.get(N, ())), 'not_dispatched': missing})
                            for t in missing:
                                if (f.name, N.rsplit('::', 1)[-1], t) in R3_ACCEPTED_GAPS:
                                    ctx.note('R3 accepted gap: %s does not route %s to %s - %s' % (f.name, t, N.rsplit('::', 1)[-1], R3_ACCEPTED_GAPS[(f.name, N.rsplit('::', 1)[-1], t)]))
                                    continue
                                ctx.finding(rid, f.id, 'uncovered:%s:%s' % (N.rsplit('::', 1)[-1], t), '%s dispatches on the current token and rejects %s (default: error), although %s, which other arms hand the token to, accepts it: '
                                            'a syntactically valid construct starting with %s is rejected here' % (f.name, t, N.rsplit('::', 1)[-1], t), node=sw, expect='case %s: -> %s' % (t, N.rsplit('::', 1)[-1]))
                        break


def _posn(n):
    p = n['loc'].rsplit(':', 2)
    return (int(p[1]), int(p[2]))
