"""C14 - object variables take exactly one allowed value; equality means same value (DESIGN 4, C14).

R1  ov_theory::new_var(items, enforce): singleton -> TRUE_lit; else one fresh, bound literal per item; iff enforce the unit clause
    {new_exct_one(all item literals)}.
R2  ov_theory::new_eq: identity / symmetric normalisation / cache / empty intersection -> FALSE_lit, and the clause schemas.
R3  allows() returns the stored literal or FALSE_lit; value() keeps exactly the values whose literal is not False.
R4  delegation: the only caller that waives the exactly-one is solver::new_enum, which creates a var_flaw on the same path;
    var_flaw is exclusive and offers one resolver per current value whose rho is allows(ev, val).
"""
from ..expr import LocalEnv, canon, show
from ..facts import AnalysisBroken, short, src, walk
from ..schema import posted, show_clause
from ..tables import VecBuilder, enum_paths, fmt_items
from .. import cg

OV = 'smt::ov_theory::'
N = lambda x: ('!', x)


def r1(ctx, fs):
    rid = 'C14.R1'
    ctx.rule(rid, 'new_var(items, enforce): a single item is bound to TRUE_lit; otherwise every item gets lit(fresh sat variable) which is bound to the theory and indexed; '
                  'with enforce the unit clause {new_exct_one(literals of all items)} is posted (and only then)', floor=5)
    f = fs.fn(OV + 'new_var', params=['var_value', 'bool'])
    env = LocalEnv(f)
    env.param_roles(['items', 'enforce_exct_one'])
    env.local_role('c_vals', lambda n, i: 'unordered_map<smt::var_value *, smt::lit>' in (n.get('t') or ''))
    lits_d = env.local_role('lits', lambda n, i: n.get('t') == 'std::vector<smt::lit>')
    env2, cl = posted(fs, f, env=env)
    # singleton arm
    single_ok = False
    multi_emplace = None
    for n in f.nodes():
        if n.get('k') == 'IfStmt':
            c = canon(n['slots']['cond'], env, subst=False)
            if c == ('==', ('mcall', 'std::vector<smt::var_value *>::size', 'items'), ('num', 1)):
                thn = [canon(m, env, subst=False) for m in walk(n['slots']['then']) if m.get('k') == 'CXXMemberCallExpr' and (m.get('callee_name') or '').endswith('::emplace')]
                single_ok = len(thn) == 1 and thn[0][2] == 'c_vals' and thn[0][-1] == 'smt::TRUE_lit'
                els = n['slots'].get('else')
                for m in walk(els):
                    if m.get('k') == 'CXXForRangeStmt' and canon(m['slots']['range'], env, subst=False) == 'items':
                        body = [canon(x, env, subst=False) for x in walk(m['slots']['body']) if x.get('k') in ('CXXMemberCallExpr',)]
                        v = m['slots']['var'].get('name')
                        bv = [d for d in walk(m['slots']['body']) if d.get('k') == 'VarDecl' and isinstance(d.get('init'), dict) and canon(d['init'], env, subst=False) == ('mcall', 'smt::sat_core::new_var', 'smt::theory::sat')]
                        if bv and multi_emplace is None:
                            b = bv[0]['name']
                            has_emplace = any(x[0] == 'mcall' and x[1].endswith('::emplace') and x[2] == 'c_vals' and x[3] == v and x[4] == ('lit', b) for x in body)
                            has_bind = any(x[0] == 'mcall' and x[1] == 'smt::theory::bind' and x[3] == b for x in body)
                            has_index = any(x[0] == 'mcall' and x[1].endswith('::insert') and x[2] == ('[]', OV + 'is_contained_in', b) for x in body)
                            multi_emplace = (has_emplace, has_bind, has_index)
    ctx.instance(rid, [f.id, 'singleton'], {'function': f.id, 'singleton_is_TRUE_lit': single_ok})
    if not single_ok:
        ctx.finding(rid, f.id, 'singleton', 'new_var: a one-value domain must bind that value to TRUE_lit', loc=f.loc, expect='if (items.size() == 1) c_vals.emplace(item, TRUE_lit)')
    ctx.instance(rid, [f.id, 'fresh'], {'function': f.id, 'per_item (emplace fresh literal, bind, index)': multi_emplace})
    if multi_emplace is None or not all(multi_emplace):
        ctx.finding(rid, f.id, 'fresh', 'new_var: every item must get its own fresh literal, bound to the theory and indexed in is_contained_in (found emplace/bind/index = %s)' % (multi_emplace,),
                    loc=f.loc, expect='for (i : items) { bv = sat->new_var(); c_vals.emplace(i, lit(bv)); bind(bv); is_contained_in[bv].insert(id); }')
    # exactly-one
    vb = VecBuilder(f, env)
    want_clause = ((), frozenset({('mcall', 'smt::sat_core::new_exct_one', 'smt::theory::sat', 'lits')}))
    got = [(c, w, n) for c, w, n in cl]
    ctx.instance(rid, [f.id, 'exct_one'], {'function': f.id, 'posted': [show_clause(c) for c, _, _ in got], 'when': [[(show(x[1]), x[2]) for x in w] for _, w, _ in got]})
    ok = len(got) == 1 and got[0][0] == want_clause and ('if', 'enforce_exct_one', True) in got[0][1] and not any(x[1] == 'enforce_exct_one' and x[2] is False for x in got[0][1])
    if not ok:
        ctx.finding(rid, f.id, 'exct_one', 'new_var: the exactly-one constraint over the value literals must be posted as a unit clause exactly when enforce_exct_one holds', loc=f.loc,
                    expect='if (enforce_exct_one) sat->new_clause({sat->new_exct_one(lits)})')
    # the literals handed to exct_one: one per item, looked up in c_vals
    its = vb.items.get(lits_d)
    ok = its is not None and not vb.unrec.get(lits_d) and len(its) == 1 and its[0][0] == 'ctx' and len(its[0][1]) >= 1 and [c for c in its[0][1] if c[0] == 'each'] and \
        [c for c in its[0][1] if c[0] == 'each'][0][1] == 'items' and not [c for c in its[0][1] if c[0] == 'if' and c[1] != 'enforce_exct_one'] and \
        its[0][2] == ('.', ('mcall', 'std::unordered_map<smt::var_value *, smt::lit>::find', 'c_vals', [c for c in its[0][1] if c[0] == 'each'][0][2]), 'second')
    ctx.instance(rid, [f.id, 'exct_one/lits'], {'function': f.id, 'lits': fmt_items(its)})
    if not ok:
        ctx.finding(rid, f.id, 'exct_one/lits', 'new_var: the exactly-one must range over the literal of every item (found %s)' % fmt_items(its), loc=f.loc)
    # registration
    pushes = [canon(n, env, subst=False) for n in f.nodes() if n.get('k') == 'CXXMemberCallExpr' and (n.get('callee_name') or '').endswith('::push_back') and canon(n['c'][0]['c'][0], env, subst=False) == OV + 'assigns']
    ctx.instance(rid, [f.id, 'register'], {'function': f.id, 'assigns.push_back': [show(p) for p in pushes]})
    if len(pushes) != 1 or pushes[0][3] != 'c_vals':
        ctx.finding(rid, f.id, 'register', 'new_var: the value map must be appended to assigns exactly once', loc=f.loc)


def r2(ctx, fs, rid='C14.R2'):
    ctx.rule(rid, 'new_eq(l,r): l==r -> TRUE_lit; l>r -> new_eq(r,l); cache by ordered pair; empty intersection -> FALSE_lit; clauses: for v outside the intersection '
                  '(both sides) {!e,!l_v}; for v inside {!e,!L_v,R_v} {!e,L_v,!R_v} {e,!L_v,!R_v}; e fresh', floor=9)
    f = fs.fn(OV + 'new_eq')
    env = LocalEnv(f)
    env.param_roles(['left', 'right'])
    env.local_role('intersection', lambda n, i: 'unordered_set<smt::var_value *>' in (n.get('t') or ''))
    env.local_role('eq_lit', lambda n, i: n.get('t') in ('const smt::lit', 'smt::lit') and i is not None and 'ov_theory::assigns' not in show(i))   # not a copy of a value literal
    env.local_role('s_expr', lambda n, i: n.get('t') in ('const std::basic_string<char>', 'std::basic_string<char>'))
    env.local_role('at_expr', lambda n, i: isinstance(i, tuple) and i[0] == 'mcall' and i[1].endswith('::find') and i[2] == OV + 'exprs')
    env2, cl = posted(fs, f, env=env)
    A = lambda side: ('[]', OV + 'assigns', side)
    AT = lambda side: ('mcall', 'std::unordered_map<smt::var_value *, smt::lit>::at', A(side), '$0')
    notin = ('if', ('mcall', 'std::unordered_set<smt::var_value *>::count', 'intersection', '$0.0'), False)      # guards are literals: (atom, polarity)
    want = {
        ((('each', A('left')), notin), frozenset({N('eq_lit'), N('$0.1')})),
        ((('each', A('right')), notin), frozenset({N('eq_lit'), N('$0.1')})),
        ((('each', 'intersection'),), frozenset({N('eq_lit'), N(AT('left')), AT('right')})),
        ((('each', 'intersection'),), frozenset({N('eq_lit'), AT('left'), N(AT('right'))})),
        ((('each', 'intersection'),), frozenset({'eq_lit', N(AT('left')), N(AT('right'))})),
    }
    got = {c for c, _, _ in cl}
    nodes = {c: n for c, _, n in cl}
    for w in sorted(want, key=repr):
        ctx.instance(rid, [f.id, show_clause(w)], {'required_clause': show_clause(w), 'present': w in got})
        if w not in got:
            ctx.finding(rid, f.id, 'missing ' + show_clause(w), 'ov_theory::new_eq does not post %s: the equality literal does not mean "same value"' % show_clause(w), loc=f.loc,
                        construct='posted: ' + ' ; '.join(sorted(show_clause(g) for g in got)), expect=show_clause(w))
    for g in got - want:
        ctx.finding(rid, f.id, 'unexpected ' + show_clause(g), 'ov_theory::new_eq posts %s, which is not part of the definition of the equality' % show_clause(g), node=nodes[g])
    # eq_lit fresh
    d = env.init_of('eq_lit')
    fresh = d == ('lit', ('mcall', 'smt::sat_core::new_var', 'smt::theory::sat'))
    ctx.instance(rid, [f.id, 'fresh'], {'eq_lit': show(d)})
    if not fresh:
        ctx.finding(rid, f.id, 'fresh', 'ov_theory::new_eq: the equality literal must be a fresh variable (found %s)' % show(d), loc=f.loc)
    # intersection built from all values of left that right also has
    inter_ok = False
    for n in f.nodes():
        if n.get('k') == 'CXXForRangeStmt' and canon(n['slots']['range'], env, subst=False) == A('left'):
            b = n['slots']['var'].get('bindings') or []
            for m in walk(n['slots']['body']):
                if m.get('k') == 'IfStmt':
                    c = canon(m['slots']['cond'], env, subst=False)
                    ins = [canon(x, env, subst=False) for x in walk(m['slots']['then']) if x.get('k') == 'CXXMemberCallExpr' and (x.get('callee_name') or '').endswith('::insert')]
                    if b and c == ('mcall', 'std::unordered_map<smt::var_value *, smt::lit>::count', A('right'), b[0]) and ins and ins[0][2] == 'intersection' and ins[0][3] == b[0]:
                        inter_ok = True
    ctx.instance(rid, [f.id, 'intersection'], {'intersection_is_common_values': inter_ok})
    if not inter_ok:
        ctx.finding(rid, f.id, 'intersection', 'ov_theory::new_eq: `intersection` must collect exactly the values present in both domains', loc=f.loc)
    # shortcut paths
    cells = {'identity': False, 'swap': False, 'empty': False, 'cache': False}
    for p in enum_paths(f.body):
        if p.end != 'return':
            continue
        r = canon(p.endnode['c'][0], env, subst=False)
        conds = [(canon(c[1], env, subst=False), c[2]) for c in p.conds if c[0] == 'if']
        if r == 'smt::TRUE_lit' and conds and conds[-1] == (('==', 'left', 'right'), True):
            cells['identity'] = True
        if isinstance(r, tuple) and r[:2] == ('mcall', OV + 'new_eq') and r[3:] == ('right', 'left') and conds[-1] == (('<', 'right', 'left'), True):
            cells['swap'] = True
        if r == 'smt::FALSE_lit' and conds and conds[-1] == (('mcall', 'std::unordered_set<smt::var_value *>::empty', 'intersection'), True):
            cells['empty'] = True
        if r == ('.', 'at_expr', 'second'):
            cells['cache'] = True
    for k, v in cells.items():
        ctx.instance(rid, [f.id, 'shortcut/' + k], {'shortcut': k, 'present': v})
        if not v:
            ctx.finding(rid, f.id, 'shortcut/' + k, 'ov_theory::new_eq: the %s shortcut is missing or altered' % k, loc=f.loc,
                        expect={'identity': 'left == right -> TRUE_lit', 'swap': 'left > right -> new_eq(right, left)', 'empty': 'disjoint domains -> FALSE_lit',
                                'cache': 'cached literal returned'}[k])
    emps = [canon(n, env, subst=False) for n in f.nodes() if n.get('k') == 'CXXMemberCallExpr' and (n.get('callee_name') or '').endswith('::emplace') and canon(n['c'][0]['c'][0], env, subst=False) == OV + 'exprs']
    if len(emps) != 1 or emps[0][3:] != ('s_expr', 'eq_lit'):
        ctx.finding(rid, f.id, 'cache/store', 'ov_theory::new_eq must cache (key, eq_lit)', loc=f.loc)


def r3(ctx, fs):
    rid = 'C14.R3'
    ctx.rule(rid, 'allows(v,val) = stored literal of val, FALSE_lit when val is not in the domain; value(v) = { val | value(literal) != False }', floor=2)
    f = fs.fn(OV + 'allows')
    env = LocalEnv(f)
    env.param_roles(['v', 'val'])
    rets = {}
    for p in enum_paths(f.body):
        if p.end == 'return':
            found = [c[2] for c in p.conds if c[0] == 'if']
            rets[tuple(found)] = canon(p.endnode['c'][0], env)
    a = ('[]', OV + 'assigns', 'v')
    find = ('mcall', 'std::vector<std::unordered_map<smt::var_value *, smt::lit>>::operator[]',)
    ok = len(rets) == 2 and rets.get((False,)) == 'smt::FALSE_lit' and isinstance(rets.get((True,)), tuple) and rets[(True,)][0] == '.' and rets[(True,)][2] == 'second' \
        and 'find' in show(rets[(True,)]) and 'val' in show(rets[(True,)])
    ctx.instance(rid, [f.id, 'table'], {'returns': {str(k): show(v) for k, v in rets.items()}})
    if not ok:
        ctx.finding(rid, f.id, 'table', 'ov_theory::allows must return the stored literal of the value, FALSE_lit for a value outside the domain (found %s)' % {k: show(v) for k, v in rets.items()}, loc=f.loc)
    f = fs.fn(OV + 'value')
    env = LocalEnv(f)
    env.param_roles(['v'])
    ok = False
    for n in f.nodes():
        if n.get('k') == 'CXXForRangeStmt' and canon(n['slots']['range'], env, subst=False) == a:
            b = n['slots']['var'].get('bindings') or [None, None]
            for m in walk(n['slots']['body']):
                if m.get('k') == 'IfStmt':
                    c = canon(m['slots']['cond'], env, subst=False)
                    ins = [canon(x, env, subst=False) for x in walk(m['slots']['then']) if x.get('k') == 'CXXMemberCallExpr' and (x.get('callee_name') or '').endswith('::insert')]
                    if isinstance(c, tuple) and c[0] == '!=' and set(c[1:]) == {'smt::False', ('mcall', 'smt::sat_core::value', 'smt::theory::sat', b[1])} and ins and ins[0][3] == b[0] and not m['slots'].get('else'):
                        ok = True
    ctx.instance(rid, [f.id, 'filter'], {'keeps_values_not_False': ok})
    if not ok:
        ctx.finding(rid, f.id, 'filter', 'ov_theory::value must return exactly the values whose literal is not False', loc=f.loc, expect='if (sat->value(l) != False) vals.insert(val)')


def r4(ctx, fs):
    rid = 'C14.R4'
    ctx.rule(rid, 'every call of ov_theory::new_var(items, enforce): enforce is true (default) except in solver::new_enum, which on the same path creates a var_flaw; '
                  'var_flaw is constructed exclusive; compute_resolvers adds one choose_value per value of value(ev); choose_value\'s rho is allows(ev, val)', floor=5)
    target = fs.fn(OV + 'new_var', params=['var_value', 'bool']).id
    n_calls = 0
    for f, n in cg.callers(fs, lambda n: n.get('callee') == target):
        n_calls += 1
        args = cg.call_args(n)
        enf = cg.bool_const(args[1]) if len(args) > 1 else None
        ctx.instance(rid, [f.id, 'enforce'], {'caller': f.id, 'enforce_exct_one': enf, 'site': short(n.get('loc'))})
        if enf is True:
            continue
        if f.name != 'ratio::solver::new_enum' or enf is None:
            ctx.finding(rid, f.id, 'enforce', '%s creates an object variable without the exactly-one constraint (enforce_exct_one = %s); only solver::new_enum may, because it delegates to a var_flaw' % (f.name, enf),
                        node=n, expect='enforce_exct_one = true')
            continue
        # same path creates a var_flaw and hands it to new_flaw
        flaws = [m for m in f.nodes() if m.get('k') == 'CXXNewExpr' and m.get('alloc_t') == 'ratio::var_flaw']
        nf = [m for m in f.nodes() if m.get('callee_name') == 'ratio::solver::new_flaw']
        guards = []
        for m in flaws:
            for a in f.ancestors(m):
                if a.get('k') == 'IfStmt':
                    guards.append(canon(a['slots']['cond'], None))
        pn = f['params'][1]['name']
        okg = all(g == ('<', ('num', 1), ('mcall', 'std::vector<ratio::item *>::size', pn)) for g in guards)
        ctx.instance(rid, [f.id, 'delegation'], {'caller': f.id, 'var_flaws_created': len(flaws), 'guards': [show(g) for g in guards]})
        if len(flaws) != 1 or len(nf) != 1 or not okg:
            ctx.finding(rid, f.id, 'delegation', 'solver::new_enum waives the exactly-one constraint but does not create a var_flaw for every multi-valued variable', loc=f.loc,
                        expect='new_flaw(*new var_flaw(*this, get_cause(), *xp)) whenever allowed_vals.size() > 1')
    if n_calls == 0:
        raise AnalysisBroken('no caller of ov_theory::new_var(items, enforce) found')
    # var_flaw exclusive
    ctor = fs.fn('ratio::var_flaw::var_flaw')
    excl = None
    for io in ctor.get('inits') or ():
        if io.get('base') == 'ratio::flaw':
            t = canon(io['init'], None)
            excl = t[-1] if isinstance(t, tuple) else None
    ctx.instance(rid, [ctor.id, 'exclusive'], {'flaw_base_exclusive_argument': show(excl)})
    if excl != 'true':
        ctx.finding(rid, ctor.id, 'exclusive', 'var_flaw must be an exclusive flaw (at most one value chosen); found exclusive = %s' % show(excl), loc=ctor.loc)
    # one resolver per current value
    f = fs.fn('ratio::var_flaw::compute_resolvers')
    env = LocalEnv(f)
    ok = False
    env.local_role('vals', lambda n, i: isinstance(i, tuple) and i[0] == 'mcall' and i[1] == OV + 'value')
    vals_def = env.init_of('vals')
    for n in f.nodes():
        if n.get('k') == 'CXXForRangeStmt' and canon(n['slots']['range'], env, subst=False) == 'vals':
            v = n['slots']['var'].get('name')
            anyif = any(m.get('k') in ('IfStmt', 'ContinueStmt', 'BreakStmt') for m in walk(n['slots']['body']))
            adds = [m for m in walk(n['slots']['body']) if m.get('callee_name') == 'ratio::flaw::add_resolver']
            news = [m for m in walk(n['slots']['body']) if m.get('k') == 'CXXNewExpr' and m.get('alloc_t') == 'ratio::var_flaw::choose_value']
            if len(adds) == 1 and len(news) == 1 and not anyif:
                t = canon(news[0], env, subst=False)
                inner = t[2] if len(t) > 2 and isinstance(t[2], tuple) else t
                ok = inner[-1] == v
    src_ok = isinstance(vals_def, tuple) and vals_def[:2] == ('mcall', OV + 'value') and vals_def[3] == ('.', 'ratio::var_flaw::v_itm', 'ev')
    ctx.instance(rid, [f.id, 'resolvers'], {'vals': show(vals_def), 'one_resolver_per_value': ok})
    if not ok or not src_ok:
        ctx.finding(rid, f.id, 'resolvers', 'var_flaw::compute_resolvers must add exactly one choose_value resolver for every value of ov_theory::value(ev), unconditionally', loc=f.loc)
    cv = fs.fn('ratio::var_flaw::choose_value::choose_value')
    cvenv = LocalEnv(cv)
    cvenv.param_roles(['cst', 'enm_flaw', 'val'])
    rho = None
    for io in cv.get('inits') or ():
        if io.get('base') == 'ratio::resolver':
            t = canon(io['init'], cvenv, subst=False)
            rho = t[2] if isinstance(t, tuple) and len(t) > 2 else None
    ok = isinstance(rho, tuple) and rho[:2] == ('mcall', OV + 'allows') and rho[3:] == (('.', ('.', 'enm_flaw', 'v_itm'), 'ev'), 'val')
    ctx.instance(rid, [cv.id, 'rho'], {'rho': show(rho)})
    if not ok:
        ctx.finding(rid, cv.id, 'rho', 'choose_value: the resolver literal must be allows(ev, val) (found %s)' % show(rho), loc=cv.loc)


def run(ctx):
    fs = ctx.facts('P')
    r1(ctx, fs)
    r2(ctx, fs)
    r3(ctx, fs)
    r4(ctx, fs)
    # the exactly-one over the value literals is sat_core::new_exct_one / new_at_most_one (C13, which rests on C07)
    ctx.include('C13')
