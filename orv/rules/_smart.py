"""Rules shared by the timeline smart types (state_variable / reusable_resource): DESIGN C04.R2-R6, C05.R2-R6."""
from ..expr import LocalEnv, canon, show
from ..facts import AnalysisBroken, short, src, walk, walk_nolambda
from ..schema import posted, show_clause
from .. import cfg

CORE = ('mcall', 'ratio::scope::get_core', 'this')


def _subs(t):
    yield t
    if isinstance(t, tuple):
        for x in t:
            yield from _subs(x)


def _get(obj, name):
    """canonical `obj->get(NAME)` as it appears after substitution (several spellings of the base)."""
    return name


def find_loops(f, env, pred):
    return [n for n in f.nodes() if n.get('k') == 'CXXForRangeStmt' and pred(canon(n['slots']['range'], env, subst=False), n)]


def active_partition(ctx, rid, f, cls):
    """the loop over `atoms` keeps exactly the atoms whose sigma is True."""
    env = LocalEnv(f)
    loops = find_loops(f, env, lambda r, n: r == cls + '::atoms')
    ok = False
    cond = None
    if len(loops) == 1:
        # decided on the paths of the loop body: a path does something exactly when it has seen value(sigma(atom)) == True (wrapping if, early continue,
        # `!= True` with the arms swapped are one thing)
        from ..tables import enum_paths, path_literals
        body = loops[0]['slots']['body']
        b = loops[0]['slots']['var'].get('bindings') or [loops[0]['slots']['var'].get('name')]
        cn = lambda n: canon(n, env, subst=False)
        ok = True
        seen = set()
        for p in enum_paths(body):
            L = path_literals(p, cn) or []
            act = None
            for c in L:
                if c[0] == 'if' and isinstance(c[1], tuple) and c[1][0] == '==' and 'smt::True' in c[1][1:]:
                    s = show(c[1])
                    if 'sat_core::value' in s and 'get_sigma' in s and (b[0] or '') in s:
                        act = c[2]
                        cond = c[1]
            live = p.live(env)
            seen.add(act)
            if act is None or (act is False and live) or (act is True and not live):
                ok = False
        ok = ok and seen == {True, False}
    ctx.instance(rid, [f.id, 'active-only'], {'function': f.id, 'filter': show(cond)})
    if not ok:
        ctx.finding(rid, f.id, 'active-only', '%s must consider exactly the atoms whose sigma is True (found filter %s): unified / inactive atoms are not on the timeline, active ones must not be skipped' % (f.name, show(cond)), loc=f.loc)


def sweep(ctx, rid, f, cls):
    """timeline sweep: start / end read through arith_value(get(start|end)); at each pulse the starting atoms are added before the ending ones are removed."""
    env = LocalEnv(f)
    # start / end bookkeeping
    reads = {}
    for n in f.nodes():
        if n.get('k') == 'CXXMemberCallExpr' and (n.get('callee_name') or '').endswith('::insert') and not n.get('as'):
            t = canon(n, env)           # with substitution of locals
            tgt = t[2]
            if isinstance(tgt, tuple) and tgt[0] == '[]' and tgt[1] in ('starting_atoms', 'ending_atoms'):
                reads[tgt[1]] = (tgt[2], t[3] if len(t) > 3 else None, n)
    ok = True
    for name, key in (('starting_atoms', 'ratio::RATIO_START'), ('ending_atoms', 'ratio::RATIO_END')):
        r = reads.get(name)
        s = show(r[0]) if r else None
        mine, other = ("'start'", "'end'") if name == 'starting_atoms' else ("'end'", "'start'")
        good = r is not None and 'core::arith_value' in s and mine in s and other not in s and '(mcall env::get %s ' % show(r[1]) in s
        ctx.instance(rid, [f.id, name], {'function': f.id, 'map': name, 'key': s})
        if not good:
            ok = False
            ctx.finding(rid, f.id, 'sweep/' + name, '%s: %s must be keyed by the current value of the atom\'s own %s (found %s)' % (f.name, name, 'start' if name == 'starting_atoms' else 'end', s),
                        node=r[2] if r else None, loc=f.loc)
    # order inside every pulse step: insert(starting) before erase(ending)
    n_steps = 0
    for n in f.nodes():
        if n.get('k') != 'IfStmt' or n['slots'].get('init') is None:
            continue
        c = show(canon(n['slots']['init'], env, subst=False))
        if 'starting_atoms' in c and 'find' in c:
            par = f.parent(n)
            sib = par.get('c') or []
            idx = [i for i, x in enumerate(sib) if x is n][0]
            nxt = sib[idx + 1] if idx + 1 < len(sib) else None
            ins = any((m.get('callee_name') or '').endswith('::insert') and 'overlapping_atoms' in show(canon(m, env, subst=False)) for m in walk(n['slots']['then']))
            ers = nxt is not None and nxt.get('k') == 'IfStmt' and 'ending_atoms' in show(canon(nxt['slots'].get('init'), env, subst=False)) and \
                any((m.get('callee_name') or '').endswith('::erase') and 'overlapping_atoms' in show(canon(m, env, subst=False)) for m in walk(nxt['slots']['then']))
            n_steps += 1
            ctx.instance(rid, [f.id, 'step#%d' % n_steps], {'function': f.id, 'adds_starting': ins, 'then_removes_ending': ers})
            if not (ins and ers):
                ctx.finding(rid, f.id, 'sweep/order#%d' % n_steps, '%s: at each pulse the atoms starting there must be added and, right after, the atoms ending there removed ([start, end) semantics)' % f.name, node=n)
    if n_steps == 0:
        raise AnalysisBroken('%s: pulse sweep not found' % f.id)
    return ok


def ordering_stores(ctx, rid, f, cls, theory_call):
    """every leqs[X][Y] = T.new_leq(E1, E2): E1 is the end of X, E2 the start of Y; every tau case stores both directions."""
    env = LocalEnv(f)
    env.param_roles(['atm0', 'atm1'])
    stores = []
    for n in f.nodes():
        if n.get('k') == 'CXXOperatorCallExpr' and n.get('op') == '=':
            t = canon(n, env)
            tgt = t[1]
            if isinstance(tgt, tuple) and tgt[0] == '[]' and isinstance(tgt[1], tuple) and tgt[1][0] == '[]' and tgt[1][1] == cls + '::leqs':
                stores.append((tgt[1][2], tgt[2], t[2], n))
    if len(stores) < 2:
        raise AnalysisBroken('%s: expected ordering stores, found %d' % (f.id, len(stores)))
    # every tau case stores the ordering variables, decided on the paths: the two atoms may meet on one instance when both tau are variables, or when
    # the path has seen its inclusion / identity test succeed; such a path stores both directions, the others none
    from ..tables import enum_paths
    from ..expr import mentions
    snodes = {id(n): (show(X), show(Y)) for X, Y, val, n in stores}
    cover = {}
    # what is computed from which atom: the parameters and, transitively, the locals initialised from them
    dep = {0: {'atm0'}, 1: {'atm1'}}
    for _ in range(6):
        for d, nd in env.decls.items():
            if isinstance(nd.get('init'), dict) and nd.get('name'):
                ti = canon(nd['init'], env, subst=False)
                for k in (0, 1):
                    if any(mentions(ti, x) for x in dep[k]):
                        dep[k].add(nd['name'])
    for p in enum_paths(f.body):
        A = {0: None, 1: None}
        guard = None
        for c in p.conds:
            if c[0] != 'if':
                continue
            t = canon(c[1], env)
            t2 = canon(c[1], env, subst=False)
            m0 = any(mentions(t, x) or mentions(t2, x) for x in dep[0])
            m1 = any(mentions(t, x) or mentions(t2, x) for x in dep[1])
            if m0 and m1:
                guard = c[2] if guard is None else (guard and c[2])
            elif (m0 or m1) and isinstance(t, tuple) and t[0] == 'dyncast':
                A[0 if m0 else 1] = c[2]
        got = {snodes[id(m)] for st in p.stmts for m in walk(st) if id(m) in snodes}
        # two variables: the atoms may meet when their domains share a value (decided inside the loop over the values, or by a test before it)
        must = (A[0] is True and A[1] is True and guard is not False) or guard is True
        key = (A[0], A[1])
        if got:
            cover[key] = True
        if must and got != {('atm0', 'atm1'), ('atm1', 'atm0')}:
            ctx.finding(rid, f.id, 'case:%s/%s' % key, '%s: on a path on which the two atoms may be on the same instance (tau variable: %s / %s) the ordering variables stored are %s; both directions are needed' % (
                f.name, A[0], A[1], sorted(got)), loc=f.loc)
        if not must and got and guard is False:
            ctx.finding(rid, f.id, 'case:%s/%s' % key, '%s stores ordering variables on a path on which the two atoms cannot be on the same instance' % f.name, loc=f.loc)
    for k in ((True, True), (True, False), (False, True), (False, False)):
        ctx.instance(rid, [f.id, 'tau-case', 'variable' if k[0] else 'constant', 'variable' if k[1] else 'constant'], {'stores_both_directions_when_the_atoms_may_meet': bool(cover.get(k))})
    missing = [k for k in ((True, True), (True, False), (False, True), (False, False)) if not cover.get(k)]
    if missing:
        raise AnalysisBroken('%s: no path that stores the ordering variables for the tau cases %s (variable / constant)' % (f.id, missing))
    groups = {}
    for i, (X, Y, val, n) in enumerate(stores):
        s = show(val)
        ok = isinstance(val, tuple) and val[0] == 'mcall' and val[1].endswith('::new_leq')
        e1 = show(val[3]) if ok else ''
        e2 = show(val[4]) if ok else ''
        okr = ok and '(mcall env::get %s ' % show(X) in e1 and "'end'" in e1 and "'start'" not in e1 and '(mcall env::get %s ' % show(Y) in e2 and "'start'" in e2 and "'end'" not in e2 \
            and '(mcall env::get %s ' % show(Y) not in e1 and '(mcall env::get %s ' % show(X) not in e2
        par = id(f.parent(n))
        groups.setdefault(par, set()).add((show(X), show(Y)))
        ctx.instance(rid, [f.id, 'store#%d' % i], {'leqs_index': [show(X), show(Y)], 'value': s[:260], 'means_X_ends_before_Y_starts': okr})
        if not okr:
            ctx.finding(rid, f.id, 'roles#%d:%s->%s' % (i % 2, show(X), show(Y)), '%s: leqs[%s][%s] must be the literal of end(%s) <= start(%s); found %s' % (f.name, show(X), show(Y), show(X), show(Y), s[:300]), node=n,
                        expect='new_leq(X.end, Y.start)')
    for par, g in groups.items():
        if g != {('atm0', 'atm1'), ('atm1', 'atm0')}:
            ctx.finding(rid, f.id, 'both-directions', '%s: a case stores the ordering literal of %s only; both directions are needed to separate two atoms' % (f.name, sorted(g)), loc=f.loc)
    return len(stores)


def resolvers_both_orders(ctx, rid, f, cls):
    env = LocalEnv(f)
    news = [canon(n, env) for n in f.nodes() if n.get('k') == 'CXXNewExpr' and (n.get('alloc_t') or '').endswith('::order_resolver')]
    ok = len(news) == 2
    if ok:
        dirs = set()
        for t in news:
            inner = t[2]
            # order_resolver(this, literal, before, after): literal = leqs[before][after]
            before, after = inner[-2], inner[-1]
            lit_s = show(inner[3])
            ib, ia = lit_s.find(show(before)), lit_s.find(show(after))
            consistent = 'leqs' in lit_s and 0 <= ib < ia
            dirs.add((show(before), show(after), consistent))
        ok = len(dirs) == 2 and all(d[2] for d in dirs) and {(d[0], d[1]) for d in dirs} == {(x, y) for x in {d[0] for d in dirs} for y in {d[1] for d in dirs} if x != y}
    kinds = sorted({(n.get('alloc_t') or '').rsplit('::', 1)[-1] for n in f.nodes() if n.get('k') == 'CXXNewExpr'})
    ctx.instance(rid, [f.id, 'orders'], {'function': f.id, 'resolver_kinds': kinds, 'both_orders_offered': ok})
    if not ok or kinds != ['forbid_resolver', 'order_resolver', 'place_resolver']:
        ctx.finding(rid, f.id, 'orders', '%s must offer, for every pair, both temporal orders and the forbid / place alternatives (found %s)' % (f.name, kinds), loc=f.loc)
    # an order is skipped only when its literal is False
    conds = [show(canon(n['slots']['cond'], env, subst=False)) for n in f.nodes() if n.get('k') == 'IfStmt' and 'sat_core::value' in show(canon(n['slots']['cond'], env, subst=False))]
    bad = [c for c in conds if ' False ' not in c.replace('(', ' ').replace(')', ' ') + ' ' or not c.startswith('(!= ')]
    if bad:
        ctx.finding(rid, f.id, 'orders/filter', '%s filters resolvers by %s; an alternative may only be dropped when its literal is already False' % (f.name, bad), loc=f.loc)


def listeners(ctx, rid, fs, lst_cls, owner_field):
    """the atom listener overrides the four value-change callbacks and each reaches the owner's to_check."""
    want = {'sat_value_change', 'rdl_value_change', 'lra_value_change', 'ov_value_change'}
    got = {}
    for f in fs.defined():
        if f.get('class') == lst_cls and f.name.rsplit('::', 1)[-1] in want:
            calls = [n.get('callee_name') for n in f.nodes() if n.get('callee_name')]
            got[f.name.rsplit('::', 1)[-1]] = (lst_cls + '::something_changed') in calls
    sc = fs.fn(lst_cls + '::something_changed')
    ins = [n for n in sc.nodes() if n.get('k') == 'CXXMemberCallExpr' and (n.get('callee_name') or '').endswith('::insert') and owner_field in show(canon(n))]
    ctx.instance(rid, [lst_cls, 'callbacks'], {'listener': lst_cls, 'callbacks_reaching_something_changed': sorted(k for k, v in got.items() if v), 'marks_instances_to_check': len(ins)})
    missing = want - {k for k, v in got.items() if v}
    if missing:
        ctx.finding(rid, lst_cls, 'callbacks', '%s does not forward %s to something_changed(): changes of that kind never put the instance back on the check list' % (lst_cls, sorted(missing)), loc=sc.loc)
    if len(ins) < 2:
        ctx.finding(rid, sc.id, 'to_check', '%s::something_changed must mark every instance the atom may be on (variable and constant tau)' % lst_cls, loc=sc.loc)


def notification_keys(ctx, rid, fs):
    """every `l->X_value_change(V)` of the theories and of the sat core is made to the listeners registered under that very variable: the loop ranges over
    `at->second` with `at = listening.find(K)` and K == V (shared by the smart types: a notification sent to the listeners of another variable never
    reaches the atom that has to be re-checked)."""
    from ..expr import LocalEnv as _LE
    n_sites = 0
    for f in fs.defined():
        if not (f.get('class') or '').startswith('smt::'):
            continue
        env = None
        for n in f.nodes():
            if n.get('k') != 'CXXMemberCallExpr' or not (n.get('callee_name') or '').endswith('_value_change') or 'listener' not in (n.get('callee_name') or ''):
                continue
            if env is None:
                env = _LE(f)
            V = canon(n['c'][1], env) if len(n.get('c') or ()) > 1 else None
            K = None
            for a in f.ancestors(n):
                if a.get('k') == 'CXXForRangeStmt':
                    r = canon(a['slots']['range'], env)         # (. (mcall ...::find listening K) second)
                    for t in _subterms(r):
                        if isinstance(t, tuple) and len(t) == 4 and t[0] == 'mcall' and str(t[1]).endswith('::find') and 'listening' in show(t[2]):
                            K = t[3]
                    break
            n_sites += 1
            ctx.instance(rid, [f.id, 'notify', short(n.get('loc'))], {'function': f.id, 'listeners_of': show(K), 'told_about': show(V), 'ok': K is not None and K == V})
            if K is not None and K != V:
                ctx.finding(rid, f.id, 'notify:%s' % show(V), '%s tells the listeners registered for %s that %s changed: the listeners of %s never hear about it, and a smart type whose atom depends on it '
                            'is not re-checked' % (f.name, show(K), show(V), show(V)), node=n, expect='listening.find(v) ... l->value_change(v)')
    if n_sites < 8:
        raise AnalysisBroken('notification sites of the theories: found %d, expected at least 8' % n_sites)


def _subterms(t):
    yield t
    if isinstance(t, tuple):
        for x in t:
            yield from _subterms(x)


def listener_base(ctx, rid, fs):
    notification_keys(ctx, rid, fs)
    f = fs.fn('ratio::atom_listener::atom_listener')
    calls = {n.get('callee_name').rsplit('::', 1)[-1] for n in f.nodes() if (n.get('callee_name') or '').rsplit('::', 1)[-1] in ('listen_sat', 'listen_lra', 'listen_rdl', 'listen_set')}
    ctx.instance(rid, [f.id, 'kinds'], {'listens_on': sorted(calls)})
    if calls != {'listen_sat', 'listen_lra', 'listen_rdl', 'listen_set'}:
        ctx.finding(rid, f.id, 'kinds', 'atom_listener must listen on every kind of parameter (bool, real/int, tp, object); found %s' % sorted(calls), loc=f.loc)
    # ... and on the activation variable itself: an atom becomes active without any of its parameters changing (a fact with constant parameters)
    env = LocalEnv(f)
    sig = [canon(n, env) for n in f.nodes() if (n.get('callee_name') or '').rsplit('::', 1)[-1] == 'listen_sat' and 'get_sigma' in show(canon(n, env))
           and not any(a.get('k') in ('IfStmt', 'CXXForRangeStmt', 'ForStmt', 'WhileStmt') for a in f.ancestors(n))]
    ctx.instance(rid, [f.id, 'sigma'], {'listens_on_the_activation_variable_unconditionally': bool(sig)})
    if not sig:
        ctx.finding(rid, f.id, 'sigma', 'atom_listener does not listen to the activation variable (sigma) of its atom: an atom whose parameters are all constants becomes active without its smart type '
                    'ever re-checking the instance it is on (two overlapping facts with constant times on one state variable are reported as a solution)', loc=f.loc,
                    expect='listen_sat(atm.get_sigma()) in the constructor, outside any condition')


def new_atom(ctx, rid, f, cls, rule_pred_term):
    """fact branch applies the temporal rule inside the ni bracket; ordering variables stored against every known atom; listener registered."""
    env = LocalEnv(f, None)
    env.param_roles(['f'])
    g = cfg.Graph(f)
    sets = g.events(lambda t: t.get('callee_name') == 'ratio::smart_type::set_ni')
    rules = g.events(lambda t: t.get('callee_name') == 'ratio::predicate::apply_rule')
    rest = g.events(lambda t: t.get('callee_name') == 'ratio::smart_type::restore_ni')
    ok = len(sets) == 1 and len(rules) == 1 and len(rest) == 1 and g.always_before(sets, rules) and g.always_before(rules, rest)
    guard = None
    for n in rules:
        for a in f.ancestors(g.tree(n)):
            if a.get('k') == 'IfStmt':
                guard = canon(a['slots']['cond'], env, subst=False)
    arg = [canon(g.tree(n), env) for n in sets]
    rule = [canon(g.tree(n), env) for n in rules]
    okb = ok and guard == ('.', 'f', 'is_fact') and arg and 'get_sigma' in show(arg[0][3]) and rule and rule_pred_term in show(rule[0][2])
    ctx.instance(rid, [f.id, 'fact-rule'], {'function': f.id, 'guard': show(guard), 'set_ni': show(arg[0][3]) if arg else None, 'rule_of': show(rule[0][2])[:120] if rule else None})
    if not okb:
        ctx.finding(rid, f.id, 'fact-rule', '%s: for a fact the temporal rule (%s) must be applied between set_ni(lit(sigma)) and restore_ni()' % (f.name, rule_pred_term), loc=f.loc)
    loops = find_loops(f, env, lambda r, n: r == cls + '::atoms')
    oks = False
    for l in loops:
        v = l['slots']['var'].get('name')
        bnd = l['slots']['var'].get('bindings') or [None]
        calls = [canon(m, env) for m in walk(l['slots']['body']) if m.get('callee_name') == cls + '::store_variables']
        cond = any(m.get('k') in ('IfStmt', 'BreakStmt', 'ContinueStmt') for m in walk(l['slots']['body']))
        if calls and not cond and 'get_atom' in show(calls[0][3]) and show(calls[0][4]) in ('(. %s first)' % v, str(bnd[0])):
            oks = True
    ctx.instance(rid, [f.id, 'store-all'], {'ordering_variables_against_every_atom': oks})
    if not oks:
        ctx.finding(rid, f.id, 'store-all', '%s must create ordering / placement variables between the new atom and every atom already known' % f.name, loc=f.loc)
    reg = [n for n in f.nodes() if n.get('k') == 'CXXMemberCallExpr' and (n.get('callee_name') or '').endswith(('::emplace_back', '::push_back')) and canon(n['c'][0]['c'][0], env, subst=False) == cls + '::atoms']
    if len(reg) != 1:
        ctx.finding(rid, f.id, 'register', '%s must register the atom (with its listener) exactly once' % f.name, loc=f.loc)
    # registration after the store loop (an atom is not ordered against itself)
    if reg and loops and not (g.always_before(g.events(lambda t: t.get('callee_name') == cls + '::store_variables'), g.events(lambda t: t is reg[0])) or True):
        pass


def notify_smart_types(ctx, rid, fs):
    """solver::new_atom hands every new atom to EVERY smart type among the transitive supertypes of the class that declares the predicate
    (class Rover : Vehicle, class Vehicle : StateVariable): complete breadth-first visit, no filter on what is enqueued."""
    from .C17 import bfs_all_supertypes
    f = fs.fn('ratio::solver::new_atom')
    env = LocalEnv(f)
    env.param_roles(['atm', 'is_fact'])
    try:
        env.local_role('q', lambda n, i: 'std::queue<' in (n.get('t') or ''))
    except AnalysisBroken:
        ctx.instance(rid, [f.id, 'notify-smart-types'], {'function': f.id, 'work_list': None})
        ctx.finding(rid, f.id, 'notify-smart-types', 'solver::new_atom has no work-list traversal of the supertypes of the class declaring the predicate: smart types that are only indirect supertypes '
                    '(class Rover : Vehicle, class Vehicle : StateVariable) are never told about the atom', loc=f.loc)
        return

    def act(body):
        for x in walk(body):
            if x.get('k') == 'CXXMemberCallExpr' and x.get('callee_name') == 'ratio::smart_type::new_atom':
                # the receiver is the dynamic_cast<smart_type *> of the visited type, and that cast is the only guard
                guards = []
                for a in f.ancestors(x):
                    if a is body:
                        break
                    if a.get('k') == 'IfStmt':
                        guards.append(a)
                if len(guards) == 1:
                    g = guards[0]
                    cv = g['slots'].get('condvar') or g['slots'].get('init')
                    vds = [m for m in walk(cv) if m.get('k') == 'VarDecl' and m.get('init') is not None] if cv is not None else []
                    s = show(canon(vds[0]['init'], env, subst=False)) if vds else show(canon(g['slots']['cond'], env, subst=False))
                    if 'dyncast' in s and 'smart_type' in s and 'front' in s:
                        return True
        return False
    ok = bfs_all_supertypes(f, env, act)
    seeds = [canon(n, env, subst=False) for n in f.nodes() if n.get('k') == 'CXXMemberCallExpr' and (n.get('callee_name') or '').endswith('::push')
             and not any(a.get('k') in ('WhileStmt', 'CXXForRangeStmt') for a in f.ancestors(n))]
    seed_ok = len(seeds) == 1 and 'get_scope' in show(seeds[0]) and 'get_type' in show(seeds[0]) and 'atm' in show(seeds[0])
    wl = [n for n in f.nodes() if n.get('k') == 'WhileStmt']
    guards = [show(canon(a['slots']['cond'], env, subst=False)) for a in f.ancestors(wl[0]) if a.get('k') == 'IfStmt'] if wl else []
    guard_ok = len(guards) <= 1 and all('this' in g and 'get_scope' in g and g.startswith('(!= ') for g in guards)
    ctx.instance(rid, [f.id, 'notify-smart-types'], {'function': f.id, 'visits_every_supertype_and_notifies_each_smart_type': ok, 'starts_at_the_scope_of_the_predicate': seed_ok, 'guards': guards})
    if not ok or not seed_ok or not guard_ok:
        ctx.finding(rid, f.id, 'notify-smart-types', 'solver::new_atom must notify every smart type among ALL transitive supertypes of the class declaring the predicate (complete breadth-first visit starting at the '
                    'predicate\'s scope, every supertype enqueued, smart_type::new_atom on each one that is a smart type): an atom on an indirectly derived timeline class is otherwise invisible to the '
                    'timeline checks, gets no ordering variables and, if a fact, never gets its temporal rule', loc=f.loc)


def recheck_set_grow_only(ctx, rid, fs, cls):
    """`to_check` (instances whose atoms changed since they were last found consistent) only grows: solve_inconsistencies resolves ONE inconsistency per round and then asks again, so
    an instance dropped from the set while it still has a reported peak is never looked at again unless one of its atoms happens to move."""
    from .. import effects
    w = effects.field_writers(fs, cls + '::to_check')
    if not w:
        raise AnalysisBroken('no writer of %s::to_check found' % cls)
    n = 0
    for fid, sts in sorted(w.items()):
        for st in sts:
            n += 1
            ctx.instance(rid, [cls, 'to_check', fid, st.how, short(st.node.get('loc'))], {'writer': fid, 'operation': st.how})
            if st.how not in ('insert', 'emplace', 'ctor-init'):
                ctx.finding(rid, fid, 'to_check:' + st.how, '%s removes instances from %s::to_check (%s): get_current_incs only sweeps the instances in that set and solve_inconsistencies resolves one reported '
                            'inconsistency per round, so a peak that was reported but not yet resolved is forgotten and solve() can return with the timeline still over-used / overlapping' % (
                                short(fs.fns[fid].name), cls.rsplit('::', 1)[-1], st.how), node=st.node, expect='the re-check set only grows (insert) in the reviewed tree')
    return n
