"""C20 - parallel pivoting gives the sequential result and is race-free (DESIGN 4, C20).

What is decided here is the *structural* part of the property - the part visible in the shape of the code of the PARALLELIZE build
(configurations P_par and F) compared with the sequential build (P):

R0  inventory: the functions / fields that differ between the sequential and the parallel build are exactly the reviewed ones
    (lra_theory::pivot, new_var, copy constructor; thread_pool, sat_core::get_thread_pool, var_mtx, t_mtxs, th_pool).
R1  the task body of pivot() in the parallel build is, statement for statement, the sequential row-update body, modulo the
    std::lock_guard declarations; the code before the enqueue loop and after the join is identical in both builds.
R2  lockset: inside a task every access to this->t_watches is t_watches[E] inside the scope of a std::lock_guard on t_mtxs[E]
    (same index expression); no other member of the theory is touched by a task.
R3  task privacy: the task captures this, and copies of the entering variable, of the solved expression and of its own row pointer;
    nothing is captured by reference; the enqueue loop ranges over a std::unordered_set<row *> local that the tasks do not see
    (so two tasks never get the same row), every store of a task goes to its own row, to a task local, or to a locked watch list.
R4  join: on every path of pivot() the enqueue loop is followed by thread_pool::join() before any other access to the tableau,
    the watch lists or new_row(), and before returning; nothing is enqueued anywhere else.
R5  t_mtxs has one mutex per watch list: every function that resizes t_watches resizes t_mtxs to the same size; nobody else writes t_mtxs.
R6  thread_pool: tasks / active / stop are only touched inside the scope of a lock on queue_mutex; a task is counted active in the
    critical section that dequeues it; active is decremented (and waiters notified at zero) after the task ran; join() waits for
    `active == 0 && tasks.empty()`; enqueue notifies after pushing.

The full property (identical observables under every schedule) additionally needs that the order in which tasks insert into the
unordered watch sets is unobservable; watch sets are unordered_set<row *> whose iteration order already depends on allocation
addresses in the sequential build - that part is runtime behaviour and is not decided here (see DESIGN 4, C20).
"""
import hashlib
import json
import re

from ..expr import LocalEnv, canon, show
from ..facts import AnalysisBroken, REPO, kids, short, src, walk, walk_nolambda
from .. import cfg, effects

LRA = 'smt::lra_theory::'
TP = 'smt::thread_pool::'

# ---------------------------------------------------------------------------
# structural serialisation (no locations, no ids)

KEYS = ('k', 'op', 'callee', 'member', 'ref', 'value', 't', 'name', 'arrow', 'list')


def struct(n, drop=None, noconst=False):
    if not isinstance(n, dict):
        return n
    d = []
    for k in KEYS:
        if k in n:
            v = n[k]
            if isinstance(v, str):
                if noconst and k == 't':
                    v = re.sub(r'\bconst ', '', v)     # a by-value capture is const inside a non-mutable lambda
                v = re.sub(r'\(lambda at [^)]*\)', '(lambda)', v)
                if k in ('ref', 'name'):
                    v = re.sub(r'^__(begin|end|range)\d+$', r'__\1', v)      # implicit range-for variables are numbered by nesting depth
            d.append((k, v))
    if n.get('k') == 'LambdaExpr':
        d.append(('captures', tuple((bool(c.get('this')), c.get('var'), bool(c.get('byref'))) for c in n.get('captures', []))))
        d.append(('capture_default', n.get('capture_default')))
    ks = [c for c in kids(n) if not (drop and drop(c))]
    return (tuple(d), tuple(struct(c, drop, noconst) for c in ks))


def fn_hash(f):
    parts = [struct(r) for r in f.roots()]
    inits = [(i.get('member') or i.get('base'), struct(i.get('init'))) for i in f.get('inits') or ()]
    return hashlib.sha1((repr(parts) + repr(inits)).encode()).hexdigest()


def in_repo(f):
    return (f.d.get('loc') or '').startswith(REPO + '/')


def is_lock_decl(n):
    """DeclStmt / VarDecl of a std::lock_guard / std::unique_lock / std::scoped_lock."""
    if n.get('k') == 'DeclStmt':
        ds = [c for c in kids(n)]
        return bool(ds) and all(is_lock_decl(c) for c in ds)
    return n.get('k') == 'VarDecl' and re.match(r'(const )?std::(lock_guard|unique_lock|scoped_lock)<', n.get('t') or '') is not None


def lock_arg(n, env):
    """canonical mutex expression of a lock declaration (VarDecl or DeclStmt holding one)."""
    if n.get('k') == 'DeclStmt':
        n = list(kids(n))[0]
    init = n.get('init')
    if not init or init.get('k') != 'CXXConstructExpr' or not init.get('c'):
        return None
    return canon(init['c'][0], env, subst=False)


# ---------------------------------------------------------------------------

REVIEWED_DIFF = {
    LRA + 'pivot': 'row updates of one pivot run as pool tasks (R1-R4)',
    LRA + 'new_var': 'sizes t_mtxs with the variables (R5)',
    LRA + 'lra_theory': 'the copy constructor sizes t_mtxs with the copied watch lists (R5)',
}
REVIEWED_ONLY_PAR = {
    TP + 'thread_pool': 'worker loop (R6)', TP + '~thread_pool': 'stop + join workers (R6)', TP + 'size': 'reads workers.size()',
    TP + 'enqueue': 'R6', TP + 'join': 'R6', 'smt::sat_core::get_thread_pool': 'getter of the per-core pool',
    LRA + 'var_mtx::var_mtx': 'copyable mutex wrapper (a copy is a fresh mutex) so that vector::resize compiles',
    LRA + 'var_mtx::operator==': 'identity comparison',
}
REVIEWED_FIELDS = {'smt::lra_theory': {'t_mtxs'}, 'smt::sat_core': {'th_pool'}}


def r0(ctx, P, Q, qname):
    rid = 'C20.R0'
    for fid, f in sorted(Q.fns.items()):
        if not f.is_def or not in_repo(f):
            continue
        g = P.fns.get(fid)
        if g is None or not g.is_def:
            from ..effects import _fully_inlined
            if f.d.get('_new_helper') and _fully_inlined(Q, f):
                continue        # a helper extracted from reviewed code: analysed where it was inlined
            ctx.instance(rid, ['only-parallel', f.name], {'function': fid, 'reviewed': REVIEWED_ONLY_PAR.get(f.name)})
            if f.name not in REVIEWED_ONLY_PAR:
                ctx.finding(rid, fid, 'only-parallel', '%s exists only in the PARALLELIZE build and is not in the reviewed table: its effects on shared solver state are not covered by R1-R6' % f.name, loc=f.loc)
        elif fn_hash(f) != fn_hash(g):
            from ..effects import _fully_inlined
            if f.d.get('_new_helper') and g.d.get('_new_helper') and _fully_inlined(Q, f) and _fully_inlined(P, g):
                continue        # a helper extracted from reviewed code (in both builds): its two bodies are compared where they were inlined
            ctx.instance(rid, ['differs', f.name], {'function': fid, 'reviewed': REVIEWED_DIFF.get(f.name)})
            if f.name not in REVIEWED_DIFF:
                ctx.finding(rid, fid, 'differs', '%s is compiled differently with PARALLELIZE and is not in the reviewed table' % f.name, loc=f.loc)
    for fid, f in sorted(P.fns.items()):
        if f.is_def and in_repo(f) and not (fid in Q.fns and Q.fns[fid].is_def):
            ctx.finding(rid, fid, 'only-sequential', '%s exists only in the sequential build: the two builds no longer run the same code' % f.name, loc=f.loc)
    for rec, r in sorted(Q.records.items()):
        if not rec.startswith('smt::') and not rec.startswith('ratio::'):
            continue
        pf = set(x['name'] for x in (P.records.get(rec) or {}).get('fields', []))
        qf = set(x['name'] for x in r.get('fields', []))
        if rec not in P.records:
            continue
        for extra in sorted(qf ^ pf):
            ctx.instance(rid, ['field', rec, extra], {'record': rec, 'field': extra})
            if extra not in REVIEWED_FIELDS.get(rec, ()):
                ctx.finding(rid, rec, 'field:' + extra, 'field %s::%s exists in only one of the two builds and is not reviewed' % (rec, extra))


def pivot_parts(f, parallel):
    """(prefix statements, loop node, row-update body, suffix statements) of pivot()."""
    body = f.body
    stmts = list(kids(body))
    loop_i = None
    for i, s in enumerate(stmts):
        if s.get('k') == 'CXXForRangeStmt' and 'unordered_set<smt::row *' in ((s['slots']['range'].get('t')) or ''):
            loop_i = i
    if loop_i is None:
        raise AnalysisBroken('%s: the loop over the rows watching the entering variable (range-for over a std::unordered_set<row *>) was not found' % f.id)
    loop = stmts[loop_i]
    lb = loop['slots']['body']
    lam = None
    if parallel:
        lams = [n for n in walk(lb) if n.get('k') == 'LambdaExpr']
        if len(lams) != 1:
            raise AnalysisBroken('%s: expected exactly one task lambda in the enqueue loop, found %d' % (f.id, len(lams)))
        lam = lams[0]
        upd = lam['c'][0]
    else:
        upd = lb
    return stmts[:loop_i], loop, upd, stmts[loop_i + 1:], lam


def r1(ctx, P, Q, qname):
    rid = 'C20.R1'
    fp, fq = P.fn(LRA + 'pivot'), Q.fn(LRA + 'pivot')
    pre_p, loop_p, upd_p, suf_p, _ = pivot_parts(fp, False)
    pre_q, loop_q, upd_q, suf_q, lam = pivot_parts(fq, True)
    drop = lambda n: is_lock_decl(n) or bool(n.get('as'))      # assert() expansions embed __PRETTY_FUNCTION__ and have no effect

    def flat(n):
        # a compound of one statement == the statement (the sequential body is wrapped in a block)
        s = struct(n, drop, True)
        while s[0] == (('k', 'CompoundStmt'),) and len(s[1]) == 1:
            s = s[1][0]
        return s
    sp, sq = flat(upd_p), flat(upd_q)
    same = sp == sq
    if not same:
        # not statement for statement the same text: compare what the two bodies DO - their normalised path sets (guards as literals, effects as sorted
        # multisets, locals alpha-renamed), the lock_guard declarations left out
        from .. import dual

        class Body(dual.Summ):
            def stmt(self, st):
                if is_lock_decl(st):
                    return None
                return super().stmt(st)
        a, b = Body(P, fp, subst=False), Body(Q, fq, subst=False)
        a.alpha_scope(upd_p)
        b.alpha_scope(upd_q)
        same = a.paths(upd_p) == b.paths(upd_q)
    ctx.instance(rid, [qname, 'task-body'], {'sequential': '%s:%s' % (fp.loc, short(upd_p.get('loc'))), 'task': short(lam.get('loc')), 'equal_modulo_lock_guards': same,
                                           'statements': len(list(walk(upd_q)))})
    if not same:
        where = first_diff(sp, sq)
        ctx.finding(rid, fq.id, 'task-body', 'pivot(): the row-update task of the PARALLELIZE build is not the sequential row update (modulo lock_guard declarations): %s' % where,
                    node=lam, expect='identical statements so that every task computes what the sequential loop body computes')
    a, b = [struct(s) for s in pre_p], [struct(s) for s in pre_q]
    ctx.instance(rid, [qname, 'prefix'], {'statements': len(a), 'equal': a == b})
    if a != b:
        ctx.finding(rid, fq.id, 'prefix', 'pivot(): the code before the row updates differs between the sequential and the PARALLELIZE build', loc=fq.loc)
    # suffix: the parallel one is join(); + the sequential suffix
    sufq = [s for s in suf_q if not is_join(s)]
    a, b = [struct(s) for s in suf_p], [struct(s) for s in sufq]
    ctx.instance(rid, [qname, 'suffix'], {'statements': len(a), 'equal': a == b})
    if a != b:
        ctx.finding(rid, fq.id, 'suffix', 'pivot(): the code after the row updates differs between the sequential and the PARALLELIZE build (apart from join())', loc=fq.loc)
    # the loops range over the same set with the same variable
    a, b = struct(loop_p['slots']['range']), struct(loop_q['slots']['range'])
    va, vb = struct(loop_p['slots']['var']), struct(loop_q['slots']['var'])
    if a != b or va != vb:
        ctx.finding(rid, fq.id, 'loop', 'pivot(): the PARALLELIZE build enqueues tasks for a different set of rows than the sequential loop visits', node=loop_q)
    # the loop body of the parallel build is exactly one enqueue call
    lb = loop_q['slots']['body']
    st = lb
    while st.get('k') == 'CompoundStmt' and len(list(kids(st))) == 1:
        st = list(kids(st))[0]
    while st.get('k') in ('ExprWithCleanups', 'CXXBindTemporaryExpr') and st.get('c'):
        st = st['c'][0]
    ok = st.get('k') == 'CXXMemberCallExpr' and st.get('callee_name') == TP + 'enqueue' and any(x is lam for x in walk(st))
    ctx.instance(rid, [qname, 'one-enqueue-per-row'], {'ok': ok})
    if not ok:
        ctx.finding(rid, fq.id, 'one-enqueue-per-row', 'pivot(): the body of the loop over the rows is not exactly one thread_pool::enqueue of the row-update task', node=lb)


def first_diff(a, b, path=''):
    if a == b:
        return ''
    if not (isinstance(a, tuple) and isinstance(b, tuple) and len(a) == 2 and len(b) == 2 and isinstance(a[1], tuple) and isinstance(b[1], tuple)):
        return '%s: %r vs %r' % (path, a, b)
    if a[0] != b[0]:
        da, db = dict(a[0]), dict(b[0])
        ks = [k for k in set(da) | set(db) if da.get(k) != db.get(k)]
        return '%s/%s: %s' % (path, da.get('k'), ', '.join('%s: %r vs %r' % (k, da.get(k), db.get(k)) for k in sorted(ks)))
    if len(a[1]) != len(b[1]):
        ka = [dict(x[0]).get('k') for x in a[1]]
        kb = [dict(x[0]).get('k') for x in b[1]]
        return '%s/%s: sequential has %s, task has %s' % (path, dict(a[0]).get('k'), ka, kb)
    for i, (x, y) in enumerate(zip(a[1], b[1])):
        if x != y:
            return first_diff(x, y, '%s/%s[%d]' % (path, dict(a[0]).get('k'), i))
    return ''


def is_join(s):
    while s.get('k') in ('ExprWithCleanups', 'CXXBindTemporaryExpr') and s.get('c'):
        s = s['c'][0]
    return s.get('k') == 'CXXMemberCallExpr' and s.get('callee_name') == TP + 'join'


def scopes_with_locks(root, env):
    """yield (node, [mutex terms held at node]) for every node below root, following RAII scoping: a lock declared in a compound statement
    (or an if/for init) is held for the rest of that compound."""
    def rec(n, held):
        yield n, held
        if n.get('k') == 'CompoundStmt':
            h = list(held)
            for c in kids(n):
                yield from rec(c, tuple(h))
                if is_lock_decl(c):
                    a = lock_arg(c, env)
                    h.append(a)
        else:
            for c in kids(n):
                yield from rec(c, held)
    yield from rec(root, ())


def r2(ctx, Q, qname):
    rid = 'C20.R2'
    f = Q.fn(LRA + 'pivot')
    _, loop, upd, _, lam = pivot_parts(f, True)
    env = LocalEnv(f)
    n_acc = 0
    for n, held in scopes_with_locks(upd, env):
        if n.get('k') == 'MemberExpr' and n.get('is_field') and (n.get('member') or '').startswith(LRA):
            base = (n.get('c') or [None])[0]
            if base is not None and base.get('k') != 'CXXThisExpr':
                continue
            m = n['member']
            par = parent_in(upd, n)
            if m == LRA + 't_mtxs':
                # only as the argument of a lock declaration: t_mtxs[E]
                ctx.instance(rid, [qname, 'mutex', short(n.get('loc'))], {'mutex': src(par) if par else src(n)})
                continue
            if m != LRA + 't_watches':
                ctx.instance(rid, [qname, 'member', m], {'member': m})
                ctx.finding(rid, f.id, 'member:' + m.rsplit('::', 1)[-1], 'a row-update task touches %s, which is shared with the other tasks and not protected by any mutex' % m, node=n)
                continue
            n_acc += 1
            ok = False
            idx = None
            if par is not None and par.get('k') == 'CXXOperatorCallExpr' and par.get('op') == '[]' and par['c'][1] is n:
                idx = canon(par['c'][2], env, subst=False)
                want = ('[]', LRA + 't_mtxs', idx)
                ok = want in held
            ctx.instance(rid, [qname, 'access', short(n.get('loc'))], {'access': src(par) if par else src(n), 'index': show(idx) if idx is not None else None, 'locks_held': [show(h) for h in held], 'ok': ok})
            if not ok:
                ctx.finding(rid, f.id, 'unlocked:%d' % n_acc, 'a row-update task accesses %s without holding the mutex of that watch list (locks held: %s): two tasks adding/removing their rows for the same variable race on the set'
                            % (src(par) if par is not None else 't_watches', ', '.join(show(h) for h in held) or 'none'), node=par or n, expect='std::lock_guard on t_mtxs[<same index>] declared earlier in the enclosing block')
    if n_acc < 2:
        raise AnalysisBroken('%s: fewer than two watch-list accesses found in the task body' % f.id)


def parent_in(root, node):
    for n in walk(root):
        for c in kids(n):
            if c is node:
                return n
    return None


def r3(ctx, Q, qname):
    rid = 'C20.R3'
    f = Q.fn(LRA + 'pivot')
    _, loop, upd, _, lam = pivot_parts(f, True)
    loopvar = loop['slots']['var']
    lv = loopvar.get('name')
    rng = loop['slots']['range']
    rng_local = rng.get('ref') if rng.get('k') == 'DeclRefExpr' and rng.get('local') else None
    ctx.instance(rid, [qname, 'rows-distinct'], {'range': src(rng), 'type': rng.get('t'), 'local': rng_local})
    if rng_local is None:
        ctx.finding(rid, f.id, 'rows-distinct', 'pivot(): the enqueue loop does not range over a local std::unordered_set<row *>: two tasks may update the same row, or the set may change while tasks run', node=rng)
    caps = lam.get('captures') or []
    if lam.get('capture_default'):
        ctx.finding(rid, f.id, 'capture-default', 'the row-update task uses a capture default: what it shares with the enqueuing thread is no longer explicit', node=lam)
    for c in caps:
        nm = 'this' if c.get('this') else c.get('var')
        ctx.instance(rid, [qname, 'capture', nm], {'capture': nm, 'by_reference': bool(c.get('byref'))})
        if c.get('byref'):
            ctx.finding(rid, f.id, 'capture:' + str(nm), 'the row-update task captures %s by reference: %s' % (nm, 'the loop variable is rebound / dies while queued tasks still read it' if nm == lv else
                        'the task shares the object with the enqueuing thread and the other tasks'), node=lam, expect='captures by value')
        if nm == rng_local:
            ctx.finding(rid, f.id, 'capture:' + str(nm), 'the row-update task captures the set of rows it is scheduled from', node=lam)
    names = set(('this' if c.get('this') else c.get('var')) for c in caps)
    if lv not in names:
        ctx.finding(rid, f.id, 'capture:row', 'the row-update task does not capture its own row (%s)' % lv, node=lam)
    # stores of the task: own row, task locals, locked watch lists
    class W:
        def nodes(self_):
            return walk(upd)
    for st in effects.stores(W()):
        tgt = st.target
        kind, root = st.kind, st.root
        desc = src(st.node)
        okind = None
        if kind == 'local' or (kind == 'other' and root in names and root != 'this'):
            if root == lv:
                okind = 'own-row'
            elif root in names:
                # by-value capture of a non-pointer: a private copy (mutation would need `mutable`)
                okind = 'captured-copy'
            else:
                okind = 'task-local'
        elif kind == 'field' and root == LRA + 't_watches':
            okind = 'watch-list (R2)'
        ctx.instance(rid, [qname, 'store', short(st.node.get('loc'))], {'store': desc, 'root': root, 'class': okind})
        if okind is None:
            ctx.finding(rid, f.id, 'store:' + str(root).rsplit('::', 1)[-1], 'a row-update task writes %s (%s), which is neither its own row, a task local nor a locked watch list' % (root, desc), node=st.node)
    # calls of member functions of the theory from a task (they could touch anything)
    for n in walk(upd):
        if n.get('k') == 'CXXMemberCallExpr' and (n.get('callee_name') or '').startswith('smt::') and not (n.get('callee_name') or '').startswith('smt::rational::') \
                and not (n.get('callee_name') or '').startswith('smt::inf_rational::') and not (n.get('callee_name') or '').startswith('smt::lin::'):
            ctx.finding(rid, f.id, 'call:' + n['callee_name'].rsplit('::', 1)[-1], 'a row-update task calls %s: its effects on shared state are outside the lock discipline' % n['callee_name'], node=n)


def r4(ctx, Q, qname):
    rid = 'C20.R4'
    f = Q.fn(LRA + 'pivot')
    g = cfg.Graph(f)
    enq = g.events(cfg.is_call(TP + 'enqueue'))
    join = g.events(cfg.is_call(TP + 'join'))
    if not enq:
        raise AnalysisBroken('%s: no enqueue event in the CFG' % f.id)
    ok = bool(join) and all(g.must_pass(join, start=e, normal=False) for e in enq)
    ctx.instance(rid, [qname, 'join-after-enqueue'], {'enqueue_sites': len(enq), 'join_sites': len(join), 'every_path_joins': ok})
    if not ok:
        ctx.finding(rid, f.id, 'join', 'pivot(): a path leaves the enqueue loop and reaches the end of pivot() without thread_pool::join(): the caller reads rows that tasks are still rewriting', loc=f.loc)
    # between the last enqueue and join(): no access of the enqueuing thread to the tableau / watch lists / new_row
    _, loop, upd, suf, lam = pivot_parts(f, True)
    seen_join = False
    for s in suf:
        if is_join(s):
            seen_join = True
            break
        for n in walk_nolambda(s):
            if (n.get('k') == 'MemberExpr' and n.get('is_field') and n.get('member') in (LRA + 't_watches', LRA + 'tableau', LRA + 'vals')) or \
                    (n.get('callee_name') or '').startswith(LRA):
                ctx.finding(rid, f.id, 'before-join', 'pivot(): the enqueuing thread touches the tableau (%s) while row-update tasks may still be running (before join())' % src(n), node=n)
    ctx.instance(rid, [qname, 'nothing-before-join'], {'join_is_next': seen_join})
    if not seen_join:
        ctx.finding(rid, f.id, 'join-top', 'pivot(): join() is not a statement of the function body following the enqueue loop', loc=f.loc)
    # the statements of the loop outside the lambda do not touch shared rows either (checked by R1 one-enqueue-per-row)
    # who enqueues
    for h in Q.defined():
        if not in_repo(h):
            continue
        for n in h.nodes():
            if n.get('callee_name') == TP + 'enqueue':
                ctx.instance(rid, [qname, 'enqueuer', h.name], {'function': h.id})
                if h.name != LRA + 'pivot':
                    ctx.finding(rid, h.id, 'enqueuer', '%s enqueues pool tasks: only lra_theory::pivot is covered by the task rules R1-R4' % h.name, node=n)


def r5(ctx, Q, qname):
    rid = 'C20.R5'
    ww = effects.field_writers(Q, LRA + 't_watches')
    mw = effects.field_writers(Q, LRA + 't_mtxs')
    GROW = ('resize', 'push_back', 'emplace_back', 'assign', 'clear', 'pop_back', '=', 'reserve', 'swap', 'insert', 'erase', 'emplace', 'ctor-init')
    for fid in sorted(set(ww) | set(mw)):
        f = Q.fns[fid]
        env = LocalEnv(f)

        def whole(sts, field):
            out = []
            for s in sts:
                if s.how == 'ctor-init':
                    out.append(('ctor-init', None))
                elif s.target is not None and canon(s.target, env, subst=False) == field and s.how in GROW:
                    out.append((s.how, tuple(canon(a, env, subst=False) for a in (s.value if isinstance(s.value, list) else [s.value]) if a is not None)))
            return out
        a, b = whole(ww.get(fid, []), LRA + 't_watches'), whole(mw.get(fid, []), LRA + 't_mtxs')
        if not a and not b:
            continue
        ctx.instance(rid, [qname, f.name, fid], {'function': fid, 't_watches': [[h, [show(x) for x in v or ()]] for h, v in a], 't_mtxs': [[h, [show(x) for x in v or ()]] for h, v in b]})
        # t_mtxs.resize(t_watches.size()) after the watch lists were resized is the same size by construction
        tw_size = ('mcall', 'std::vector<std::unordered_set<smt::row *>>::size', LRA + 't_watches')
        if a and b and all(h == 'resize' for h, _ in a + b) and all(v == (tw_size,) for _, v in b) and len(a) == len(b):
            continue
        if sorted(a, key=repr) != sorted(b, key=repr):
            ctx.finding(rid, fid, 'sizes', '%s changes the number of watch lists (%s) but not the number of mutexes in the same way (%s): a task then indexes t_mtxs out of range or two watch lists share no mutex'
                        % (short(f.name), a or 'unchanged', b or 'unchanged'), loc=f.loc)
    # element stores into t_mtxs (other than locking) are not expected at all
    for fid, sts in mw.items():
        for s in sts:
            if s.how != 'resize' and s.how != 'ctor-init':
                ctx.finding(rid, fid, 'mtx-store', 't_mtxs is modified by %s (%s)' % (fid, s.how), node=s.node)


def r6(ctx, Q, qname):
    rid = 'C20.R6'
    SHARED = {TP + 'tasks', TP + 'active', TP + 'stop'}
    MUTEX = TP + 'queue_mutex'
    from ..effects import _fully_inlined
    fns = [f for f in Q.defined() if f.name.startswith(TP) and in_repo(f) and not (f.d.get('_new_helper') and _fully_inlined(Q, f))]      # a helper extracted from these functions is analysed where it was inlined
    if len(fns) < 5:
        raise AnalysisBroken('thread_pool: expected constructor, destructor, size, enqueue, join; found %d functions' % len(fns))
    for f in fns:
        env = LocalEnv(f)
        for n, held in scopes_with_locks(f.body, env):
            if n.get('k') == 'MemberExpr' and n.get('is_field') and n.get('member') in SHARED:
                # wait predicates run with the lock held (condition_variable::wait(lock, pred) contract): a lambda that is the 2nd argument of wait
                inpred = False
                for a in ancestors_in(f, n):
                    if a.get('k') == 'LambdaExpr':
                        p = f.parent(a)
                        while p is not None and p.get('k') in ('MaterializeTemporaryExpr', 'ImplicitCastExpr', 'CXXBindTemporaryExpr', 'ExprWithCleanups', 'CXXConstructExpr', 'CXXFunctionalCastExpr'):
                            p = f.parent(p)
                        if p is not None and (p.get('callee_name') or '').startswith('std::condition_variable::wait'):
                            inpred = True
                        break
                ok = inpred or MUTEX in held
                ctx.instance(rid, [qname, f.name, short(n.get('loc'))], {'access': src(f.parent(n) or n), 'member': n['member'], 'under_queue_mutex': ok, 'in_wait_predicate': inpred})
                if not ok:
                    ctx.finding(rid, f.id, 'unlocked:' + n['member'].rsplit('::', 1)[-1], 'thread_pool: %s is accessed without holding queue_mutex in %s' % (n['member'].rsplit('::', 1)[-1], short(f.name)), node=f.parent(n) or n)
    # worker loop: active++ in the critical section that pops; active-- after task() under the lock, notify at zero
    ctor = [f for f in fns if f.name == TP + 'thread_pool' and f.body is not None and any(True for _ in walk(f.body))]
    ctor = [f for f in ctor if any(n.get('k') == 'LambdaExpr' for n in f.nodes())]
    if not ctor:
        raise AnalysisBroken('thread_pool constructor with the worker lambda not found')
    f = ctor[0]
    env = LocalEnv(f)

    def has(n, pred):
        return any(pred(m) for m in walk(n))
    is_pop = lambda m: m.get('k') == 'CXXMemberCallExpr' and (m.get('callee_name') or '').endswith('::pop') and effects.root_of(m['c'][0]['c'][0])[1] == TP + 'tasks'
    is_inc = lambda op: (lambda m: m.get('k') == 'UnaryOperator' and m.get('op') == op and effects.root_of(m['c'][0])[1] == TP + 'active')
    is_run = lambda m: m.get('k') == 'CXXOperatorCallExpr' and m.get('op') == '()' and 'std::function<void ()>' in (m.get('callee') or '')
    is_notify = lambda m: m.get('k') == 'CXXMemberCallExpr' and (m.get('callee_name') or '') in ('std::condition_variable::notify_all',)
    blocks = [n for n in f.nodes() if n.get('k') == 'CompoundStmt' and any(is_lock_decl(c) for c in kids(n))]
    pop_b = [b for b in blocks if has(b, is_pop)]
    okp = len(pop_b) == 1 and has(pop_b[0], is_inc('++'))
    ctx.instance(rid, [qname, 'worker', 'count-on-dequeue'], {'ok': okp})
    if not okp:
        ctx.finding(rid, f.id, 'count-on-dequeue', 'thread_pool worker: the task is not counted active (active++) in the critical section that removes it from the queue: join() can see an empty queue and active == 0 while the task is still to run', loc=f.loc)
    dec_b = [b for b in blocks if has(b, is_inc('--'))]
    # order in the worker loop body: pop-block, task(), dec-block
    okd = False
    if len(dec_b) == 1 and pop_b:
        par = f.parent(dec_b[0])
        if par is not None and par is f.parent(pop_b[0]):
            ks = list(kids(par))
            ip = [i for i, k in enumerate(ks) if k is pop_b[0]][0]
            idc = [i for i, k in enumerate(ks) if k is dec_b[0]][0]
            runs = [i for i, k in enumerate(ks) if has(k, is_run) and k is not pop_b[0] and k is not dec_b[0]]
            okd = bool(runs) and ip < min(runs) and max(runs) < idc
        # notify when active == 0 (conditional or unconditional)
        okn = has(dec_b[0], is_notify)
        for m in walk(dec_b[0]):
            if m.get('k') == 'IfStmt' and has(m, is_notify):
                c = canon(m['slots']['cond'], env, subst=False)
                okn = norm_and(c) in (norm_and(('==', TP + 'active', ('num', 0))), ('!', TP + 'active'))
    else:
        okn = False
    ctx.instance(rid, [qname, 'worker', 'uncount-after-run'], {'ok': okd, 'notifies_at_zero': okn})
    if not okd:
        ctx.finding(rid, f.id, 'uncount-after-run', 'thread_pool worker: active-- does not follow the execution of the task (dequeue; task(); active--): join() may return while a task is running', loc=f.loc)
    if not okn:
        ctx.finding(rid, f.id, 'notify-at-zero', 'thread_pool worker: waiters are not notified (notify_all) when the last active task finishes: join() never wakes up', loc=f.loc)
    # join predicate
    f = Q.fn(TP + 'join')
    env = LocalEnv(f)
    preds = []
    for n in f.nodes():
        if n.get('k') == 'CXXMemberCallExpr' and (n.get('callee_name') or '').startswith('std::condition_variable::wait'):
            lam = [l for l in walk(n) if l.get('k') == 'LambdaExpr']
            for l in lam:
                rets = [m for m in walk(l) if m.get('k') == 'ReturnStmt']
                if rets:
                    preds.append(norm_and(nnf(canon(rets[0]['c'][0], None))))
            if not lam:
                # wait(lock) without a predicate: the condition waited for is the negation of the condition of the loop that repeats the wait
                # (`while (!P) cv.wait(lock);` is what `cv.wait(lock, [&]{ return P; })` is defined to do)
                lp = None
                for a in f.ancestors(n):
                    if a.get('k') == 'WhileStmt':
                        body = a['slots']['body']
                        sts = [x for x in (body.get('c') or ()) if x.get('k') != 'NullStmt'] if body.get('k') == 'CompoundStmt' else [body]
                        if len(sts) == 1 and any(m is n for m in walk(sts[0])):
                            lp = a
                        break
                preds.append(norm_and(nnf(('!', canon(lp['slots']['cond'], env, subst=False)))) if lp is not None else ('unguarded wait',))
    want = norm_and(('&&', ('==', TP + 'active', ('num', 0)), ('mcall', 'std::queue<std::function<void ()>>::empty', TP + 'tasks')))
    want = norm_and(nnf(want))
    okj = len(preds) == 1 and preds[0] == want
    ctx.instance(rid, [qname, 'join', 'predicate'], {'predicates': [show(p) for p in preds], 'ok': okj})
    if not okj:
        ctx.finding(rid, f.id, 'predicate', 'thread_pool::join does not wait for `active == 0 && tasks.empty()` (found %s): it can return while row updates are queued or running' % [show(p) for p in preds], loc=f.loc)
    # join has no path to its end that skips the wait unless the same condition holds
    for n in f.nodes():
        if n.get('k') == 'IfStmt' and any((m.get('callee_name') or '').startswith('std::condition_variable::wait') for m in walk(n['slots']['then'])):
            c = canon(n['slots']['cond'], env, subst=False)
            okg = norm_and(nnf(c)) == norm_and(nnf(('!', want)))
            ctx.instance(rid, [qname, 'join', 'guard'], {'guard': show(c), 'ok': okg})
            if not okg:
                ctx.finding(rid, f.id, 'guard', 'thread_pool::join skips the wait under %s, which is not the negation of the join condition' % show(c), node=n)
    # enqueue: push then notify
    f = Q.fn(TP + 'enqueue')
    g = cfg.Graph(f)
    push = g.events(lambda m: m.get('k') == 'CXXMemberCallExpr' and (m.get('callee_name') or '').endswith('::push') or (m.get('callee_name') or '').endswith('::emplace'))
    noti = g.events(lambda m: m.get('k') == 'CXXMemberCallExpr' and (m.get('callee_name') or '').startswith('std::condition_variable::notify_'))
    oke = bool(push) and bool(noti) and all(g.must_pass(noti, start=e, normal=False) for e in push)
    ctx.instance(rid, [qname, 'enqueue', 'push-then-notify'], {'ok': oke})
    if not oke:
        ctx.finding(rid, f.id, 'push-then-notify', 'thread_pool::enqueue does not notify a worker after queuing the task: the task may never run and join() never returns', loc=f.loc)


def nnf(t, neg=False):
    """negation normal form: negations pushed down to the comparisons (de Morgan), `!(a == b)` as `a != b`."""
    if isinstance(t, tuple) and t:
        if t[0] == '!' and len(t) == 2:
            return nnf(t[1], not neg)
        if t[0] in ('&&', '||'):
            op = t[0] if not neg else ('||' if t[0] == '&&' else '&&')
            return (op,) + tuple(nnf(x, neg) for x in t[1:])
        if t[0] in ('==', '!=') and len(t) == 3:
            op = t[0] if not neg else ('!=' if t[0] == '==' else '==')
            return (op,) + t[1:]
    return ('!', t) if neg else t


def negate(t):
    if isinstance(t, tuple) and t:
        if t[0] == '&&':
            return ('||',) + tuple(negate(x) for x in t[1:])
        if t[0] == '||':
            return ('&&',) + tuple(negate(x) for x in t[1:])
        if t[0] == '==':
            return ('!=',) + t[1:]
        if t[0] == '!=':
            return ('==',) + t[1:]
        if t[0] == '!':
            return t[1]
    return ('!', t)


def norm_and(t):
    if isinstance(t, tuple) and t and t[0] in ('&&', '||'):
        flat = []
        for x in t[1:]:
            nx = norm_and(x)
            if isinstance(nx, tuple) and nx and nx[0] == t[0]:
                flat.extend(nx[1:])
            else:
                flat.append(nx)
        return (t[0],) + tuple(sorted(flat, key=repr))
    if isinstance(t, tuple) and t and t[0] in ('==', '!=') and len(t) == 3:
        return (t[0],) + tuple(sorted(t[1:], key=repr))
    if isinstance(t, tuple):
        return tuple(norm_and(x) for x in t)
    return t


def ancestors_in(f, n):
    return f.ancestors(n)


def run(ctx):
    ctx.rule('C20.R0', 'the functions and fields that differ between the sequential and the PARALLELIZE build are exactly the reviewed ones', floor=10)
    ctx.rule('C20.R1', 'the pivot task body equals the sequential row-update body modulo lock_guard declarations; prefix, suffix (apart from join) and the set of rows are the same', floor=4)
    ctx.rule('C20.R2', 'lockset: every t_watches access of a task is t_watches[E] in the scope of a lock_guard on t_mtxs[E]; tasks touch no other member', floor=4)
    ctx.rule('C20.R3', 'task privacy: by-value captures (this, x_j, expr, r), rows come from a local unordered_set<row *>, stores go to the own row / task locals / locked watch lists', floor=8)
    ctx.rule('C20.R4', 'every path from enqueue to the end of pivot() joins the pool before touching the tableau again; only pivot() enqueues', floor=3)
    ctx.rule('C20.R5', 'whoever resizes t_watches resizes t_mtxs to the same size', floor=2)
    ctx.rule('C20.R6', 'thread_pool state only under queue_mutex; active counted on dequeue, uncounted after the run with notify at zero; join waits for active == 0 && tasks.empty(); enqueue notifies', floor=12)
    P = ctx.facts('P')
    cfgs = ['P_par', 'F'] if ctx.tier == 'thorough' else ['P_par']
    for qname in cfgs:
        Q = ctx.facts(qname)
        if qname == 'P_par':
            r0(ctx, P, Q, qname)
        r1(ctx, P, Q, qname)
        r2(ctx, Q, qname)
        r3(ctx, Q, qname)
        r4(ctx, Q, qname)
        r5(ctx, Q, qname)
        r6(ctx, Q, qname)
    ctx.note('decided: the structural clauses (same task body as the sequential loop, lockset, task privacy, join placement, mutex sizing, pool protocol). '
             'Not decided: schedule-independence of the iteration order of the unordered watch sets (runtime behaviour).')
