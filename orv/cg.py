"""Whole-program call graph and the exception-escape fix-point (DESIGN 3.A, C18.R1)."""
import re

from .facts import kids, short, walk

STD_BASES = {
    'std::invalid_argument': 'std::logic_error', 'std::out_of_range': 'std::logic_error',
    'std::domain_error': 'std::logic_error', 'std::length_error': 'std::logic_error',
    'std::logic_error': 'std::exception', 'std::runtime_error': 'std::exception',
    'std::overflow_error': 'std::runtime_error', 'std::range_error': 'std::runtime_error',
    'std::bad_alloc': 'std::exception', 'std::exception': None,
}

# partial functions on *names*: they throw std::out_of_range when the key is
# unknown.  They are sources only at call sites whose key is not a compile-time
# string constant (user identifiers); matched by full signature.
LOOKUP = re.compile(
    r'^ratio::(core|scope|type|env|item|var_item|enum_type|typedef_type|predicate|atom|method|constructor|conjunction)::'
    r'(get|get_type|get_field|get_method|get_predicate|get_constructor)'
    r'\((const std::basic_string<char> &|const std::vector<const ratio::type \*> &)')
STD_THROWING = {'std::stol': 'std::out_of_range', 'std::stoi': 'std::out_of_range', 'std::stod': 'std::out_of_range',
                'std::stoll': 'std::out_of_range', 'std::stoul': 'std::out_of_range', 'std::stoull': 'std::out_of_range',
                'std::stof': 'std::out_of_range'}


def clean_type(t):
    return (t or '').replace('const ', '').replace(' &', '').replace('&', '').strip()


class Hierarchy:
    def __init__(self, fs):
        self.fs = fs

    def bases(self, t):
        t = clean_type(t)
        out = [t]
        seen = {t}
        st = [t]
        while st:
            x = st.pop()
            nxt = []
            if x in STD_BASES:
                if STD_BASES[x]:
                    nxt = [STD_BASES[x]]
            elif x in self.fs.records:
                nxt = [clean_type(b) for b in self.fs.records[x]['bases']]
            for b in nxt:
                if b not in seen:
                    seen.add(b)
                    out.append(b)
                    st.append(b)
        return out

    def caught_by(self, t, handlers):
        bs = None
        for h in handlers:
            if h == '...':
                return True
            if bs is None:
                bs = self.bases(t)
            if clean_type(h) in bs:
                return True
        return False


def has_string_literal(n):
    for m in walk(n):
        if m.get('k') == 'StringLiteral':
            return True
    return False


def call_args(n):
    """argument nodes of a call-like node (without the callee expression)."""
    c = n.get('c') or []
    if n.get('k') in ('CXXConstructExpr', 'CXXTemporaryObjectExpr'):
        return c
    if n.get('k') == 'CXXOperatorCallExpr':
        return c[1:]
    return c[1:]


def bool_const(n):
    if n is None:
        return None
    if n.get('k') == 'CXXDefaultArgExpr':
        c = n.get('c') or []
        return bool_const(c[0]) if c else None
    if n.get('k') == 'CXXBoolLiteralExpr':
        return bool(n.get('val'))
    return None


def thrown_type(n):
    for m in walk(n.get('c')):
        if m.get('k') in ('CXXConstructExpr', 'CXXTemporaryObjectExpr', 'CXXFunctionalCastExpr'):
            return clean_type(m.get('t'))
    c = n.get('c') or []
    if not c or c[0] is None:
        return None     # re-throw
    return clean_type(c[0].get('t'))


class Events:
    """per function (and constant-bool parameter environment): throws and calls with their enclosing handlers."""

    def __init__(self, fs):
        self.fs = fs
        self.memo = {}

    def of(self, fid, env=()):
        key = (fid, env)
        if key in self.memo:
            return self.memo[key]
        f = self.fs.fns.get(fid)
        out = []
        if f is not None and f.is_def:
            envd = dict(env)
            pnames = {p['loc']: p['name'] for p in f['params']}
            for r in f.roots():
                self._scan(r, [], out, envd, pnames, False)
        self.memo[key] = out
        return out

    def _cond_value(self, cond, envd):
        """three-valued value of an if-condition under constant bool parameters."""
        if cond is None:
            return None
        k = cond.get('k')
        if k == 'DeclRefExpr' and cond.get('refk') == 'ParmVar' and cond.get('ref') in envd:
            return envd[cond['ref']]
        if k == 'UnaryOperator' and cond.get('op') == '!':
            v = self._cond_value(cond['c'][0], envd)
            return None if v is None else (not v)
        if k == 'BinaryOperator' and cond.get('op') in ('&&', '||'):
            a = self._cond_value(cond['c'][0], envd)
            b = self._cond_value(cond['c'][1], envd)
            if cond['op'] == '&&':
                if a is False or b is False:
                    return False
                if a is True and b is True:
                    return True
            else:
                if a is True or b is True:
                    return True
                if a is False and b is False:
                    return False
        return None

    def _scan(self, n, caught, out, envd, pnames, in_lambda):
        if isinstance(n, list):
            for c in n:
                self._scan(c, caught, out, envd, pnames, in_lambda)
            return
        if not isinstance(n, dict):
            return
        k = n.get('k')
        if n.get('as'):
            return  # assert() expansion: beliefs, compiled out in the pinned build
        if k == 'CXXTryStmt':
            hs = [h.get('caught') for h in n['c'][1:]]
            self._scan(n['c'][0], caught + hs, out, envd, pnames, in_lambda)
            for h in n['c'][1:]:
                # a handler that re-throws (throw;) passes the caught types on
                self._scan(h.get('c'), caught, out, envd, pnames, in_lambda)
            return
        if k == 'IfStmt' and envd:
            sl = n['slots']
            v = self._cond_value(sl.get('cond'), envd)
            if v is not None:
                self._scan(sl.get('init'), caught, out, envd, pnames, in_lambda)
                self._scan(sl.get('then') if v else sl.get('else'), caught, out, envd, pnames, in_lambda)
                return
        if k == 'CXXThrowExpr':
            out.append(('throw', thrown_type(n), n.get('loc'), list(caught), n))
        if k == 'LambdaExpr':
            # the body runs when the lambda is invoked; the repo only invokes
            # lambdas synchronously through std algorithms or stores them as
            # tasks; attribute to the enclosing function (over-approximation
            # of who may throw is fine for sinks that are noexcept *callers*).
            for c in n.get('c') or ():
                self._scan(c, caught, out, envd, pnames, True)
            return
        if 'callee' in n:
            args = call_args(n)
            callee = self.fs.fns.get(n['callee'])
            cenv = ()
            if callee is not None:
                ce = []
                for p, a in zip(callee['params'], args):
                    if p['t'] in ('bool', 'const bool &', 'const bool'):
                        v = bool_const(a)
                        if v is not None:
                            ce.append((p['name'], v))
                cenv = tuple(ce)
            out.append(('call', n['callee'], n.get('loc'), list(caught), bool(n.get('virtual')), n.get('callee_name'),
                        n, cenv))
        for c in kids(n):
            self._scan(c, caught, out, envd, pnames, in_lambda)


class Escape:
    """may-throw sets: (fid, env) -> {exception type: witness chain}."""

    def __init__(self, fs, extra_sources=None, suppressed_fns=()):
        self.fs = fs
        self.h = Hierarchy(fs)
        self.ev = Events(fs)
        self.MT = {}
        self.extra_sources = extra_sources or {}   # fid -> [(type, loc, text)]
        self.suppressed = set(suppressed_fns)
        self.nsources = 0
        self._run()

    def is_lookup(self, fid):
        return bool(LOOKUP.match(fid))

    def _local(self, key):
        fid, env = key
        m = {}
        if self.is_lookup(fid) or fid in self.suppressed:
            return m
        for t, loc, text in self.extra_sources.get(fid, ()):
            m.setdefault(t, [(fid, loc, text)])
        for e in self.ev.of(fid, env):
            if e[0] == 'throw':
                t = e[1]
                if t is None:
                    continue
                if not self.h.caught_by(t, e[3]):
                    m.setdefault(t, [(fid, e[2], 'throw ' + t)])
            else:
                _, callee, loc, caught, virt, cname, node, cenv = e
                if cname in STD_THROWING and not self.h.caught_by(STD_THROWING[cname], caught):
                    m.setdefault(STD_THROWING[cname], [(fid, loc, 'call ' + cname + ' (throws on out-of-range / malformed text)')])
                if callee and self.is_lookup(callee):
                    key_args = call_args(node)
                    const_key = bool(key_args) and has_string_literal(key_args[0])
                    if not const_key and not self.h.caught_by('std::out_of_range', caught):
                        m.setdefault('std::out_of_range', [(fid, loc, 'lookup with a non-constant key: ' + cname)])
        return m

    def targets(self, e):
        _, callee, loc, caught, virt, cname, node, cenv = e
        ts = {(callee, cenv)}
        if virt:
            for o in self.fs.all_overriders(callee):
                ts.add((o, cenv))
        return ts

    def _run(self):
        # discover (fid, env) nodes reachable from every defined function with empty env
        nodes = set()
        work = [(f.id, ()) for f in self.fs.defined()]
        edges = {}
        while work:
            key = work.pop()
            if key in nodes:
                continue
            nodes.add(key)
            es = []
            for e in self.ev.of(*key):
                if e[0] != 'call':
                    continue
                for tg in self.targets(e):
                    f = self.fs.fns.get(tg[0])
                    if f is None or not f.is_def:
                        continue
                    es.append((tg, e))
                    if tg not in nodes:
                        work.append(tg)
            edges[key] = es
        for key in nodes:
            self.MT[key] = self._local(key)
            self.nsources += len(self.MT[key])
        changed = True
        while changed:
            changed = False
            for key in nodes:
                if self.is_lookup(key[0]) or key[0] in self.suppressed:
                    continue
                mk = self.MT[key]
                for tg, e in edges[key]:
                    tf = self.fs.fns[tg[0]]
                    if tf.get('noexcept'):
                        continue     # would terminate there: reported at that frame
                    if self.is_lookup(tg[0]):
                        continue
                    for t, w in self.MT.get(tg, {}).items():
                        if t in mk:
                            continue
                        if self.h.caught_by(t, e[3]):
                            continue
                        mk[t] = [(key[0], e[2], 'call ' + tg[0])] + w
                        changed = True
        self.nodes = nodes

    def may_throw(self, fid):
        return self.MT.get((fid, ()), {})


def callgraph(fs):
    """fid -> set of callee fids (virtual calls to all overriders)."""
    g = {}
    for f in fs.defined():
        s = set()
        for n in f.nodes():
            if 'callee' in n:
                s.add(n['callee'])
                if n.get('virtual'):
                    s |= fs.all_overriders(n['callee'])
        g[f.id] = s
    return g


def reachable(g, roots):
    seen = set()
    st = list(roots)
    while st:
        k = st.pop()
        if k in seen:
            continue
        seen.add(k)
        st.extend(g.get(k, ()))
    return seen


def callers(fs, callee_pred):
    """[(fn, call node)] for every call whose resolved callee satisfies pred."""
    from .effects import _fully_inlined
    out = []
    for f in fs.defined():
        if f.d.get('_new_helper') and _fully_inlined(fs, f):
            continue            # a fully inlined helper that the reviewed inventory does not know: its calls are the calls of its callers
        for n in f.nodes():
            if 'callee' in n and callee_pred(n):
                out.append((f, n))
    return out
