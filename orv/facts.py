"""Configure /repo (no compilation), run the fact extractor, cache, load, index.

Nothing of oRatio is built or executed: `cmake` is run in *configure only* mode
in a scratch directory (mktemp, removed afterwards) to obtain the generated
headers and the exact per-unit flags; `bin/orfacts` (libTooling) parses every
unit of the compile database and dumps resolved AST + CFG facts.
"""
import gzip
import hashlib
import json
import os
import pickle
import shutil
import subprocess
import sys
import tempfile
import time
from concurrent.futures import ThreadPoolExecutor

VERIF = os.path.dirname(os.path.dirname(os.path.abspath(__file__)))
REPO = os.environ.get('ORV_REPO', '/repo')
ORFACTS = os.path.join(VERIF, 'bin', 'orfacts')
CACHE = os.path.join(VERIF, '.cache') if 'ORV_REPO' not in os.environ else os.path.join(REPO, '.orv-cache')

# ---------------------------------------------------------------------------
# configurations: name -> cmake options.  P is the pinned one, F the fullest
# (executor + parallel + listeners).  The rest is the option matrix of
# solver/CMakeLists.txt, each with and without listeners where it matters.
CONFIGS = {
    'P': {},
    'F': {'BUILD_EXECUTOR': 'ON', 'PARALLELIZE': 'ON'},
    'F_seq': {'BUILD_EXECUTOR': 'ON', 'PARALLELIZE': 'OFF'},
    'P_par': {'PARALLELIZE': 'ON'},
}
for _h in ('h_max', 'h_add', 'h2_max', 'h2_add'):
    for _ci in ('OFF', 'ON'):
        for _df in ('ON', 'OFF'):
            for _ls in ('OFF', 'ON'):
                CONFIGS['M_%s_ci%s_df%s_ls%s' % (_h, _ci[1], _df[1], _ls[1])] = {
                    'HEURISTIC_TYPE': _h, 'CHECK_INCONSISTENCIES': _ci, 'DEFERRABLE_FLAWS': _df,
                    'BUILD_EXECUTOR': _ls}
# configurations that do not type-check at the pinned commit (DESIGN 1.2):
# analysed only as "does it parse"; never a violation.
UNSUPPORTED = {
    'DL': {'TEMPORAL_NETWORK_TYPE': 'DL'},
    'NOPRUNE': {'GRAPH_PRUNING': 'OFF'},
}

EXCLUDE_DIRS = ('/tests/',)


class AnalysisBroken(Exception):
    """An anchor vanished / a unit failed to parse / an idiom is unrecognised."""


def tree_hash():
    """sha256 over every source the build can see + the extractor binary."""
    h = hashlib.sha256()
    paths = []
    for root, dirs, files in os.walk(REPO):
        dirs[:] = sorted(d for d in dirs if d not in ('_build', '.git', 'api', 'gui', 'examples'))
        for f in sorted(files):
            if f.endswith(('.cpp', '.h', '.in', '.cmake')) or f == 'CMakeLists.txt':
                paths.append(os.path.join(root, f))
    for p in paths:
        h.update(p.encode())
        with open(p, 'rb') as fh:
            h.update(fh.read())
    with open(ORFACTS, 'rb') as fh:
        h.update(fh.read())
    return h.hexdigest()[:24], len(paths)


_TREE = None


def tree():
    global _TREE
    if _TREE is None:
        _TREE = tree_hash()
    return _TREE


def _configure(opts, scratch):
    cmd = ['cmake', '-G', 'Ninja', '-S', REPO, '-B', scratch, '-DCMAKE_EXPORT_COMPILE_COMMANDS=ON',
           '-DCMAKE_BUILD_TYPE=RelWithDebInfo', '-Wno-dev', '-Wno-deprecated']
    cmd += ['-D%s=%s' % kv for kv in sorted(opts.items())]
    r = subprocess.run(cmd, stdout=subprocess.PIPE, stderr=subprocess.STDOUT, text=True)
    if r.returncode != 0:
        raise AnalysisBroken('cmake configure failed for %r:\n%s' % (opts, r.stdout[-2000:]))
    with open(os.path.join(scratch, 'compile_commands.json')) as fh:
        return json.load(fh)


def _extract_unit(scratch, outdir, entry):
    src = entry['file']
    out = os.path.join(outdir, src.replace('/', '_') + '.json')
    cmd = [ORFACTS, '-p', scratch, '-o', out, '--root', REPO.rstrip('/') + '/',
           '--extra-arg=-std=gnu++17', '--extra-arg=-UNDEBUG', '--extra-arg=-Wno-everything', src]
    r = subprocess.run(cmd, stdout=subprocess.PIPE, stderr=subprocess.PIPE, text=True)
    return src, out, r.returncode, r.stderr


def extract(cfgname, opts, only_units=None):
    """configure + extract one configuration; returns merged fact dict."""
    if not os.path.exists(ORFACTS):
        raise AnalysisBroken('extractor %s missing: run MANIFEST.setup_cmd (make -C /verif)' % ORFACTS)
    scratch = tempfile.mkdtemp(prefix='orv-cfg-')
    outdir = tempfile.mkdtemp(prefix='orv-out-')
    try:
        db = _configure(opts, scratch)
        seen = set()
        units = []
        for e in db:
            f = e['file']
            if f in seen or any(x in f for x in EXCLUDE_DIRS):
                continue
            if only_units is not None and not any(f.endswith(u) for u in only_units):
                continue
            seen.add(f)
            units.append(e)
        init_h = None
        p = os.path.join(scratch, 'solver', 'init.h')
        if os.path.exists(p):
            with open(p) as fh:
                init_h = fh.read()
        with ThreadPoolExecutor(max_workers=16) as ex:
            results = list(ex.map(lambda e: _extract_unit(scratch, outdir, e), units))
        merged = {'config': cfgname, 'options': opts, 'units': [], 'failed_units': [], 'functions': {},
                  'records': {}, 'enums': {}, 'init_h': init_h,
                  'flags': {e['file']: e['command'] for e in units}}
        for src, out, rc, err in results:
            if rc != 0 or not os.path.exists(out):
                merged['failed_units'].append((src, err[-1500:]))
                continue
            with open(out) as fh:
                j = json.load(fh)
            if j.get('errors'):
                merged['failed_units'].append((src, err[-1500:]))
                continue
            merged['units'].append(src)
            for f in j['functions']:
                k = f['id']
                f['tu'] = src
                old = merged['functions'].get(k)
                if old is None or (f.get('is_def') and not old.get('is_def')):
                    merged['functions'][k] = f
            for r in j['records']:
                merged['records'][r['name']] = r
            for e in j['enums']:
                merged['enums'][e['name']] = e
        return merged
    finally:
        shutil.rmtree(scratch, ignore_errors=True)
        shutil.rmtree(outdir, ignore_errors=True)


def init_h(opts):
    """the generated solver/init.h of a configuration (configure only: works for configurations whose units do not compile)."""
    scratch = tempfile.mkdtemp(prefix='orv-cfg-')
    try:
        _configure(opts, scratch)
        p = os.path.join(scratch, 'solver', 'init.h')
        with open(p) as fh:
            return fh.read()
    finally:
        shutil.rmtree(scratch, ignore_errors=True)


def _prune_cache(keep):
    if not os.path.isdir(CACHE):
        return
    ents = [d for d in os.listdir(CACHE) if os.path.isdir(os.path.join(CACHE, d))]
    ents.sort(key=lambda d: os.path.getmtime(os.path.join(CACHE, d)))
    for d in ents[:-3]:
        if d != keep:
            shutil.rmtree(os.path.join(CACHE, d), ignore_errors=True)


_LOADED = {}


def load(cfgname):
    """Facts of one configuration of the *current* tree (cache keyed by content)."""
    if cfgname in _LOADED:
        return _LOADED[cfgname]
    opts = CONFIGS.get(cfgname)
    if opts is None:
        opts = UNSUPPORTED[cfgname]
    key, _ = tree()
    d = os.path.join(CACHE, key)
    p = os.path.join(d, cfgname + '.pkl.gz')
    raw = None
    if os.path.exists(p):
        try:
            with gzip.open(p, 'rb') as fh:
                raw = pickle.load(fh)
        except Exception:
            raw = None
    if raw is None:
        raw = extract(cfgname, opts)
        os.makedirs(d, exist_ok=True)
        tmp = p + '.%d.tmp' % os.getpid()
        with gzip.open(tmp, 'wb', compresslevel=1) as fh:
            pickle.dump(raw, fh, protocol=pickle.HIGHEST_PROTOCOL)
        os.replace(tmp, p)
        _prune_cache(key)
    fs = FactSet(raw)
    _LOADED[cfgname] = fs
    return fs


# ---------------------------------------------------------------------------
# tree helpers

def kids(n):
    """direct sub-nodes of a tree node, in source order."""
    if not isinstance(n, dict):
        return
    sl = n.get('slots')
    if sl:
        for key in ('init', 'var', 'range', 'condvar', 'cond', 'inc', 'then', 'else', 'body'):
            v = sl.get(key)
            if isinstance(v, dict):
                yield v
    if isinstance(n.get('init'), dict):
        yield n['init']
    for c in n.get('c') or ():
        if isinstance(c, dict):
            yield c


def walk(n):
    """pre-order over a node and all its descendants."""
    if isinstance(n, dict):
        stack = [n]
        while stack:
            x = stack.pop()
            yield x
            ks = list(kids(x))
            ks.reverse()
            stack.extend(ks)
    elif isinstance(n, list):
        for c in n:
            yield from walk(c)


def walk_nolambda(n):
    """pre-order like walk() but does not descend into lambda bodies (their returns / calls belong to the lambda)."""
    if isinstance(n, dict):
        stack = [n]
        while stack:
            x = stack.pop()
            yield x
            if x.get('k') == 'LambdaExpr' and x is not n:
                continue
            ks = list(kids(x))
            ks.reverse()
            stack.extend(ks)


_SRC = {}


def _lines(path):
    if path not in _SRC:
        try:
            with open(path, errors='replace') as fh:
                _SRC[path] = fh.read().split('\n')
        except OSError:
            _SRC[path] = []
    return _SRC[path]


def src(n, maxlen=240):
    """source text of a node (for reports only - never used to decide)."""
    if not isinstance(n, dict) or not n.get('loc'):
        return ''
    try:
        path, l, c = n['loc'].rsplit(':', 2)
        l, c = int(l), int(c)
        el, ec = (int(x) for x in n['end'].split(':')) if n.get('end') else (l, c + 40)
    except ValueError:
        return ''
    ls = _lines(path)
    if l - 1 >= len(ls):
        return ''
    if el == l:
        s = ls[l - 1][c - 1:ec - 1]
    else:
        parts = [ls[l - 1][c - 1:]] + ls[l:el - 1] + ([ls[el - 1][:ec - 1]] if el - 1 < len(ls) else [])
        s = ' '.join(x.strip() for x in parts)
    s = ' '.join(s.split())
    return s if len(s) <= maxlen else s[:maxlen] + ' ...'


def short(loc):
    return (loc or '').replace(REPO.rstrip('/') + '/', '')


class Fn:
    """One function with lazily built indexes."""

    def __init__(self, d):
        self.d = d
        self.id = d['id']
        self.name = d['name']
        self.body = d.get('body')
        self._parent = None
        self._byid = None

    def __getitem__(self, k):
        return self.d[k]

    def get(self, k, default=None):
        return self.d.get(k, default)

    @property
    def is_def(self):
        return bool(self.d.get('is_def'))

    def roots(self):
        for io in self.d.get('inits') or ():
            if isinstance(io.get('init'), dict):
                yield io['init']
        if self.body:
            yield self.body

    def nodes(self):
        for r in self.roots():
            yield from walk(r)

    def _index(self):
        if self._parent is None:
            self._parent = {}
            self._byid = {}
            alias = []
            for r in self.roots():
                for n in walk(r):
                    if 'id' in n:
                        self._byid[n['id']] = n
                    if n.get('alias_ids'):
                        alias.append(n)
                    for k in kids(n):
                        self._parent[id(k)] = n
            # a loop rewritten as a range-for stands for its original header: the CFG element of the header's initialisation is the loop being entered
            for n in alias:
                for i in n['alias_ids']:
                    if i is not None:
                        self._byid.setdefault(i, n)

    def parent(self, n):
        self._index()
        return self._parent.get(id(n))

    def ancestors(self, n):
        p = self.parent(n)
        while p is not None:
            yield p
            p = self.parent(p)

    def node(self, nid):
        self._index()
        return self._byid.get(nid)

    def decl(self, dloc):
        """the VarDecl node declared at dloc (locals only), or None."""
        d = getattr(self, '_decls', None)
        if d is None:
            d = {}
            for n in self.nodes():
                if n.get('k') == 'VarDecl' and n.get('loc'):
                    d[n['loc']] = n
            self._decls = d
        return d.get(dloc)

    def calls(self, callee_name=None, callee=None):
        for n in self.nodes():
            if 'callee' in n:
                if callee_name is not None and n.get('callee_name') != callee_name:
                    continue
                if callee is not None and n.get('callee') != callee:
                    continue
                yield n

    @property
    def loc(self):
        return short(self.d.get('loc'))


class FactSet:
    def __init__(self, raw):
        self.raw = raw
        self.config = raw['config']
        self.units = raw['units']
        self.failed_units = raw['failed_units']
        self.records = raw['records']
        self.enums = raw['enums']
        self.init_h = raw.get('init_h')
        if not raw.get('_normalised') and not os.environ.get('ORV_NO_NORMALISE'):
            from .normalize import normalise, inline_helpers
            root = REPO.rstrip('/') + '/'
            if not os.environ.get('ORV_NO_INLINE'):
                try:
                    with open(os.path.join(os.path.dirname(os.path.abspath(__file__)), 'inventory.json')) as fh:
                        inv = set(json.load(fh)['functions'])
                    self.inlined_calls = inline_helpers(raw['functions'], inv, root)
                except FileNotFoundError:
                    self.inlined_calls = 0
            self.desugared = 0
            if not os.environ.get('ORV_NO_INLINE'):
                from .normalize import desugar, opaque_tokens
                try:
                    with open(os.path.join(os.path.dirname(os.path.abspath(__file__)), 'inventory.json')) as fh:
                        opq0 = json.load(fh).get('opaque') or {}
                except FileNotFoundError:
                    opq0 = {}

                def candidate(k, v):
                    # effectful algorithms / local lambdas always; pure quantifiers (any_of ..) only where the reviewed tree had fewer of them
                    t = opaque_tokens(v['body'])
                    return any(x != 'quant' for x in t) or t.count('quant') > list(opq0.get(k, ())).count('quant')
                for k, v in raw['functions'].items():
                    if v.get('body') and (v.get('loc') or '').startswith(root) and candidate(k, v):
                        for _ in range(3):          # a lambda put in place of its name may complete an algorithm call that is then a loop
                            v['body'], n = desugar(v['body'])
                            self.desugared += n
                            if not n:
                                break
            for v in raw['functions'].values():
                if v.get('body') and (v.get('loc') or '').startswith(root):
                    v['body'] = normalise(v['body'])
                    for io in v.get('inits') or ():
                        if isinstance(io.get('init'), dict):
                            io['init'] = normalise(io['init'])
            if not os.environ.get('ORV_NO_INLINE'):
                from .normalize import fold_new_locals, set_context
                try:
                    with open(os.path.join(os.path.dirname(os.path.abspath(__file__)), 'inventory.json')) as fh:
                        known = json.load(fh).get('locals')
                except FileNotFoundError:
                    known = None
                self.folded_locals = []
                try:
                    with open(os.path.join(os.path.dirname(os.path.abspath(__file__)), 'inventory.json')) as fh:
                        opq = json.load(fh).get('opaque')
                except FileNotFoundError:
                    opq = None
                if opq is not None:
                    from .normalize import new_opaque
                    for k, v in raw['functions'].items():
                        if v.get('body') and (v.get('loc') or '').startswith(root):
                            n = new_opaque(v['body'], opq.get(k, ()))
                            if n:
                                v['_opaque_new'] = n
                if known is not None:
                    set_context(raw['functions'])
                    for k, v in raw['functions'].items():
                        if v.get('body') and (v.get('loc') or '').startswith(root):
                            fold_new_locals(v, known.get(k, ()), self.folded_locals)
                    set_context(None)
            raw['_normalised'] = True
        from .tables import register_enums
        register_enums(self.enums)
        self.fns = {k: Fn(v) for k, v in raw['functions'].items()}
        for f in self.fns.values():
            f.fs = self
        self.by_name = {}
        for f in self.fns.values():
            self.by_name.setdefault(f.name, []).append(f)
        self.overriders = {}
        for f in self.fns.values():
            for o in f.get('overrides') or ():
                self.overriders.setdefault(o, set()).add(f.id)

    def defined(self):
        return [f for f in self.fns.values() if f.is_def]

    def fn(self, name, params=None, const=None, optional=False):
        """the unique defined function with this qualified name (and, if given,
        whose parameter list contains the substrings in `params`)."""
        c = [f for f in self.by_name.get(name, []) if f.is_def]
        if params is not None:
            def ok(f):
                ps = [p['t'] for p in f['params']]
                if len(ps) != len(params):
                    return False
                return all(sub in p for sub, p in zip(params, ps))
            c = [f for f in c if ok(f)]
        if const is not None:
            c = [f for f in c if bool(f.get('const')) == const]
        if len(c) == 1:
            return c[0]
        if optional and not c:
            return None
        raise AnalysisBroken('anchor %s%s: expected exactly one definition, found %d [%s]' % (
            name, '' if params is None else '(%s)' % ','.join(params), len(c), self.config))

    def fns_named(self, name, defined=True):
        return [f for f in self.by_name.get(name, []) if (f.is_def or not defined)]

    def all_overriders(self, fid):
        seen = set()
        st = [fid]
        while st:
            k = st.pop()
            for o in self.overriders.get(k, ()):
                if o not in seen:
                    seen.add(o)
                    st.append(o)
        return seen

    def bases(self, rec):
        """transitive base classes of a record (repo classes only)."""
        out = []
        st = [rec]
        while st:
            r = st.pop()
            for b in (self.records.get(r) or {}).get('bases', []):
                if b not in out:
                    out.append(b)
                    st.append(b)
        return out

    def subclasses(self, rec):
        return [r for r in self.records if rec in self.bases(r)]

    def enum(self, name):
        e = self.enums.get(name)
        if e is None:
            raise AnalysisBroken('enum %s not found [%s]' % (name, self.config))
        return e


if __name__ == '__main__':
    t0 = time.time()
    fs = load(sys.argv[1] if len(sys.argv) > 1 else 'F')
    print('config', fs.config, 'units', len(fs.units), 'failed', len(fs.failed_units), 'functions', len(fs.fns),
          'defined', len(fs.defined()), 'records', len(fs.records), 'enums', len(fs.enums),
          '%.1fs' % (time.time() - t0))
    for s, e in fs.failed_units:
        print('FAILED', s, e[-600:])
