"""IDL <-> RDL sibling comparison under the type map I <-> inf_rational (DESIGN C10.R1, C12.R2)."""
import re

from . import dual

COMM = {'+', '*', '&&', '||', '==', '!=', '&', '|', '^'}
# functions whose integer '-1' / '+1' is the strictness unit (IDL) matching inf_rational(., -1/+1) (RDL)
DELTA_FNS = ('new_lt', 'new_leq', 'new_eq', 'new_geq', 'new_gt', 'propagate')


def strip_tmpl(s):
    prev = None
    while prev != s:
        prev = s
        s = re.sub(r'<[^<>]*>', '', s)
    return s


def has(t, pred):
    if pred(t):
        return True
    return isinstance(t, tuple) and any(has(x, pred) for x in t)


def num(t):
    if isinstance(t, tuple) and t and t[0] == 'num':
        return t[1]
    return None


def make_rw(side, delta):
    def rw(t):
        if isinstance(t, str):
            t2 = strip_tmpl(t.replace('idl_', 'Xdl_').replace('rdl_', 'Xdl_'))
            if t2 == 'smt::rational::ZERO':
                return ('num', 0)
            if t2 == 'smt::rational::ONE':
                return ('num', 1)
            return t2
        if not isinstance(t, tuple) or not t:
            return t
        h = t[0]
        if h == 'mcall' and t[1] == 'smt::rational::numerator':
            return t[2]
        if h == 'new' and t[1] in ('smt::inf_rational', 'smt::rational'):
            if len(t) == 2:
                return ('num', 0)
            if len(t) == 3:
                if t[2] == 'smt::rational::POSITIVE_INFINITY':
                    return 'INF'
                return t[2]
            if len(t) == 4 and num(t[3]) is not None:
                return ('+d', t[2], num(t[3])) if num(t[3]) != 0 else t[2]
        if h == 'call' and t[1] in ('smt::inf', 'smt::Xdl_theory::inf'):
            return 'INF'
        if h == 'call' and t[1] == 'smt::abs':
            return t[2]
        if h == 'neg' and num(t[1]) is not None:
            return ('num', -num(t[1]))
        if delta and side == 'idl' and h in ('-', '+') and len(t) == 3 and num(t[2]) not in (None, 0) and num(t[1]) is None:
            n = num(t[2])
            return ('+d', t[1], -n if h == '-' else n)
        if h == '-' and len(t) == 3 and isinstance(t[2], tuple) and t[2][0] == '+d' and t[2][1] == ('num', 0):
            return ('+d', t[1], -t[2][2])
        if h == 'neg' and isinstance(t[1], tuple) and t[1][0] == '+d':
            return ('+d', ('neg', t[1][1]), -t[1][2])
        if h == 'cast':
            return t[2]
        if h in COMM and len(t) == 3:
            a, b = sorted(t[1:], key=repr)
            return (h, a, b)
        if h == 'new' and isinstance(t[1], str) and t[1].startswith('std::'):
            return (h, t[1]) + tuple(x for x in t[2:] if not (isinstance(x, tuple) and x[:2] == ('new', 'std::allocator')))
        return t
    return rw


def _is_int_test(x):
    return isinstance(x, tuple) and len(x) > 1 and x[0] == 'call' and x[1] == 'smt::is_integer'


def drop_cond(t):
    """accepted, reasoned differences between the siblings:
       * integrality tests (IDL only: `if (!is_integer(k)) throw`): erased, the throwing branch is dropped;
       * `!= inf()` guards of IDL (finite sentinel instead of infinity arithmetic): treated as true."""
    def isint(x):
        return has(x, _is_int_test)

    def isinf(x):
        return isinstance(x, tuple) and x[0] == '!=' and 'INF' in x

    def simp(x):
        if isinf(x):
            return 'E'
        if isinstance(x, tuple) and x[0] in ('||', '|', '&&'):
            parts = [simp(y) for y in x[1:]]
            keep = [p for p in parts if p != 'E']
            if not keep:
                return 'E'
            if len(keep) == 1:
                return keep[0]
            return (x[0],) + tuple(sorted(keep, key=repr))
        if isint(x):
            return 'E'
        return x
    # atomic decisions (tables.decisions): an integrality test is simply true on the real-valued side, its negation false
    if _is_int_test(t):
        return 'TRUE'
    if isinstance(t, tuple) and len(t) == 2 and t[0] == '!' and _is_int_test(t[1]):
        return 'FALSE'
    r = simp(t)
    if r == 'E':
        return 'TRUE' if isinf(t) or has(t, isinf) and not isint(t) else 'FALSE'
    return r


def sig_key(fid, side):
    return (fid.replace(side + '_', 'X_').replace('const long &', 'T').replace('const smt::inf_rational &', 'T')
            .replace('smt::%s_value_listener' % side, 'L'))


def pairs(fs):
    """[(name, idl Fn, rdl Fn)] for every method defined in both theories; plus the methods defined in only one."""
    A = {sig_key(f.id, 'idl').replace('smt::idl_theory', 'T'): f for f in fs.defined() if f.get('class') == 'smt::idl_theory'}
    B = {sig_key(f.id, 'rdl').replace('smt::rdl_theory', 'T'): f for f in fs.defined() if f.get('class') == 'smt::rdl_theory'}
    both = [(k, A[k], B[k]) for k in sorted(A) if k in B]
    only = [A[k] for k in sorted(A) if k not in B] + [B[k] for k in sorted(B) if k not in A]
    return both, only


def compare(fs, fa, fb):
    delta = any(fa.name.endswith('::' + n) for n in DELTA_FNS)
    sa = dual.Summ(fs, fa, make_rw('idl', delta), drop_cond).summary()
    sb = dual.Summ(fs, fb, make_rw('rdl', delta), drop_cond).summary()
    oa, ob = dual.diff_summaries(sa, sb)
    return sa, sb, oa, ob
