"""Seeded-variant self-test of the rule packs (DESIGN 5).

Each variant is a one-site edit of a source file.  It is applied to a scratch git worktree of /repo (outside /repo and
/verif, removed afterwards), the property's check is run against that worktree (ORV_REPO) - the variant is only parsed,
never built or executed - and the check must exit 1 naming the expected rule.  Used by the thorough tier and by hand:

    python3 -m orv.selftest C13            # all variants of C13
    python3 -m orv.selftest all -j 8
"""
import json
import os
import shutil
import subprocess
import sys
import tempfile
from concurrent.futures import ThreadPoolExecutor

from .facts import REPO, VERIF
from .variants import VARIANTS


def _run_patch(prop, v, wt):
    """an independently seeded change (seeded/<id>/patch.diff): applied with git, the property's own check must report it."""
    r = subprocess.run(['git', '-C', wt, 'apply', v['patch']], stdout=subprocess.PIPE, stderr=subprocess.STDOUT, text=True)
    if r.returncode != 0:
        return {'variant': v['name'], 'status': 'stale', 'detail': 'patch does not apply: ' + r.stdout[-200:]}
    try:
        env = dict(os.environ, ORV_REPO=wt, ORV_NO_EVIDENCE='1', ORV_REPORTS=os.path.join(wt, '.orv-reports'))
        r = subprocess.run([os.path.join(VERIF, 'orcheck'), prop, '--tier', 'quick'], stdout=subprocess.PIPE, stderr=subprocess.STDOUT, text=True, env=env)
        import re
        fired = [l for l in r.stdout.split('\n') if re.search(r': C\d\d\.R\w+: ', l)]       # the property's own check may report through an included rule pack
        status = 'caught' if r.returncode == 1 and fired else ('broken' if r.returncode == 2 else 'missed')
        return {'variant': v['name'], 'rule': prop, 'status': status, 'exit': r.returncode, 'report': (fired[0][:300] if fired else r.stdout[-400:])}
    finally:
        subprocess.run(['git', '-C', wt, 'apply', '-R', v['patch']], stdout=subprocess.DEVNULL, stderr=subprocess.DEVNULL)


def _run_variant(prop, v, wt):
    if v.get('patch'):
        return _run_patch(prop, v, wt)
    path = os.path.join(wt, v['file'])
    with open(path) as fh:
        s = fh.read()
    n = s.count(v['old'])
    if n < 1 or (n != 1 and not v.get('nth')):
        return {'variant': v['name'], 'status': 'stale', 'detail': 'pattern occurs %d times in %s' % (n, v['file'])}
    if v.get('nth'):
        idx = -1
        for _ in range(v['nth']):
            idx = s.index(v['old'], idx + 1)
        s2 = s[:idx] + v['new'] + s[idx + len(v['old']):]
    else:
        s2 = s.replace(v['old'], v['new'])
    with open(path, 'w') as fh:
        fh.write(s2)
    try:
        env = dict(os.environ, ORV_REPO=wt, ORV_NO_EVIDENCE='1', ORV_REPORTS=os.path.join(wt, '.orv-reports'))
        r = subprocess.run([os.path.join(VERIF, 'orcheck'), prop, '--tier', 'quick'], stdout=subprocess.PIPE, stderr=subprocess.STDOUT, text=True, env=env)
        out = r.stdout
        fired = [l for l in out.split('\n') if (': ' + v['rule'] + ':') in l]
        status = 'caught' if r.returncode == 1 and fired else ('broken' if r.returncode == 2 else 'missed')
        return {'variant': v['name'], 'rule': v['rule'], 'status': status, 'exit': r.returncode, 'report': (fired[0][:300] if fired else out[-400:])}
    finally:
        with open(path, 'w') as fh:
            fh.write(s)


def run(props, jobs=4):
    work = []
    for p in props:
        for v in VARIANTS.get(p, []):
            work.append((p, v))
        sd = os.path.join(VERIF, 'seeded')
        for d in sorted(os.listdir(sd)) if os.path.isdir(sd) else ():
            pf = os.path.join(sd, d, 'patch.diff')
            if d.split('-')[0] == p and os.path.exists(pf):
                work.append((p, {'name': 'seeded/%s: independent change by a sub-agent' % d, 'patch': pf}))
    if not work:
        return []
    jobs = max(1, min(jobs, len(work)))
    base = tempfile.mkdtemp(prefix='orv-selftest-')
    wts = []
    results = []
    try:
        for i in range(jobs):
            wt = os.path.join(base, 'wt%d' % i)
            subprocess.run(['git', '-C', REPO, 'worktree', 'add', '-q', '--detach', wt, 'HEAD'], check=True, stdout=subprocess.DEVNULL, stderr=subprocess.DEVNULL)
            # the working tree of /repo may carry uncommitted edits (the check must look at the current tree): mirror tracked sources
            subprocess.run('cd %s && git ls-files -m | while read f; do cp "$f" "%s/$f"; done' % (REPO, wt), shell=True)
            wts.append(wt)
        chunks = [[] for _ in wts]
        for i, w in enumerate(work):
            chunks[i % len(wts)].append(w)

        def do(i):
            out = []
            for p, v in chunks[i]:
                try:
                    r = _run_variant(p, v, wts[i])
                except Exception as e:      # noqa
                    r = {'variant': v['name'], 'status': 'error', 'detail': repr(e)}
                r['property'] = p
                out.append(r)
            return out
        with ThreadPoolExecutor(max_workers=len(wts)) as ex:
            for part in ex.map(do, range(len(wts))):
                results.extend(part)
    finally:
        for wt in wts:
            subprocess.run(['git', '-C', REPO, 'worktree', 'remove', '--force', wt], stdout=subprocess.DEVNULL, stderr=subprocess.DEVNULL)
        shutil.rmtree(base, ignore_errors=True)
        subprocess.run(['git', '-C', REPO, 'worktree', 'prune'], stdout=subprocess.DEVNULL, stderr=subprocess.DEVNULL)
    return results


if __name__ == '__main__':
    args = sys.argv[1:]
    jobs = 8
    if '-j' in args:
        i = args.index('-j')
        jobs = int(args[i + 1])
        del args[i:i + 2]
    props = sorted(VARIANTS) if not args or args[0] == 'all' else args
    res = run(props, jobs)
    bad = 0
    for r in sorted(res, key=lambda r: (r['property'], r['variant'])):
        print('%-4s %-8s %-55s %s' % (r['property'], r['status'], r['variant'], (r.get('report') or r.get('detail') or '')[:150].replace('\n', ' ')))
        if r['status'] != 'caught':
            bad += 1
    print('%d variants, %d not caught' % (len(res), bad))
    sys.exit(1 if bad else 0)
