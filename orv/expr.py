"""Canonical s-expressions over resolved names (DESIGN 3.C).

canon(node, env) -> nested tuples / strings.  Two expressions are "the same"
iff their canonical forms are equal.  Locals are replaced by their single pure
initialiser when `env` (a LocalEnv) knows it; commutative operators have their
operands sorted; !(!x) is folded; elidable copy/move constructions are looked
through.
"""
from .facts import kids, walk

from .facts import AnalysisBroken as _Broken

# member functions of the standard containers that have a non-const overload but change nothing (the non-const overload only hands out a non-const
# iterator / reference); map::operator[] is NOT one of them (it inserts)
STD_READERS = {'find', 'begin', 'end', 'rbegin', 'rend', 'at', 'front', 'back', 'lower_bound', 'upper_bound', 'equal_range', 'data', 'top', 'get'}

COMMUT = {'+', '*', '&&', '||', '==', '!=', '&', '|', '^'}


def _short(name):
    return name


def _walk(n):
    st = [n]
    while st:
        x = st.pop()
        if isinstance(x, dict):
            yield x
            sl = x.get('slots')
            if sl:
                st.extend(v for v in sl.values() if isinstance(v, dict))
            if isinstance(x.get('init'), dict):
                st.append(x['init'])
            st.extend(x.get('c') or ())


class LocalEnv:
    """single reaching pure definitions of locals of one function.

    A local is substitutable when it is declared with an initialiser and never
    assigned / modified afterwards (checked on the whole function body: no
    assignment operator, ++/--, compound assignment, non-const method call whose
    object is that local is *not* checked - callers that need that use
    `mutated`)."""

    def __init__(self, fn, fs=None):
        self.fn = fn
        self.fs = fs        # when given, trivial accessors `T f(..) const { return E; }` called on *this are inlined
        self.defs = {}      # dloc -> init node
        self.names = {}     # dloc -> name
        self.types = {}
        self.assigned = set()
        self.bind = {}      # (name) for structured bindings -> (decomp dloc, index)
        self.rename = {}    # dloc -> role name: rules name locals / parameters by *role*, found structurally, never by spelling
        self.decls = {}     # dloc -> VarDecl node
        # alias mode (default): with subst=False a local WITHOUT a role that is a pure, never modified definition is only a name for its initialiser
        # (hoisting a sub-expression into a const local, or inlining one, does not change any canonical form)
        self.alias = True
        self._ti = {}
        self._use_count = None
        self.no_alias = self._mutated_locals(fn)
        for n in fn.nodes():
            k = n.get('k')
            if k == 'VarDecl':
                self.decls[n['loc']] = n
                self.names[n['loc']] = n['name']
                self.types[n['loc']] = n.get('t')
                if isinstance(n.get('init'), dict):
                    self.defs[n['loc']] = n['init']
            elif k in ('BinaryOperator', 'CompoundAssignOperator') and n.get('op', '').endswith('=') and n.get('op') not in ('==', '!=', '<=', '>='):
                c = n.get('c') or []
                if c and c[0].get('k') == 'DeclRefExpr':
                    self.assigned.add(c[0].get('dloc'))
            elif k == 'UnaryOperator' and n.get('op') in ('++', '--'):
                c = n.get('c') or []
                if c and c[0].get('k') == 'DeclRefExpr':
                    self.assigned.add(c[0].get('dloc'))
            elif k == 'CXXOperatorCallExpr' and n.get('op', '').endswith('=') and n.get('op') not in ('==', '!=', '<=', '>='):
                c = n.get('c') or []
                if len(c) > 1 and c[1].get('k') == 'DeclRefExpr':
                    self.assigned.add(c[1].get('dloc'))
            elif k == 'CXXOperatorCallExpr' and n.get('op') in ('++', '--'):
                c = n.get('c') or []
                if len(c) > 1 and c[1].get('k') == 'DeclRefExpr':
                    self.assigned.add(c[1].get('dloc'))

    @staticmethod
    def _mutated_locals(fn):
        """locals on which a non-const member function / mutating operator is applied, or whose address is taken: never aliases."""
        m = set()

        def root(x):
            g = 0
            while x is not None and g < 32:
                g += 1
                k = x.get('k')
                if k == 'DeclRefExpr':
                    return x if x.get('local') else None
                if k == 'MemberExpr':
                    x = (x.get('c') or [None])[0]
                elif k == 'ArraySubscriptExpr' or (k == 'UnaryOperator' and x.get('op') == '*'):
                    x = (x.get('c') or [None])[0]
                elif k == 'CXXOperatorCallExpr' and x.get('op') in ('[]', '*', '->'):
                    x = x['c'][1] if len(x.get('c') or ()) > 1 else None
                elif k == 'CXXMemberCallExpr' and (x.get('callee_name') or '').rsplit('::', 1)[-1] in ('at', 'front', 'back', 'operator[]'):
                    me = x['c'][0]
                    x = (me.get('c') or [None])[0] if me.get('k') == 'MemberExpr' else None
                else:
                    return None
            return None
        ASSIGN = ('=', '+=', '-=', '*=', '/=', '%=', '|=', '&=', '^=', '<<=', '>>=')
        members = set()

        def path_members(x):
            g = 0
            while x is not None and g < 32:
                g += 1
                k = x.get('k')
                if k == 'MemberExpr':
                    if x.get('member'):
                        members.add(x['member'])
                    x = (x.get('c') or [None])[0]
                elif k in ('ArraySubscriptExpr',) or (k == 'UnaryOperator' and x.get('op') == '*'):
                    x = (x.get('c') or [None])[0]
                elif k == 'CXXOperatorCallExpr' and x.get('op') in ('[]', '*', '->'):
                    x = x['c'][1] if len(x.get('c') or ()) > 1 else None
                elif k == 'CXXMemberCallExpr':
                    me = x['c'][0]
                    x = (me.get('c') or [None])[0] if me.get('k') == 'MemberExpr' else None
                else:
                    return
        self_members = members
        for n in fn.nodes():
            k = n.get('k')
            r = None
            if k == 'CXXMemberCallExpr':
                me = n['c'][0]
                if me.get('k') == 'MemberExpr' and not (n.get('callee') or '').endswith(' const') and (n.get('callee_name') or '').startswith('std::') and \
                        (n.get('callee_name') or '').rsplit('::', 1)[-1] not in STD_READERS:
                    path_members((me.get('c') or [None])[0])
            elif k == 'CXXOperatorCallExpr' and n.get('op') in ASSIGN + ('++', '--'):
                if len(n.get('c') or ()) > 1 and not (n.get('callee') or '').endswith(' const'):
                    path_members(n['c'][1])
            elif k in ('BinaryOperator', 'CompoundAssignOperator') and n.get('op') in ASSIGN:
                path_members(n['c'][0])
            elif k == 'UnaryOperator' and n.get('op') in ('++', '--'):
                path_members((n.get('c') or [None])[0])
            if k == 'CXXMemberCallExpr':
                me = n['c'][0]
                base = (me.get('c') or [None])[0] if me.get('k') == 'MemberExpr' else None
                if base is not None and not (n.get('callee') or '').endswith(' const') and \
                        not ((n.get('callee_name') or '').startswith('std::') and (n.get('callee_name') or '').rsplit('::', 1)[-1] in STD_READERS):
                    r = root(base)
            elif k == 'CXXOperatorCallExpr' and n.get('op') in ASSIGN + ('++', '--', '[]', '<<', '>>'):
                c = n['c']
                if len(c) > 1 and not (n.get('callee') or '').endswith(' const'):
                    r = root(c[1])
            elif k in ('BinaryOperator', 'CompoundAssignOperator') and n.get('op') in ASSIGN:
                r = root(n['c'][0])
            elif k == 'UnaryOperator' and n.get('op') in ('&', '++', '--'):
                r = root((n.get('c') or [None])[0])
            if r is not None:
                m.add(r.get('dloc'))
        self_members = frozenset(members)
        fn.d['_mut_members'] = self_members
        return m

    # ---- roles ---------------------------------------------------------------
    def param_roles(self, roles):
        """name the parameters positionally (None = keep)."""
        ps = self.fn.get('params') or []
        if len(ps) < len([r for r in roles if r]):
            raise _Broken('%s: expected at least %d parameters' % (self.fn.id, len(roles)))
        for p, r in zip(ps, roles):
            if r:
                self.rename[p['loc']] = r

    def local_role(self, role, pred, optional=False, many=False):
        """give `role` to the unique local whose (VarDecl node, unsubstituted canonical initialiser) satisfies pred."""
        hits = []
        for d, n in self.decls.items():
            init = canon(n['init'], self, subst=False) if isinstance(n.get('init'), dict) else None
            try:
                ok = pred(n, init)
            except (IndexError, TypeError, KeyError):
                ok = False
            if ok:
                hits.append(d)
        if many:
            for d in hits:
                self.rename[d] = role
            return hits
        if len(hits) != 1:
            if optional and not hits:
                return None
            raise _Broken('%s: expected exactly one local in the role "%s", found %d' % (self.fn.id, role, len(hits)))
        self.rename[hits[0]] = role
        return hits[0]

    def decl_of(self, role):
        for d, r in self.rename.items():
            if r == role and d in self.decls:
                return self.decls[d]
        return None

    def init_of(self, role, subst=False):
        n = self.decl_of(role)
        if n is None or not isinstance(n.get('init'), dict):
            return None
        return canon(n['init'], self, subst=subst)

    _CONTAINERS = ('std::map<', 'std::set<', 'std::vector<', 'std::unordered_', 'std::list<', 'std::queue<', 'std::deque<', 'std::multimap<', 'std::multiset<')

    def _changed_after(self, dloc, xdloc):
        """is local xdloc assigned / modified in the statements that follow the declaration dloc inside the block that declares it?"""
        decl = self.decls.get(dloc)
        fn = self.fn
        if decl is None or not hasattr(fn, 'parent'):
            return True
        st = fn.parent(decl)
        blk = fn.parent(st) if st is not None else None
        if st is None or blk is None or blk.get('k') != 'CompoundStmt':
            return True
        sibs = list(blk.get('c') or ())
        try:
            i = [k for k, y in enumerate(sibs) if y is st][0]
        except IndexError:
            return True
        ASSIGN = ('=', '+=', '-=', '*=', '/=', '%=', '|=', '&=', '^=', '<<=', '>>=', '++', '--')
        for y in sibs[i + 1:]:
            for n in _walk(y):
                k = n.get('k')
                tgt = None
                if k in ('BinaryOperator', 'CompoundAssignOperator') and n.get('op') in ASSIGN:
                    tgt = n['c'][0]
                elif k == 'UnaryOperator' and n.get('op') in ('++', '--', '&'):
                    tgt = (n.get('c') or [None])[0]
                elif k == 'CXXOperatorCallExpr' and n.get('op') in ASSIGN and len(n.get('c') or ()) > 1:
                    tgt = n['c'][1]
                elif k == 'CXXMemberCallExpr' and not (n.get('callee') or '').endswith(' const'):
                    me = n['c'][0]
                    tgt = (me.get('c') or [None])[0] if me.get('k') == 'MemberExpr' else None
                g = 0
                while isinstance(tgt, dict) and g < 16:
                    g += 1
                    if tgt.get('k') == 'DeclRefExpr':
                        if tgt.get('dloc') == xdloc:
                            return True
                        break
                    if tgt.get('k') in ('MemberExpr', 'ArraySubscriptExpr') or (tgt.get('k') == 'UnaryOperator' and tgt.get('op') == '*'):
                        tgt = (tgt.get('c') or [None])[0]
                    elif tgt.get('k') == 'CXXOperatorCallExpr' and tgt.get('op') in ('[]', '*', '->'):
                        tgt = tgt['c'][1] if len(tgt.get('c') or ()) > 1 else None
                    else:
                        break
        return False

    def pure_init(self, decl):
        """does evaluating the initialiser do nothing but compute a value (no call that may create or change something)?"""
        init = decl.get('init')
        if not isinstance(init, dict):
            return True
        for x in _walk(init):
            if x.get('k') == 'CXXNewExpr':
                return False
            if x.get('k') in ('CXXMemberCallExpr', 'CallExpr') and not (x.get('callee') or '').endswith(' const') and not (x.get('callee_name') or '').startswith('std::') and \
                    not (x.get('callee_name') or '').rsplit('::', 1)[-1].startswith(('get_', 'is_')) and x.get('k') == 'CXXMemberCallExpr':
                return False
        return True

    def _uses(self):
        if self._use_count is None:
            u = {}
            seen = set()
            for n in self.fn.nodes():
                if n.get('k') == 'DeclRefExpr' and n.get('dloc'):
                    key = (n['dloc'], n.get('loc'))          # one source occurrence may be dumped more than once (syntactic / semantic initialiser lists)
                    if key in seen:
                        continue
                    seen.add(key)
                    u[n['dloc']] = u.get(n['dloc'], 0) + 1
            self._use_count = u
        return self._use_count

    def is_alias(self, decl):
        """is this declared local replaced by its initialiser wherever it is used (role-less, pure, never modified, time-invariant)?"""
        d = decl.get('loc')
        isref = (decl.get('t') or '').rstrip().endswith('&')
        if not self.alias or d in self.rename or (d in self.no_alias and not isref) or decl.get('bindings') or not isinstance(decl.get('init'), dict):
            return False
        if self.definition({'dloc': d}) is None:
            return False
        return self.time_invariant(d, decl['init'])

    def time_invariant(self, dloc, init):
        """may the local be replaced by its initialiser at every use?  Not when the initialiser reads state that this function modifies
        (`cc = row[x]; row.erase(x); ... cc ...` is a snapshot, not a name)."""
        c = self._ti.get(dloc)
        if c is None:
            mm = self.fn.d.get('_mut_members') or frozenset()
            c = True
            for x in _walk(init):
                if x.get('k') == 'MemberExpr' and x.get('member') in mm:
                    c = False
                    break
                if x.get('k') == 'DeclRefExpr' and x.get('local') and (x.get('dloc') in self.assigned or (x.get('dloc') in self.no_alias and x.get('dloc') in self.decls
                                                                                                         and not (self.types.get(x.get('dloc')) or '').rstrip().endswith(('&', '*')))):
                    # reads a local that is itself re-assigned / modified in place (objects reached through references are covered by the member test):
                    # still only a name when nothing changes that local during the lifetime of this one (the rest of its own block)
                    if self._changed_after(dloc, x.get('dloc')):
                        c = False
                        break
                if x.get('k') == 'CXXMemberCallExpr' and not (x.get('callee') or '').endswith(' const') and not (x.get('callee_name') or '').startswith('std::') and \
                        not (x.get('callee_name') or '').rsplit('::', 1)[-1].startswith(('get_', 'is_')):      # get_x() / is_x() are the repository's accessors
                    # a call that may create or change something (sat->new_var(), new_distance(..)): the local holds its RESULT;
                    # naming a result that is used exactly once is still only a name
                    if self._uses().get(dloc, 0) != 1:
                        c = False
                        break
                if x.get('k') == 'CXXNewExpr':
                    c = False
                    break
            self._ti[dloc] = c
        return c

    def definition(self, ref):
        """the pure initialiser a local may be replaced by, or None: never for assigned locals, range-for loop variables
        (their initialiser is the hidden iterator) and containers (they are accumulators, not values)."""
        d = ref.get('dloc')
        if d in self.assigned:
            return None
        init = self.defs.get(d)
        if init is None:
            return None
        t0 = self.types.get(d) or ''
        t = t0.replace('const ', '')
        if t.startswith(self._CONTAINERS) and not t0.startswith('const ') and not t0.rstrip().endswith('&'):
            return None         # a container being filled; a const (reference to a) container is only a name for the expression it was initialised with
        x = init
        while isinstance(x, dict) and x.get('k') in ('UnaryOperator', 'CXXOperatorCallExpr') and x.get('op') == '*':
            x = (x.get('c') or [None])[-1]
        if isinstance(x, dict) and x.get('k') == 'DeclRefExpr' and str(x.get('ref', '')).startswith(('__begin', '__range', '__end')):
            return None
        return init


def is_copy_ctor(n):
    """CXXConstructExpr that merely copies / moves its single argument."""
    if n.get('k') != 'CXXConstructExpr':
        return False
    c = n.get('c') or []
    if len(c) != 1:
        return False
    cal = n.get('callee', '')
    nm = n.get('callee_name', '')
    cls = nm.rsplit('::', 1)[0]
    args = cal[cal.find('(') + 1:cal.rfind(')')]
    return args in ('const %s &' % cls, '%s &&' % cls) or (
        args.replace('const ', '').replace(' &&', '').replace(' &', '').strip() == (n.get('t') or '').replace('const ', '').strip())


def canon(n, env=None, depth=0, subst=True):
    if n is None:
        return 'null'
    if not isinstance(n, dict):
        return str(n)
    k = n.get('k')
    c = list(n.get('c') or [])

    def rec(x):
        return canon(x, env, depth, subst)

    if k == 'DeclRefExpr':
        if n.get('refk') in ('Var', 'Binding', 'Decomposition') and n.get('local') is not False and env is not None and subst and depth < 8:
            d = env.definition(n)
            if d is not None and n.get('refk') == 'Var':
                t = env.types.get(n.get('dloc'), '')
                # only substitute value-like pure initialisers (no loop variables, no containers being built)
                if _pure(d):
                    return canon(d, env, depth + 1, subst)
        elif n.get('refk') == 'Var' and n.get('local') is not False and env is not None and not subst and getattr(env, 'alias', False) and depth < 8 \
                and n.get('dloc') not in env.rename:
            # alias mode (clause schemas): a local WITHOUT a role that is a pure, never re-assigned definition is just a name for its initialiser
            d = env.definition(n)
            isref = (env.types.get(n.get('dloc')) or '').rstrip().endswith('&')        # a reference names an object: what is done through it is done to that object
            if d is not None and (isref or n.get('dloc') not in getattr(env, 'no_alias', ())) and env.time_invariant(n.get('dloc'), d):
                return canon(d, env, depth + 1, subst)
        if n.get('refk') == 'EnumConstant':
            return n['ref'].rsplit('::', 1)[-1]
        if n.get('refk') in ('Function', 'CXXMethod'):
            return ('fn', n.get('ref'))
        if env is not None and env.rename:
            return env.rename.get(n.get('dloc'), n.get('ref'))
        return n.get('ref')
    if k == 'MemberExpr':
        base = c[0] if c else None
        if base is None or base.get('k') == 'CXXThisExpr':
            return n['member']
        return ('.', rec(base), n['member'].rsplit('::', 1)[-1])
    if k == 'CXXThisExpr':
        return 'this'
    if k in ('IntegerLiteral', 'CharacterLiteral', 'FloatingLiteral'):
        return ('num', n.get('val'))
    if k == 'CXXBoolLiteralExpr':
        return 'true' if n.get('val') else 'false'
    if k == 'StringLiteral':
        return ('str', n.get('val'))
    if k == 'CXXNullPtrLiteralExpr':
        return 'nullptr'
    if k == 'CXXDefaultArgExpr':
        return rec(c[0]) if c else 'default'
    if k in ('CXXFunctionalCastExpr', 'CXXStaticCastExpr', 'CStyleCastExpr', 'CXXConstCastExpr', 'CXXReinterpretCastExpr'):
        inner = rec(c[0]) if c else 'null'
        if k == 'CXXFunctionalCastExpr' and c and c[0].get('k') in ('CXXConstructExpr', 'CXXTemporaryObjectExpr'):
            return inner
        return ('cast', n.get('t'), inner)
    if k == 'CXXDynamicCastExpr':
        return ('dyncast', n.get('t'), rec(c[0]) if c else 'null')
    if k in ('CXXConstructExpr', 'CXXTemporaryObjectExpr'):
        if is_copy_ctor(n):
            return rec(c[0])
        name = n.get('callee_name', '').rsplit('::', 1)[0]
        args = [rec(x) for x in c]
        if name == 'smt::lit':
            return _lit(args)
        return ('new', name) + tuple(args)
    if k == 'UnaryOperator':
        a = rec(c[0])
        op = n.get('op')
        if op == '!':
            return _not(a)
        if op == '-' and isinstance(a, tuple) and a[0] == 'num':
            return ('num', -a[1])
        if op == '-':
            return ('neg', a)
        if op == '+':
            return a
        if op in ('*', '&'):
            # address-of / deref are representation detail for our comparisons
            return a
        return (('post' if n.get('postfix') else '') + op, a)
    if k in ('BinaryOperator', 'CompoundAssignOperator'):
        a, b = rec(c[0]), rec(c[1])
        op = n.get('op')
        if op in COMMUT:
            a, b = sorted((a, b), key=repr)
        if op == '>':
            return _membership(('<', b, a))
        if op == '>=':
            return _membership(('<=', b, a))
        return _membership((op, a, b))
    if k == 'CXXOperatorCallExpr':
        args = [rec(x) for x in c[1:]]
        op = n.get('op')
        cal = n.get('callee_name', '')
        if op == '!' and len(args) == 1:
            return _not(args[0])
        if op == '*' and len(args) == 1:
            return args[0]
        if op == '->' and len(args) == 1:
            return args[0]
        if op in ('++', '--'):
            return (('post' + op) if len(args) == 2 else op, args[0])
        if op == '[]':
            return ('[]',) + tuple(args)
        if op == '()':
            return ('call',) + tuple(args)
        if op in COMMUT and len(args) == 2:
            args = sorted(args, key=repr)
        if op == '>' and len(args) == 2:
            return ('<', args[1], args[0])
        if op == '>=' and len(args) == 2:
            return ('<=', args[1], args[0])
        if op == '-' and len(args) == 1:
            return ('neg', args[0])
        return _membership((op,) + tuple(args))
    if k == 'CXXMemberCallExpr':
        me = c[0] if c else {}
        args = [rec(x) for x in c[1:]]
        name = n.get('callee_name') or me.get('member', '?')
        base = (me.get('c') or [None])[0]
        if env is not None and getattr(env, 'fs', None) is not None and me.get('k') == 'MemberExpr' and depth < 8:
            if base is None or base.get('k') == 'CXXThisExpr':
                e = _inline_accessor(env.fs, n.get('callee'), args)
                if e is not None:
                    return e
            elif not args:
                fld = _getter_field(env.fs, n.get('callee'))
                if fld is not None:
                    return ('.', rec(base), fld)
        if name.startswith('std::') and name.endswith('::emplace_back') and len(args) == 1:
            name = name[:-len('emplace_back')] + 'push_back'        # appending one existing element: one spelling
        if name.startswith('std::') and name.endswith('::push_back') and len(args) == 1 and isinstance(args[0], tuple) and len(args[0]) == 2 and args[0][0] == 'new':
            name, args = name[:-len('push_back')] + 'emplace_back', []     # appending a default-constructed element: `push_back(T())` is `emplace_back()`
        if me.get('k') != 'MemberExpr':
            return ('mcall', name, rec(me)) + tuple(args)
        if base is None or base.get('k') == 'CXXThisExpr':
            return ('mcall', name, 'this') + tuple(args)
        return ('mcall', name, rec(base)) + tuple(args)
    if k == 'CallExpr':
        args = [rec(x) for x in c[1:]]
        name = n.get('callee_name')
        if name is None:
            return ('icall', rec(c[0])) + tuple(args)
        if name in ('std::move', 'std::forward', 'std::as_const') and len(args) == 1:
            return args[0]
        return ('call', name) + tuple(args)
    if k == 'ConditionalOperator':
        return ('?:',) + tuple(rec(x) for x in c)
    if k == 'InitListExpr':
        return ('list',) + tuple(rec(x) for x in c)
    if k == 'CXXNewExpr':
        return ('new*', n.get('alloc_t')) + tuple(rec(x) for x in c)
    if k == 'ArraySubscriptExpr':
        return ('[]',) + tuple(rec(x) for x in c)
    if k in ('CXXDependentScopeMemberExpr', 'UnresolvedMemberExpr'):
        # member of a value of dependent type (generic lambda parameter): name only, unresolved
        return ('.', rec(c[0]) if c else 'this', n.get('dep_member'))
    if k == 'UnresolvedLookupExpr':
        return ('fn?', n.get('dep_name'))
    if k == 'LambdaExpr':
        return ('lambda',) + tuple(rec(x) for x in c)
    if k == 'DeclStmt':
        return ('DeclStmt',) + tuple(('var', x.get('name'), rec(x.get('init')) if isinstance(x.get('init'), dict) else None) for x in c if x.get('k') == 'VarDecl')
    if n.get('slots'):
        return (k,) + tuple(rec(x) for x in kids(n))
    return (k,) + tuple(rec(x) for x in c)


def _inline_accessor(fs, callee, args):
    f = fs.fns.get(callee or '')
    if f is None or not f.is_def or not f.get('const') or len(f['params']) != len(args):
        return None
    c = (f.body or {}).get('c') or []
    if len(c) != 1 or c[0].get('k') != 'ReturnStmt' or not c[0].get('c'):
        return None
    e = canon(c[0]['c'][0], None)
    sub = {p['name']: a for p, a in zip(f['params'], args)}
    return _subst_names(e, sub)


def _getter_field(fs, callee):
    """name of the field a trivial getter `T get() const { return field; }` returns, else None."""
    f = fs.fns.get(callee or '')
    if f is None or not f.is_def or f['params']:
        return None
    c = (f.body or {}).get('c') or []
    if len(c) != 1 or c[0].get('k') != 'ReturnStmt' or not c[0].get('c'):
        return None
    e = c[0]['c'][0]
    while e.get('k') == 'CXXConstructExpr' and is_copy_ctor(e):
        e = e['c'][0]
    if e.get('k') == 'MemberExpr' and e.get('is_field') and ((e.get('c') or [None])[0] is None or (e.get('c') or [{}])[0].get('k') == 'CXXThisExpr'):
        return e['member'].rsplit('::', 1)[-1]
    return None


def _subst_names(t, sub):
    if isinstance(t, str):
        return sub.get(t, t)
    if isinstance(t, tuple):
        return tuple(_subst_names(x, sub) for x in t)
    return t


def _pure(d):
    """initialiser we are willing to substitute: no calls that create fresh
    state (new_var etc. are handled by rules explicitly), anything else is fine
    since equal canonical forms are only compared inside one function."""
    return True


def _emptiness(t):
    """`c.size() > 0` / `c.size() != 0` is `!c.empty()`, `c.size() == 0` is `c.empty()`: one canonical spelling of an emptiness test.
    A size is a whole number: `c.size() >= k` is `c.size() > k - 1`, `c.size() <= k` is `c.size() < k + 1`."""
    def is_size(b):
        return isinstance(b, tuple) and len(b) == 3 and b[0] == 'mcall' and isinstance(b[1], str) and b[1].endswith('::size') and b[1].startswith('std::')
    if len(t) == 3 and t[0] == '<=':
        if isinstance(t[1], tuple) and t[1][:1] == ('num',) and isinstance(t[1][1], int) and is_size(t[2]):
            t = ('<', ('num', t[1][1] - 1), t[2])
        elif isinstance(t[2], tuple) and t[2][:1] == ('num',) and isinstance(t[2][1], int) and is_size(t[1]):
            t = ('<', t[1], ('num', t[2][1] + 1))
    if len(t) == 3 and t[0] in ('<', '==', '!='):
        for a, b, side in ((t[1], t[2], 0), (t[2], t[1], 1)):
            if a == ('num', 0) and isinstance(b, tuple) and len(b) == 3 and b[0] == 'mcall' and isinstance(b[1], str) and b[1].endswith('::size') and b[1].startswith('std::'):
                e = ('mcall', b[1][:-len('size')] + 'empty', b[2])
                if t[0] == '==':
                    return e
                if t[0] == '!=' or (t[0] == '<' and side == 0):
                    return ('!', e)
    return t


def _membership(t):
    """`M.find(k) != M.end()` is `M.count(k)` (and `==` its negation): one canonical spelling of a membership test."""
    t = _emptiness(t)
    if not (isinstance(t, tuple) and len(t) == 3):
        return t
    if len(t) == 3 and t[0] in ('==', '!='):
        def it(x):      # const_iterator(iterator) conversions are representation detail
            while isinstance(x, tuple) and len(x) == 3 and x[0] == 'new' and 'iterator' in str(x[1]):
                x = x[2]
            return x
        t = (t[0], it(t[1]), it(t[2]))
        for x, y in ((t[1], t[2]), (t[2], t[1])):
            if isinstance(x, tuple) and isinstance(y, tuple) and len(x) == 4 and len(y) == 3 and x[0] == y[0] == 'mcall' and x[1].endswith('::find') and \
                    y[1].rsplit('::', 1)[-1] in ('end', 'cend') and x[2] == y[2] and x[1].rsplit('::', 1)[0] == y[1].rsplit('::', 1)[0]:
                c = ('mcall', x[1].rsplit('::', 1)[0] + '::count', x[2], x[3])
                return c if t[0] == '!=' else ('!', c)
    return t


def _not(a):
    if isinstance(a, tuple) and len(a) == 2 and a[0] == '!':
        return a[1]
    return ('!', a)


def _lit(args):
    """smt::lit(v, sign=true) ->  (lit v) or (! (lit v))."""
    if not args:
        return ('lit',)
    v = args[0]
    s = args[1] if len(args) > 1 else 'true'
    if s == 'true':
        return ('lit', v)
    if s == 'false':
        return ('!', ('lit', v))
    return ('lit', v, s)


def show(t):
    """compact printable form of a canonical term."""
    if isinstance(t, tuple):
        if t and t[0] == 'num':
            return str(t[1])
        if t and t[0] == 'str':
            return repr(t[1])
        return '(' + ' '.join(show(x) for x in t) + ')'
    s = str(t)
    for p in ('smt::', 'ratio::', 'riddle::', 'std::'):
        s = s.replace(p, '')
    return s


def mentions(t, atom):
    if t == atom:
        return True
    if isinstance(t, tuple):
        return any(mentions(x, atom) for x in t)
    return False


def subterms(t):
    yield t
    if isinstance(t, tuple):
        for x in t:
            yield from subterms(x)
