"""Rule engine: contexts, findings, known findings, evidence, exit codes."""
import importlib
import json
import os
import shutil
import sys
import time
import traceback

from . import facts
from .facts import AnalysisBroken, VERIF, short, src

KNOWN = os.path.join(VERIF, 'known_findings.json')


class Finding:
    def __init__(self, prop, rule, func, disc, what, loc='', construct='', expect='', path=None, config=''):
        self.prop, self.rule, self.func, self.disc = prop, rule, func, disc
        self.what, self.loc, self.construct, self.expect = what, loc, construct, expect
        self.path, self.configs = path or [], [config] if config else []

    @property
    def key(self):
        # stable key: no line numbers
        return [self.rule, self.func, self.disc]

    def to_json(self):
        return {'property': self.prop, 'rule': self.rule, 'function': self.func, 'instance': self.disc,
                'key': self.key, 'what': self.what, 'site': self.loc, 'construct': self.construct,
                'expected': self.expect, 'path': self.path, 'configurations': self.configs}


class Ctx:
    """What a rule pack sees.  One per (property, run)."""

    def __init__(self, prop, tier):
        self.prop = prop
        self.tier = tier
        self.findings = {}
        self.declined = []
        self.instances = {}      # rule -> {key: sample}
        self.evaluations = 0
        self.rules = {}          # rule -> description
        self.floors = {}         # rule -> floor
        self.configs_used = set()
        self.configs_skipped = {}
        self.notes = []
        self.beliefs = []
        self.cfg = None
        self.extra = {}

    # ---- facts
    def facts(self, cfgname):
        fs = facts.load(cfgname)
        if fs.failed_units and cfgname in facts.CONFIGS:
            s, e = fs.failed_units[0]
            raise AnalysisBroken('unit %s does not parse in supported configuration %s:\n%s' % (s, cfgname, e))
        self.configs_used.add(cfgname)
        self.cfg = cfgname
        return fs

    # ---- declarations
    def rule(self, rid, desc, floor=1):
        self.rules[rid] = desc
        self.floors[rid] = floor
        self.instances.setdefault(rid, {})

    def instance(self, rid, key, sample=None):
        """a rule instance that was bound to a real construct and evaluated."""
        self.evaluations += 1
        k = json.dumps(key, sort_keys=True) if not isinstance(key, str) else key
        d = self.instances.setdefault(rid, {})
        if k not in d:
            d[k] = sample if sample is not None else key

    def finding(self, rid, func, disc, what, node=None, loc=None, expect='', path=None, construct=None, also=()):
        if node is not None:
            loc = loc or short(node.get('loc'))
            construct = construct if construct is not None else src(node)
        # a function that has been reshaped with constructs no rule engine interprets (a standard algorithm with a lambda, a lambda kept in a local, a
        # do-while, a goto - beyond what the reviewed inventory records for it) is not judged: what a rule "does not find" there may sit inside them
        for fid in (func,) + tuple(also):
            for fs in facts._LOADED.values():
                g = fs.fns.get(fid) if isinstance(fid, str) else None
                if g is not None and g.d.get('_opaque_new'):
                    msg = '%s: %s uses %s, which the path / loop model does not interpret: the finding "%s" is not raised (the idiom is outside what this analysis decides)' % (
                        rid, fid, ', '.join(sorted(set(g.d['_opaque_new']))), what[:160])
                    if msg not in self.declined:
                        self.declined.append(msg)
                    return None
        f = Finding(self.prop, rid, func, disc, what, loc or '', construct or '', expect, path, self.cfg)
        k = json.dumps(f.key)
        if k in self.findings:
            if self.cfg and self.cfg not in self.findings[k].configs:
                self.findings[k].configs.append(self.cfg)
        else:
            self.findings[k] = f
        return f

    def broken(self, msg):
        raise AnalysisBroken(msg)

    def include(self, prop):
        """evaluate the rule pack of another property inside this check (its rule ids are kept): used by the end-to-end properties, whose
        truth rests on the structural clauses of the theories and of the language front end."""
        if prop == self.prop or prop in getattr(self, 'included', []):
            return          # packs may rest on each other: each one is evaluated once per check
        self.included = getattr(self, 'included', []) + [prop]
        cfg0 = self.cfg
        mod = importlib.import_module('orv.rules.' + prop)
        mod.run(self)
        self.cfg = cfg0

    def note(self, msg):
        if msg not in self.notes:
            self.notes.append(msg)

    def belief(self, b):
        if b not in self.beliefs:
            self.beliefs.append(b)


def load_known():
    if not os.path.exists(KNOWN):
        return []
    with open(KNOWN) as fh:
        return json.load(fh).get('findings', [])


def run_property(prop, tier, seed=0):
    t0 = time.time()
    ctx = Ctx(prop, tier)
    rep_dir = os.path.join(os.environ.get('ORV_REPORTS') or os.path.join(VERIF, 'reports'), prop)
    shutil.rmtree(rep_dir, ignore_errors=True)
    status = 0
    broken_msg = None
    try:
        mod = importlib.import_module('orv.rules.' + prop)
        mod.run(ctx)
        # floors: a rule that matched fewer instances than confirmed by hand is broken, not passing
        for rid, floor in ctx.floors.items():
            n = len(ctx.instances.get(rid, {}))
            if n < floor:
                raise AnalysisBroken('rule %s matched %d instances, floor is %d (anchor or idiom changed)' % (rid, n, floor))
        if ctx.declined:
            raise AnalysisBroken('; '.join(ctx.declined[:3]) + (' (+%d more)' % (len(ctx.declined) - 3) if len(ctx.declined) > 3 else ''))
    except AnalysisBroken as e:
        status = 2
        broken_msg = str(e)
    except Exception:
        status = 2
        broken_msg = 'internal error in checker:\n' + traceback.format_exc()

    selftest = None
    if tier == 'thorough' and 'ORV_REPO' not in os.environ and status != 2:
        # seeded variants of this property's rules (DESIGN 5): parsed in scratch worktrees, never built or run
        from . import selftest as st
        res = st.run([prop], jobs=12)
        selftest = {'variants': len(res), 'caught': sum(1 for r in res if r['status'] == 'caught'),
                    'results': [{'variant': r['variant'], 'rule': r.get('rule'), 'status': r['status']} for r in res]}
        bad = [r for r in res if r['status'] != 'caught']
        if bad:
            status = 2
            broken_msg = 'seeded-variant self-test: %d variant(s) not reported by their rule: %s' % (len(bad), '; '.join('%s [%s]' % (r['variant'], r['status']) for r in bad))
    known = [k for k in load_known() if k.get('property') == prop]
    known_keys = {json.dumps(k['key']): k for k in known if k.get('status') == 'known'}
    new, listed = [], []
    for k, f in sorted(ctx.findings.items()):
        (listed if k in known_keys else new).append(f)
    for f in listed:
        kf = known_keys[json.dumps(f.key)]
        print('KNOWN-FINDING: property=%s %s [%s @ %s] %s' % (prop, kf.get('what', f.what), f.rule, f.loc, f.what))
    if new:
        status = 1      # a finding bound to a concrete construct stands even if a later anchor could not be analysed
    if new:
        os.makedirs(rep_dir, exist_ok=True)
    for i, f in enumerate(new):
        p = os.path.join(rep_dir, '%d.json' % i)
        with open(p, 'w') as fh:
            json.dump(f.to_json(), fh, indent=1)
        print('%s: %s: %s\n    construct: %s\n    expected:  %s%s' % (
            f.loc, f.rule, f.what, f.construct, f.expect,
            ''.join('\n    via: ' + s for s in f.path[:12])))
        print('VIOLATION property=%s replay=%s' % (prop, p))
    if broken_msg:
        print('ANALYSIS-BROKEN property=%s: %s' % (prop, broken_msg))

    # ---- evidence
    n_inst = sum(len(v) for v in ctx.instances.values())
    samples = []
    for rid in sorted(ctx.instances):
        for k, s in list(ctx.instances[rid].items())[:4]:
            samples.append({'rule': rid, 'instance': s})
    per_rule = {rid: {'decides': ctx.rules.get(rid, ''), 'instances': len(ctx.instances.get(rid, {})),
                      'floor': ctx.floors.get(rid, 0)} for rid in sorted(ctx.rules)}
    fsets = [facts._LOADED[c] for c in sorted(ctx.configs_used) if c in facts._LOADED]
    units = sorted({u for fs in fsets for u in fs.units})
    nfun = max([len(fs.defined()) for fs in fsets] or [0])
    ev = {
        'property_id': prop, 'tier': tier, 'seed': seed, 'level': 'other',
        'coverage': {
            'explanation': 'Static analysis of the type-checked source of /repo (clang 14 libTooling facts: resolved AST + CFG, '
                           'whole-program call graph). Each rule enumerates ALL instances of its anchors in ALL analysed units and '
                           'configurations; nothing is executed. Rules: ' +
                           ' | '.join('%s: %s' % (r, d) for r, d in sorted(ctx.rules.items())),
            'evaluations': ctx.evaluations,
            'distinct_nontrivial': n_inst,
            'rule': 'one case = one rule instance bound to a concrete construct of /repo (function / call site / store / table cell); '
                    'distinct = distinct (rule, instance key); an instance that binds nothing is not counted and trips the floor (exit 2)',
            'samples': samples[:60],
            'rules': per_rule,
            'obligations': n_inst,
            'discharged': n_inst - len(ctx.findings) if n_inst >= len(ctx.findings) else 0,
            'units_analysed': [short(u) for u in units],
            'functions_with_bodies': nfun,
            'configurations_analysed': sorted(ctx.configs_used),
            'configurations_skipped': ctx.configs_skipped,
            'belief_sites': ctx.beliefs[:40],
            'notes': ctx.notes,
            'known_findings_matched': [f.key for f in listed],
            'exhaustive': True,
            'tree': facts.tree()[0],
        },
        'assumptions': [
            'clang 14 front end resolves callees/members as the real compiler does (same flags as the CMake build, -std=gnu++17, -UNDEBUG)',
            'rules are necessary structural conditions of the behaviour, not the behaviour itself (DESIGN.md section 4)',
        ],
        'wall_s': round(time.time() - t0, 2),
        'violations': len(new),
        'status': {0: 'held', 1: 'violation', 2: 'analysis-broken'}[status],
    }
    ev['coverage'].update(ctx.extra)
    if selftest is not None:
        ev['coverage']['seeded_variant_selftest'] = selftest
    if broken_msg:
        ev['coverage']['broken'] = broken_msg
    if not os.environ.get('ORV_NO_EVIDENCE'):
        os.makedirs(os.path.join(VERIF, 'evidence'), exist_ok=True)
        with open(os.path.join(VERIF, 'evidence', prop + '.json'), 'w') as fh:
            json.dump(ev, fh, indent=1, default=str)
    print('%s %s: %d rules, %d instances (%d evaluations) in %d configuration(s), %d finding(s) (%d known) -> exit %d [%.1fs]' % (
        prop, tier, len(ctx.rules), n_inst, ctx.evaluations, len(ctx.configs_used), len(ctx.findings), len(listed), status,
        time.time() - t0))
    return status
