"""Scanner automata (C16.R6): the character-level loops of the lexer are finite automata over a small alphabet.

The automaton is *extracted* from the CFG of lexer::next by abstract interpretation over character classes: every read of a character
(`ch = next_char()` or a bare `next_char()`) branches over the classes of the alphabet (the character constants the construct compares
with, one representative for "any other character", and end of input); conditions on `ch` are decided by the class, anything else is
explored both ways.  The product with a reference DFA is explored exhaustively (it is finite), so the verdict is a language inclusion in
both directions, for inputs of every length - nothing is executed and no input is sampled.
"""
from . import cfg
from .facts import AnalysisBroken, walk

OTHER = -1000
EOF = -1


def _is_ch(n):
    return n is not None and n.get('k') == 'MemberExpr' and n.get('member') == 'riddle::lexer::ch'


def _is_next_char(n):
    return n is not None and n.get('k') == 'CXXMemberCallExpr' and n.get('callee_name') == 'riddle::lexer::next_char'


def _is_read_assign(n):
    return n is not None and n.get('k') == 'BinaryOperator' and n.get('op') == '=' and _is_ch(n['c'][0]) and _is_next_char(n['c'][1])


def ev(n, ch):
    """value of an expression given the class of ch (None = unknown)."""
    if n is None:
        return None
    k = n.get('k')
    if _is_ch(n) or _is_read_assign(n):
        return ch
    if k in ('IntegerLiteral', 'CharacterLiteral'):
        return n.get('val')
    if k == 'CXXBoolLiteralExpr':
        return 1 if n.get('val') else 0
    if k == 'UnaryOperator' and n.get('op') == '-':
        v = ev(n['c'][0], ch)
        return None if v is None or v == OTHER else -v
    if k == 'UnaryOperator' and n.get('op') == '!':
        v = ev(n['c'][0], ch)
        return None if v is None else (0 if v else 1)
    if k == 'BinaryOperator':
        op = n.get('op')
        if op == ',':
            return ev(n['c'][1], ch)
        a, b = ev(n['c'][0], ch), ev(n['c'][1], ch)
        if op == '&&':
            if a == 0 or b == 0:
                return 0
            return 1 if a is not None and b is not None else None
        if op == '||':
            if (a is not None and a != 0) or (b is not None and b != 0):
                return 1
            return 0 if a == 0 and b == 0 else None
        if a is None or b is None:
            return None
        if op == '==':
            return 1 if a == b else 0
        if op == '!=':
            return 1 if a != b else 0
        if OTHER in (a, b):
            return None
        if op == '<':
            return 1 if a < b else 0
        if op == '<=':
            return 1 if a <= b else 0
        if op == '>':
            return 1 if a > b else 0
        if op == '>=':
            return 1 if a >= b else 0
    return None


class Automaton:
    """product exploration of (CFG node, class of ch, reference state, error flag)."""

    def __init__(self, fn):
        self.fn = fn
        self.g = cfg.Graph(fn)
        self.blocks = self.g.blocks

    def node_of(self, tree_node):
        for n in self.g.nodes:
            if self.g.tree(n) is tree_node:
                return n
        raise AnalysisBroken('%s: statement not found in the CFG' % self.fn.id)

    def _branch(self, bid, ch):
        b = self.blocks[bid]
        succs = [s for s in (b.get('succs') or []) if s is not None]
        tk = b.get('termk')
        term = self.fn.node(b.get('term')) if b.get('term') is not None else None
        if not succs:
            return []
        if tk in ('IfStmt', 'WhileStmt', 'ForStmt', 'DoStmt', 'ConditionalOperator') and term is not None and len(succs) == 2:
            c = term['slots'].get('cond') if term.get('slots') else (term.get('c') or [None])[0]
            if c is None:       # for (;;)
                return [succs[0]]
            v = ev(c, ch)
            return succs if v is None else [succs[0] if v else succs[1]]
        if tk == 'BinaryOperator' and term is not None and term.get('op') in ('&&', '||') and len(succs) == 2:
            v = ev(term['c'][0], ch)
            return succs if v is None else [succs[0] if v else succs[1]]
        if tk == 'SwitchStmt' and term is not None:
            v = ev(term['slots'].get('cond'), ch)
            labelled, default, plain = {}, None, None
            for s in succs:
                lab = self.blocks[s].get('label')
                ln = self.fn.node(lab) if lab is not None else None
                if ln is not None and ln.get('k') == 'CaseStmt':
                    labelled.setdefault(ln.get('case'), s)
                elif ln is not None and ln.get('k') == 'DefaultStmt':
                    default = s
                else:
                    plain = s
            if v is None:
                return succs
            if v in labelled:
                return [labelled[v]]
            if default is not None:
                return [default]
            return [plain] if plain is not None else []
        return succs

    def explore(self, start, alphabet, delta, q0, accept, reject, limit=200000):
        """returns list of (kind, description) problems.  delta(q, a) -> q'."""
        g = self.g
        problems = []
        seen = set()
        st = [(start, None, q0, False, False)]
        n_states = 0
        while st:
            s = st.pop()
            if s in seen:
                continue
            seen.add(s)
            n_states += 1
            if n_states > limit:
                raise AnalysisBroken('%s: scanner automaton exploration exceeded %d states' % (self.fn.id, limit))
            node, ch, q, err, ended = s
            bid, i = node
            if i is not None:
                t = g.tree(node)
                el = self.blocks[bid].get('elems') or []
                if i > 0 and el[i] == el[i - 1]:
                    t = None        # implicit conversions of an expression are dumped under the id of the expression itself: one evaluation, not two
                nxt = [(bid, i + 1)] if (bid, i + 1) in g.succ or i + 1 < len(self.blocks[bid].get('elems') or []) else [(bid, None)]
                nxt = g.succ.get(node, [])
                if t is not None and t.get('k') == 'ReturnStmt':
                    if err and q not in reject:
                        problems.append(('error-early', q, t))
                    elif not err and q in reject:
                        problems.append(('accepts-rejected', q, t))
                    elif not err and q not in accept and q not in reject:
                        problems.append(('ends-early', q, t))
                    continue
                if _is_read_assign(t) or (_is_next_char(t) and not self._is_rhs_of_read(t)):
                    assign = _is_read_assign(t)
                    if _is_next_char(t):
                        # bare read: the character is consumed, ch keeps its value; (the call inside `ch = next_char()` is handled at the assignment)
                        for a in ([EOF] if ended else alphabet):
                            q2 = q if (q in accept or q in reject) else delta(q, a)
                            for m in nxt:
                                st.append((m, ch, q2, err, ended or a == EOF))
                        continue
                    for a in ([EOF] if ended else alphabet):
                        q2 = q if (q in accept or q in reject) else delta(q, a)
                        for m in nxt:
                            st.append((m, a, q2, err, ended or a == EOF))
                    continue
                if t is not None and t.get('k') == 'CXXMemberCallExpr' and t.get('callee_name') == 'riddle::lexer::error':
                    err = True
                for m in nxt:
                    st.append((m, ch, q, err, ended))
            else:
                if bid == g.exit:
                    continue
                for sb in self._branch(bid, ch):
                    el = self.blocks[sb].get('elems') or []
                    st.append(((sb, 0) if el else (sb, None), ch, q, err, ended))
        return problems, n_states

    def _is_rhs_of_read(self, call):
        p = self.fn.parent(call)
        return p is not None and _is_read_assign(p)
